"""C31 -- Flush order satisfies every constraint (dependency-edge obligations)."""

from __future__ import annotations

import ast
import itertools
from typing import Dict, List, Optional, Set, Tuple

from ..astutil import (
    call_name, calls_in, calls_named, dotted, name_stores, parent_map, test_atoms, unparse, walk_local, walk_stmts,
)
from ..evalx import Sym
from ..oracles import load
from ..report import Registry, sub, chain
from ._helpers_rob_b1 import (
    bind_args, bindings, dominating_guards, expand_test, expanded_atoms, inline_helpers, resolve_alias, resolve_callee, resolved_dotted,
)

R = Registry(
    "C31",
    title="Flush emits statements in an order that satisfies every constraint",
    decides=(
        "for every dependency processor (one-to-many, many-to-one, many-to-many, key-switch detection) and every "
        "branch (post_update on/off; per-object form: parent saved/deleted x related object saved/deleted) the "
        "edges registered in uow.dependencies are acyclic and their transitive closure contains the precedence "
        "pairs a FOREIGN KEY checking backend needs (oracle fk_order_obligations.json); UOWTransaction.execute "
        "runs the actions in topological order of exactly that edge set and rewrites aggregate edges onto the "
        "per-object actions of cycle members, reading the edges to rewrite only after the per-object actions "
        "(which register further aggregate edges) were generated; post-update statements are emitted only by the "
        "ordered _PostUpdateAll action; every action handing states to persistence._save_obj/_delete_obj selects "
        "them at execution time on the uow.states components that remove_state_actions() (row switch) changes, "
        "aggregate and per-object form alike; a relationship's edges and ProcessAll actions are registered on the first "
        "presort pass whose batch of states has changes on it (deleted or saved), and the latch that suppresses the "
        "has-changes test on later passes is set only by a pass that performed the registration."
    ),
    not_decided=(
        "the per-row sort inside one mapper (_sort_states, self-referential sort_key), joined-inheritance table "
        "order, and that the emitted statements satisfy constraints for every object graph; whether the per-object "
        "_ProcessState actions should skip cancelled states like _ProcessAll._elements does; that the presort loop of "
        "_generate_actions runs to a fixpoint (every _Preprocess.execute reports the states it processed) and that "
        "prop_has_changes() itself recognises every change."
    ),
)

DEP = "orm/dependency.py"
UOW = "orm/unitofwork.py"
PERS = "orm/persistence.py"

# action constructors of orm/unitofwork.py -> node kind (the boolean flag argument index, if any)
CTOR_KIND = {
    "_SaveUpdateAll": ("save", None),
    "_SaveUpdateState": ("save", None),
    "_DeleteAll": ("delete", None),
    "_DeleteState": ("delete", None),
    "_ProcessAll": ("process", 2),
    "_ProcessState": ("process", 2),
    "_PostUpdateAll": ("postupdate", 2),
}

# processor classes that are not reached through the relationship-direction table
EXTRA_PROCESSORS = {
    "_DetectKeySwitch": "key_switch",  # created by _ManyToOneDP.__init__ for the referenced mappers
}

ATOMS = ("post_update", "isdelete", "childisdelete")


# ---------------------------------------------------------------------- symbolic nodes
def _ctor(call: ast.AST, resolve=None) -> Optional[Tuple[str, Optional[bool], Optional[str]]]:
    """(kind, flag, side) for a unitofwork action constructor call, else None.  `resolve` maps an argument
    expression to the expression it stands for (local aliases such as `base = self.mapper.primary_base_mapper`)."""
    if not isinstance(call, ast.Call):
        return None
    nm = (call_name(call) or "").rsplit(".", 1)[-1]
    if nm not in CTOR_KIND:
        return None
    res = resolve or (lambda e: e)
    kind, flagpos = CTOR_KIND[nm]
    flag = None
    if flagpos is not None:
        fl = res(call.args[flagpos]) if len(call.args) > flagpos else next((res(k.value) for k in call.keywords if k.arg == "isdelete"), None)
        if not isinstance(fl, ast.Constant):
            return (kind, None, None)
        flag = bool(fl.value)
    side = None
    if len(call.args) > 1:
        d = dotted(res(call.args[1])) or ""
        if d.startswith("self.parent"):
            side = "parent"
        elif d.startswith("self.mapper"):
            side = "child"
    return (kind, flag, side)


def _aggregate_role(call: ast.AST, resolve=None) -> Optional[str]:
    c = _ctor(call, resolve)
    if c is None:
        return None
    kind, flag, side = c
    if kind == "process":
        if flag is None:
            return None
        return "before_delete" if flag else "after_save"
    if side is None:
        return None
    if kind == "save":
        return f"{side}_saves"
    if kind == "delete":
        return f"{side}_deletes"
    if kind == "postupdate":
        if flag is None:
            return None
        return f"{side}_pre_updates" if flag else f"{side}_post_updates"
    return None


class _Frame:
    """one activation of the interpreter: the function being read, its action roles, boolean atoms and aliases"""

    def __init__(self, f, env, atom_names, aliases=None):
        self.f = f
        self.env: Dict[str, str] = dict(env)              # local name -> action role
        self.atom_names: Dict[str, str] = dict(atom_names)  # expression text -> canonical atom
        self.aliases: Dict[str, ast.AST] = dict(aliases or {})  # local name -> expression it stands for


class _Interp:
    """Evaluates a dependency-registering method under one truth assignment of its boolean atoms and
    collects the edges passed to `uow.dependencies.update([...])` / `.add((a, b))`.  Shape independent:
    if/else either way round, guard clauses with `return`, local aliases (of sub-expressions, of the edge set, of
    the edge list, of a branch condition) and statement-level helper methods are followed."""

    MAX_DEPTH = 3

    def __init__(self, ctx, f, env: Dict[str, str], atom_names: Dict[str, str]):
        self.ctx = ctx
        self.f = f
        self.env0 = dict(env)
        self.atom_names = atom_names
        self.used_atoms: Set[str] = set()
        # dry run over both outcomes of every branch: which atoms decide
        self.scanning = True
        self.edges = []
        self._block(f.node.body, None, _Frame(f, env, atom_names), 0)
        self.scanning = False

    # -- conditions
    def _resolve(self, e, fr: _Frame, depth=4):
        while depth > 0 and isinstance(e, ast.Name) and e.id in fr.aliases:
            e = fr.aliases[e.id]
            depth -= 1
        return e

    def _truth(self, t, asg, fr: _Frame):
        """truth of a branch condition; while scanning: None, after recording the atoms"""
        t = self._resolve(t, fr)
        if isinstance(t, ast.UnaryOp) and isinstance(t.op, ast.Not):
            v = self._truth(t.operand, asg, fr)
            return None if v is None else not v
        if isinstance(t, ast.BoolOp):
            vals = [self._truth(v, asg, fr) for v in t.values]
            if None in vals:
                return None
            return all(vals) if isinstance(t.op, ast.And) else any(vals)
        if isinstance(t, ast.Constant) and isinstance(t.value, bool):
            return t.value
        txt = unparse(t)
        flip = False
        if isinstance(t, ast.Compare) and len(t.ops) == 1 and isinstance(t.comparators[0], ast.Constant) \
                and isinstance(t.comparators[0].value, bool) and isinstance(t.ops[0], (ast.Is, ast.IsNot, ast.Eq, ast.NotEq)):
            # `x is True` / `x == False` spellings of a boolean atom
            txt = unparse(self._resolve(t.left, fr))
            flip = isinstance(t.ops[0], (ast.Is, ast.Eq)) != t.comparators[0].value
        self.ctx.require(
            txt in fr.atom_names,
            f"{fr.f.key}: branch condition `{txt}` is not one of the known boolean atoms {sorted(fr.atom_names)}",
        )
        atom = fr.atom_names[txt]
        if self.scanning:
            self.used_atoms.add(atom)
            return None
        return asg[atom] != flip

    def run(self, asg: Dict[str, bool]) -> List[Tuple[str, str]]:
        self.edges = []
        self._block(self.f.node.body, asg, _Frame(self.f, self.env0, self.atom_names), 0)
        return self.edges

    # -- statements
    def _is_deps(self, e, fr: _Frame) -> bool:
        e = self._resolve(e, fr)
        return isinstance(e, ast.Attribute) and e.attr == "dependencies"

    def _mentions_deps(self, st, fr: _Frame) -> bool:
        for n in ast.walk(st):
            if isinstance(n, ast.Attribute) and n.attr == "dependencies":
                return True
            if isinstance(n, ast.Name) and isinstance(n.ctx, ast.Load) and n.id in fr.aliases and self._is_deps(n, fr):
                return True
        return False

    def _pairs(self, arg, fr: _Frame):
        arg = self._resolve(arg, fr)
        self.ctx.require(isinstance(arg, (ast.List, ast.Tuple, ast.Set)),
                         f"{fr.f.key}: dependencies.update() argument is not a literal list of pairs")
        return arg.elts

    def _block(self, body, asg, fr: _Frame, depth: int) -> bool:
        """interpret a statement list; True when the function returned"""
        for st in body:
            if isinstance(st, ast.If):
                v = self._truth(st.test, asg, fr)
                if v is None:   # scanning: both arms (on copies of the frame state)
                    saved = (dict(fr.env), dict(fr.aliases))
                    r1 = self._block(st.body, asg, fr, depth)
                    env1, al1 = fr.env, fr.aliases
                    fr.env, fr.aliases = dict(saved[0]), dict(saved[1])
                    r2 = self._block(st.orelse, asg, fr, depth)
                    fr.env = {**env1, **fr.env}
                    fr.aliases = {**al1, **fr.aliases}
                    if r1 and r2:
                        return True
                    continue
                if self._block(st.body if v else st.orelse, asg, fr, depth):
                    return True
                continue
            if isinstance(st, ast.Return):
                return True
            if isinstance(st, ast.Pass) or (isinstance(st, ast.Expr) and isinstance(st.value, ast.Constant)):
                continue
            if isinstance(st, (ast.Assign, ast.AnnAssign)) and getattr(st, "value", None) is not None:
                tgts = st.targets if isinstance(st, ast.Assign) else [st.target]
                if len(tgts) == 1 and isinstance(tgts[0], ast.Name):
                    role = _aggregate_role(st.value, lambda e: self._resolve(e, fr))
                    if role is not None:
                        fr.env[tgts[0].id] = role
                        fr.aliases.pop(tgts[0].id, None)
                    elif isinstance(st.value, ast.Name) and st.value.id in fr.env and st.value.id not in fr.aliases:
                        fr.env[tgts[0].id] = fr.env[st.value.id]      # second name for an action
                    else:
                        fr.aliases[tgts[0].id] = st.value
                        fr.env.pop(tgts[0].id, None)
                    continue
            if isinstance(st, ast.Expr) and isinstance(st.value, ast.Call) and depth < self.MAX_DEPTH:
                callee = resolve_callee(self.ctx, fr.f, st.value)
                if callee is not None and callee.module is fr.f.module and callee.node is not fr.f.node \
                        and any(isinstance(n, ast.Attribute) and n.attr == "dependencies" for n in ast.walk(callee.node)):
                    m = bind_args(st.value, callee)
                    self.ctx.require(m is not None, f"{fr.f.key}: call of helper {callee.name}() not understood")
                    self.ctx.functions_analysed.add(callee.key)
                    env, atoms, aliases = {}, {k: v for k, v in fr.atom_names.items() if k.startswith("self.")}, {}
                    for p_, a_ in m.items():
                        a_r = self._resolve(a_, fr)
                        if isinstance(a_, ast.Name) and a_.id in fr.env:
                            env[p_] = fr.env[a_.id]
                        elif unparse(a_r) in fr.atom_names:
                            atoms[p_] = fr.atom_names[unparse(a_r)]
                        elif _aggregate_role(a_r, lambda e: self._resolve(e, fr)) is not None:
                            env[p_] = _aggregate_role(a_r, lambda e: self._resolve(e, fr))
                        else:
                            aliases[p_] = a_r
                    self._block(callee.node.body, asg, _Frame(callee, env, atoms, aliases), depth + 1)
                    continue
            if not self._mentions_deps(st, fr):
                continue  # logging, asserts, unrelated statements
            self.ctx.require(
                isinstance(st, ast.Expr) and isinstance(st.value, ast.Call) and isinstance(st.value.func, ast.Attribute),
                f"{fr.f.key}: statement touching uow.dependencies is not a plain call: `{unparse(st)[:80]}`",
            )
            c = st.value
            self.ctx.require(self._is_deps(c.func.value, fr), f"{fr.f.key}: unknown operation on uow.dependencies: `{unparse(c.func)}`")
            if c.func.attr == "update":
                self.ctx.require(len(c.args) == 1, f"{fr.f.key}: dependencies.update() with {len(c.args)} args")
                pairs = self._pairs(c.args[0], fr)
            elif c.func.attr == "add":
                self.ctx.require(len(c.args) == 1, f"{fr.f.key}: dependencies.add() with {len(c.args)} args")
                pairs = [c.args[0]]
            else:
                self.ctx.error(f"{fr.f.key}: unknown operation on uow.dependencies: `{unparse(c.func)}`")
            for p in pairs:
                p = self._resolve(p, fr)
                self.ctx.require(
                    isinstance(p, ast.Tuple) and len(p.elts) == 2 and all(isinstance(e, ast.Name) for e in p.elts),
                    f"{fr.f.key}: dependency edge `{unparse(p)}` is not a pair of local names",
                )
                a, b = p.elts
                for e in (a, b):
                    self.ctx.require(e.id in fr.env, f"{fr.f.key}: edge endpoint `{e.id}` has no known action role")
                self.edges.append((fr.env[a.id], fr.env[b.id]))
        return False


def _closure(edges) -> Dict[str, Set[str]]:
    succ: Dict[str, Set[str]] = {}
    for a, b in edges:
        succ.setdefault(a, set()).add(b)
        succ.setdefault(b, set())
    reach = {n: set() for n in succ}
    for n in succ:
        stack = list(succ[n])
        while stack:
            m = stack.pop()
            if m in reach[n]:
                continue
            reach[n].add(m)
            stack.extend(succ[m])
    return reach


def _cycle_nodes(reach) -> List[str]:
    return sorted(n for n, r in reach.items() if n in r)


def _fk_obligations(oracle, direction: str, post_update: bool):
    """Concrete aggregate (a, b, requires, why) for a FOREIGN KEY direction."""
    d = oracle["direction"][direction]
    ing, ed = d["referencing"], d["referenced"]
    m = {
        "referenced_save": f"{ed}_saves", "referencing_save": f"{ing}_saves",
        "referenced_delete": f"{ed}_deletes", "referencing_delete": f"{ing}_deletes",
        "sync": "after_save",
        "post_update": f"{ing}_post_updates", "pre_update": f"{ing}_pre_updates",
    }
    rows = oracle["foreign_key"]["post_update" if post_update else "plain"]
    return [(m[a], m[b], [m[r] for r in req], why) for a, b, req, why in rows]


def _obligations(oracle, direction: str, post_update: bool):
    if direction in ("one_to_many", "many_to_one"):
        return _fk_obligations(oracle, direction, post_update)
    return [(a, b, list(req), why) for a, b, req, why in oracle[direction]]


def _processor_classes(ctx):
    """[(ClassInfo, direction)] for every concrete dependency processor."""
    mod = ctx.index.module(DEP)
    base = ctx.index.cls(f"{DEP}::_DependencyProcessor")
    table = ctx.ev.module_value(mod, "_direction_to_processor")
    ctx.require(isinstance(table, dict) and table, "_direction_to_processor is not a literal dict")
    by_cls = {}
    for k, v in table.items():
        ctx.require(isinstance(k, Sym) and isinstance(v, Sym), f"_direction_to_processor entry {k!r}: {v!r} not symbolic")
        dirname = {"ONETOMANY": "one_to_many", "MANYTOONE": "many_to_one", "MANYTOMANY": "many_to_many"}.get(k.short)
        ctx.require(dirname is not None, f"unknown relationship direction {k.short}")
        by_cls[v.short] = dirname
    out = []
    for c in sorted(ctx.index.subclasses(base), key=lambda c: c.name):
        if c is base:
            continue
        d = by_cls.get(c.name) or EXTRA_PROCESSORS.get(c.name)
        ctx.require(d is not None, f"dependency processor class {c.name} has no direction (not in _direction_to_processor)")
        out.append((c, d))
    ctx.require(len(out) >= 4, "fewer than 4 dependency processor classes found")
    return base, out


def _aggregate_entry(ctx, base, cls):
    """(FuncInfo to interpret, initial env) for the aggregate form of processor `cls`."""
    setup = ctx.index.resolve_method(cls, "per_property_flush_actions")
    ctx.require(setup is not None, f"{cls.name}: no per_property_flush_actions")
    ctx.functions_analysed.add(setup.key)
    if setup.cls is not base:
        return setup, {}
    # base set-up: roles of the arguments handed to per_property_dependencies
    calls = calls_named(setup.node, "per_property_dependencies")
    ctx.require(len(calls) == 1, "base per_property_flush_actions does not call per_property_dependencies exactly once")
    call = calls[0]
    binds: Dict[str, List[ast.AST]] = {}
    for n, v, st in name_stores(setup.node):
        binds.setdefault(n, []).append(v)
    roles = []
    for a in call.args[1:]:
        ctx.require(isinstance(a, ast.Name) and len(binds.get(a.id, [])) == 1,
                    f"per_property_dependencies argument `{unparse(a)}` is not a singly-bound local")
        role = _aggregate_role(binds[a.id][0])
        ctx.require(role is not None, f"argument `{a.id}` is not bound to a unit-of-work action constructor")
        roles.append(role)
    f = ctx.index.resolve_method(cls, "per_property_dependencies")
    ctx.require(f is not None, f"{cls.name}: per_property_dependencies is not defined")
    ctx.functions_analysed.add(f.key)
    params = f.params[2:]  # self, uow, ...
    ctx.require(len(params) == len(roles), f"{f.key}: {len(params)} parameters for {len(roles)} arguments")
    return f, dict(zip(params, roles))


def _branches(interp: _Interp):
    atoms = [a for a in ATOMS if a in interp.used_atoms]
    for vals in itertools.product([False, True], repeat=len(atoms)):
        yield dict(zip(atoms, vals))


def _aggregate_edges(ctx, base, cls):
    """{post_update(bool) or None: edges} for the aggregate form."""
    f, env = _aggregate_entry(ctx, base, cls)
    it = _Interp(ctx, f, env, {"self.post_update": "post_update"})
    out = {}
    for asg in _branches(it):
        out[asg.get("post_update")] = it.run(asg)
    return f, out


@R.rule("C31-R1", floor=32, template="T-TABLE",
        desc="per processor class and post_update branch: the aggregate dependency edges are acyclic and their "
             "closure contains every precedence pair of the FOREIGN KEY / association-table oracle")
def r1(ctx):
    oracle = load("fk_order_obligations.json")
    base, procs = _processor_classes(ctx)
    for cls, direction in procs:
        f, per_branch = _aggregate_edges(ctx, base, cls)
        for pu, edges in sorted(per_branch.items(), key=lambda kv: str(kv[0])):
            label = "any" if pu is None else ("post_update" if pu else "plain")
            ctx.require(edges, f"{f.key}[{label}]: no dependency edges extracted")
            reach = _closure(edges)
            cyc = _cycle_nodes(reach)
            ctx.check(not cyc, f"{f.key}:{label}:acyclic",
                      f"dependency edges of branch {label} contain a cycle through {cyc}",
                      f"{len(edges)} edges, acyclic", f.loc)
            for a, b, req, why in _obligations(oracle, direction, bool(pu)):
                key = f"{f.key}:{label}:{a}<{b}"
                if b in reach.get(a, ()):
                    ctx.ok(key, why)
                elif a in reach.get(b, ()):
                    ctx.violation(key, f"{direction}/{label}: `{b}` is ordered BEFORE `{a}` (reversed); needed: {why}", f.loc)
                else:
                    ctx.violation(key, f"{direction}/{label}: nothing orders `{a}` before `{b}`; needed: {why}", f.loc)


# ---------------------------------------------------------------------- per-object form
PER_STATE_ROLES = ["save_parent", "delete_parent", "child_action", "after_save", "before_delete", "isdelete", "childisdelete"]


def _check_per_state_call_site(ctx, base):
    """The base class hands (save action, delete action, child action, save-processing, delete-processing,
    isdelete, childisdelete) to per_state_dependencies, in that order; child-action flags agree with the action."""
    f = ctx.index.resolve_method(base, "per_state_flush_actions")
    ctx.require(f is not None, "no _DependencyProcessor.per_state_flush_actions")
    ctx.functions_analysed.add(f.key)
    calls = calls_named(f.node, "per_state_dependencies")
    ctx.require(len(calls) == 1, "per_state_flush_actions does not call per_state_dependencies exactly once")
    call = calls[0]
    args = call.args[1:]
    ctx.require(len(args) == 7 and all(isinstance(a, ast.Name) for a in args),
                "per_state_dependencies is not called with 7 local names after uow")
    binds: Dict[str, List[ast.AST]] = {}
    for n, v, st in name_stores(f.node):
        binds.setdefault(n, []).append(v)

    def kinds(name):
        out = set()
        for v in binds.get(name, []):
            if v is None or (isinstance(v, ast.Constant) and v.value is None):
                continue
            c = _ctor(v)
            out.add(None if c is None else (c[0], c[1]))
        return out

    want = [{("save", None)}, {("delete", None)}, None, {("process", False)}, {("process", True)}]
    bad = []
    for i, w in enumerate(want):
        if w is None:
            continue
        k = kinds(args[i].id)
        if k != w:
            bad.append(f"argument {i + 1} `{args[i].id}` is bound to {sorted(map(str, k))}, expected {sorted(map(str, w))}")
    if args[5].id not in f.params:
        bad.append(f"argument 6 `{args[5].id}` is not the isdelete parameter")
    # child action and its flag come from one loop over (action, flag) pairs
    loop = None
    for n in walk_local(f.node):
        if isinstance(n, ast.For) and isinstance(n.target, ast.Tuple) and [unparse(e) for e in n.target.elts] == [args[2].id, args[6].id]:
            loop = n
    if loop is None:
        bad.append("child action and childisdelete are not unpacked from one (action, flag) pair")
    ctx.check(not bad, f"{f.key}:argument-roles", "; ".join(bad),
              "save/delete/child/after_save/before_delete/isdelete/childisdelete in declared order", f.loc)
    # every (action, flag) pair literal: flag True iff the action is a delete action
    pairs_bad, npairs = [], 0
    for n in walk_local(f.node):
        if isinstance(n, ast.Tuple) and len(n.elts) == 2 and isinstance(n.elts[1], ast.Constant) and isinstance(n.elts[1].value, bool):
            act = n.elts[0]
            kind = None
            c = _ctor(act)
            if c is not None:
                kind = c[0]
            elif isinstance(act, ast.Name):
                ks = {k[0] for k in kinds(act.id) if k}
                kind = ks.pop() if len(ks) == 1 else None
            if kind not in ("save", "delete"):
                continue
            npairs += 1
            if (kind == "delete") != n.elts[1].value:
                pairs_bad.append(unparse(n))
    ctx.require(npairs >= 2, "no (child action, childisdelete) pair literals found")
    ctx.check(not pairs_bad, f"{f.key}:child-action-flags",
              f"childisdelete flag disagrees with the action kind in {pairs_bad}",
              f"{npairs} (action, flag) pairs agree", f.loc)
    return f


def _per_state_name(agg: str, isdelete: bool, childisdelete: bool) -> Optional[str]:
    """Per-object node for an aggregate node in the branch (None: node does not exist in this branch)."""
    table = {
        "parent_saves": ("save_parent", not isdelete),
        "parent_deletes": ("delete_parent", isdelete),
        "child_saves": ("child_action", not childisdelete),
        "child_deletes": ("child_action", childisdelete),
        "after_save": ("after_save", not isdelete),
        "before_delete": ("before_delete", isdelete),
    }
    if agg in table:
        nm, present = table[agg]
        return nm if present else None
    return agg  # post/pre update actions are always the aggregate ones


def _exists(node: str, isdelete: bool) -> bool:
    if node in ("save_parent", "after_save"):
        return not isdelete
    if node in ("delete_parent", "before_delete"):
        return isdelete
    return True


@R.rule("C31-R2", floor=57, template="T-TABLE",
        desc="per-object form: for every (post_update, isdelete, childisdelete) branch of per_state_dependencies "
             "the edges contain the oracle's precedence pairs specialised to the objects present in that branch "
             "(pairs with a never-cyclic post/pre-update endpoint may be discharged by the direct aggregate edge, "
             "which _generate_actions rewrites onto per-object actions)")
def r2(ctx):
    oracle = load("fk_order_obligations.json")
    base, procs = _processor_classes(ctx)
    _check_per_state_call_site(ctx, base)
    # post/pre-update actions are never members of a cycle: at the level of action kinds, no path leads from
    # a post/pre update back to an action that precedes it (checked over the union of all aggregate edges)
    union = []
    agg_by_cls = {}
    for cls, direction in procs:
        f, per_branch = _aggregate_edges(ctx, base, cls)
        agg_by_cls[cls.name] = per_branch
        for pu, edges in per_branch.items():
            union.extend(edges)

    def kind_of(n):
        for suffix in ("_post_updates", "_pre_updates", "_saves", "_deletes"):
            if n.endswith(suffix):
                return suffix[1:]
        return n
    kreach = _closure([(kind_of(a), kind_of(b)) for a, b in union if kind_of(a) != kind_of(b) or True])
    pu_cyclic = [k for k in ("post_updates", "pre_updates") if k in kreach.get(k, ())]
    ctx.check(not pu_cyclic, f"{DEP}::_DependencyProcessor:post-update-actions-never-cyclic",
              f"{pu_cyclic} lie on a cycle of action kinds: aggregate post-update actions could become cycle members",
              "no path of aggregate edges leads from a post/pre-update action back to it", None)

    for cls, direction in procs:
        f = ctx.index.resolve_method(cls, "per_state_dependencies")
        setup = ctx.index.resolve_method(cls, "per_state_flush_actions")
        if setup is not None and setup.cls is not base:
            # processor with its own per-object set-up (key switch detection: nothing to order per object)
            ctx.functions_analysed.add(setup.key)
            regs = [n for n in ast.walk(setup.node) if isinstance(n, ast.Attribute) and n.attr == "dependencies"]
            ctx.check(not regs, f"{setup.key}:no-per-object-edges",
                      "overriding per_state_flush_actions registers edges this rule does not model",
                      "registers no per-object edges", setup.loc)
            continue
        ctx.require(f is not None, f"{cls.name}: per_state_dependencies is not defined")
        ctx.functions_analysed.add(f.key)
        params = f.params[2:]
        ctx.require(len(params) == 7, f"{f.key}: expected 7 parameters after uow, found {len(params)}")
        env = dict(zip(params[:5], PER_STATE_ROLES[:5]))
        atom_names = {"self.post_update": "post_update", params[5]: "isdelete", params[6]: "childisdelete"}
        it = _Interp(ctx, f, env, atom_names)
        has_pu = "post_update" in it.used_atoms
        for pu in ([False, True] if has_pu else [None]):
            obligations = _obligations(oracle, direction, bool(pu))
            agg_edges = set(agg_by_cls[cls.name].get(pu if pu in agg_by_cls[cls.name] else None, []))
            for isdelete in (False, True):
                for cdel in (False, True):
                    asg = {"post_update": bool(pu), "isdelete": isdelete, "childisdelete": cdel}
                    edges = [(a, b) for a, b in it.run(asg) if _exists(a, isdelete) and _exists(b, isdelete)]
                    reach = _closure(edges)
                    label = ",".join([
                        "any" if pu is None else ("post_update" if pu else "plain"),
                        "parent-deleted" if isdelete else "parent-saved",
                        "child-deleted" if cdel else "child-saved",
                    ])
                    cyc = _cycle_nodes(reach)
                    ctx.check(not cyc, f"{f.key}:{label}:acyclic", f"per-object edges of branch [{label}] contain a cycle through {cyc}",
                              f"{len(edges)} edges, acyclic", f.loc)
                    for a, b, req, why in obligations:
                        pa, pb = _per_state_name(a, isdelete, cdel), _per_state_name(b, isdelete, cdel)
                        if pa is None or pb is None or pa == pb:
                            continue
                        if any(_per_state_name(r, isdelete, cdel) is None for r in req):
                            continue
                        key = f"{f.key}:{label}:{pa}<{pb}"
                        if pb in reach.get(pa, ()):
                            ctx.ok(key, why)
                            continue
                        if (a.endswith("_updates") or b.endswith("_updates")) and (a, b) in agg_edges:
                            ctx.ok(key, f"discharged by the direct aggregate edge ({a}, {b}), rewritten onto per-object actions; {why}")
                            continue
                        if pa in reach.get(pb, ()):
                            ctx.violation(key, f"{direction} [{label}]: `{pb}` is ordered BEFORE `{pa}` (reversed); needed: {why}", f.loc)
                        else:
                            ctx.violation(key, f"{direction} [{label}]: nothing orders `{pa}` before `{pb}` when both objects are "
                                               f"members of a dependency cycle; needed: {why}", f.loc)


# ---------------------------------------------------------------------- execution order
_COPY = ("list", "tuple", "set", "frozenset", "sorted")


def _sub_is(node, name: str, idx: int) -> bool:
    return (isinstance(node, ast.Subscript) and isinstance(node.value, ast.Name) and node.value.id == name
            and isinstance(node.slice, ast.Constant) and node.slice.value == idx)


def _tv(expr, val_of):
    """three-valued truth of a condition: True / False / None (unknown) given `val_of(atom expr)`"""
    if isinstance(expr, ast.UnaryOp) and isinstance(expr.op, ast.Not):
        v = _tv(expr.operand, val_of)
        return None if v is None else not v
    if isinstance(expr, ast.BoolOp):
        vals = [_tv(v, val_of) for v in expr.values]
        if isinstance(expr.op, ast.And):
            return False if any(v is False for v in vals) else (True if all(v is True for v in vals) else None)
        return True if any(v is True for v in vals) else (False if all(v is False for v in vals) else None)
    return val_of(expr)


class _Rewrite:
    """The loop of _generate_actions (helpers inlined) that rewrites a snapshot of self.dependencies: endpoints of
    the visited edge, removal / per-object replacement sites, and truth of the cycle-membership conditions."""

    def __init__(self, ctx, ga, g, pm, binds, loop, cyc_names, conv):
        self.ctx, self.ga, self.g, self.pm, self.binds = ctx, ga, g, pm, binds
        self.lp, self.cyc, self.conv = loop, cyc_names, conv
        self.ev = loop.target.id if isinstance(loop.target, ast.Name) else None
        self.ends: Dict[str, int] = {}
        t = loop.target
        if isinstance(t, ast.Tuple) and len(t.elts) == 2 and all(isinstance(e, ast.Name) for e in t.elts):
            self.ends = {t.elts[0].id: 0, t.elts[1].id: 1}
        if self.ev is not None:
            for st in ast.walk(loop):
                if isinstance(st, ast.Assign) and len(st.targets) == 1 and isinstance(st.value, ast.Name) and st.value.id == self.ev \
                        and isinstance(st.targets[0], ast.Tuple) and len(st.targets[0].elts) == 2 \
                        and all(isinstance(e, ast.Name) for e in st.targets[0].elts):
                    a, b = st.targets[0].elts
                    self.ends.update({a.id: 0, b.id: 1})
                elif isinstance(st, ast.Assign) and len(st.targets) == 1 and isinstance(st.targets[0], ast.Name) \
                        and (_sub_is(st.value, self.ev, 0) or _sub_is(st.value, self.ev, 1)):
                    self.ends[st.targets[0].id] = st.value.slice.value

    def is_deps(self, e) -> bool:
        return resolved_dotted(self.ga.node, e, self.binds) == "self.dependencies"

    def is_cyc(self, e) -> bool:
        return (dotted(e) or "") in self.cyc

    def end(self, e) -> Optional[int]:
        if self.ev is not None:
            for i in (0, 1):
                if _sub_is(e, self.ev, i):
                    return i
        if isinstance(e, ast.Name):
            return self.ends.get(e.id)
        return None

    def whole(self, e) -> bool:
        if isinstance(e, ast.Name) and e.id == self.ev:
            return True
        if isinstance(e, ast.Call) and call_name(e) in ("tuple", "set", "frozenset") and len(e.args) == 1:
            return self.whole(e.args[0])
        return isinstance(e, (ast.Tuple, ast.Set, ast.List)) and len(e.elts) == 2 and {self.end(x) for x in e.elts} == {0, 1} \
            and (isinstance(e, ast.Set) or self.end(e.elts[0]) == 0)

    def atom(self, e, A) -> Optional[bool]:
        """value of an atomic condition when endpoint i of the visited edge is a cycle member iff A[i]"""
        if isinstance(e, ast.Compare) and len(e.ops) == 1 and isinstance(e.ops[0], (ast.In, ast.NotIn)) and self.is_cyc(e.comparators[0]):
            i = self.end(e.left)
            if i is not None:
                return A[i] if isinstance(e.ops[0], ast.In) else not A[i]
        if isinstance(e, ast.Call) and isinstance(e.func, ast.Attribute) and len(e.args) == 1:
            if e.func.attr == "issuperset" and self.is_cyc(e.func.value) and self.whole(e.args[0]):
                return A[0] and A[1]
            if e.func.attr == "issubset" and self.is_cyc(e.args[0]) and self.whole(e.func.value):
                return A[0] and A[1]
        return None

    def edge_ok(self, A):
        from ..cfg import no_exc

        def ok(a, b, lab):
            if not no_exc(a, b, lab):
                return False
            n = self.g.nodes[a]
            if n.kind == "test" and lab in ("true", "false") and isinstance(n.stmt, (ast.If, ast.While)):
                v = _tv(expand_test(self.ctx, self.ga, n.stmt.test, self.binds), lambda e: self.atom(e, A))
                if v is not None and v != (lab == "true"):
                    return False
            return True
        return ok

    def head(self) -> int:
        return self.g.nodes_for(self.lp)[0]

    def starts(self) -> List[int]:
        return [b for b, lab in self.g.succ[self.head()] if lab == "true"]

    def remove_nodes(self) -> List[int]:
        out = []
        for c in calls_in(self.lp):
            if isinstance(c.func, ast.Attribute) and c.func.attr in ("remove", "discard") and self.is_deps(c.func.value) \
                    and len(c.args) == 1 and self.whole(c.args[0]):
                out.extend(self.g.nodes_containing(c))
        return sorted(set(out))

    def add_sites(self):
        """[(side i, CFG node ids)] of `deps.add((per_object, other_end))` for per_object in conv[end i]` (loop or
        comprehension handed to deps.update)"""
        out = []
        for c in calls_in(self.lp):
            if not (isinstance(c.func, ast.Attribute) and self.is_deps(c.func.value) and len(c.args) == 1):
                continue
            tup = src = var = None
            if c.func.attr == "add" and isinstance(c.args[0], ast.Tuple) and len(c.args[0].elts) == 2:
                tup = c.args[0]
                for anc in _ancestors(self.pm, c):
                    if anc is self.lp:
                        break
                    if isinstance(anc, ast.For) and isinstance(anc.target, ast.Name):
                        src, var = anc.iter, anc.target.id
                        break
            elif c.func.attr == "update" and isinstance(c.args[0], (ast.GeneratorExp, ast.ListComp, ast.SetComp)) \
                    and len(c.args[0].generators) == 1 and not c.args[0].generators[0].ifs \
                    and isinstance(c.args[0].elt, ast.Tuple) and len(c.args[0].elt.elts) == 2 \
                    and isinstance(c.args[0].generators[0].target, ast.Name):
                tup, src, var = c.args[0].elt, c.args[0].generators[0].iter, c.args[0].generators[0].target.id
            if tup is None or src is None:
                continue
            src = resolve_alias(self.ga.node, src, self.binds)
            if not (isinstance(src, ast.Subscript) and isinstance(src.value, ast.Name) and src.value.id == self.conv):
                continue
            i = self.end(src.slice)
            if i is None:
                continue
            if isinstance(tup.elts[i], ast.Name) and tup.elts[i].id == var and self.end(tup.elts[1 - i]) == 1 - i:
                out.append((i, self.g.nodes_containing(c)))
        return out


def _ancestors(pm, node):
    cur = pm.get(node)
    while cur is not None:
        yield cur
        cur = pm.get(cur)


def _feeds(fnode, expr, binds, depth=3):
    """expressions a value is computed from: the expression, what its local names are bound to, and the iterables
    of loops that fill a local collection (`acc = set(); for x in SRC: acc.add(x)`)"""
    out, frontier, seen = [expr], [expr], set()
    for _ in range(depth):
        nxt = []
        for e in frontier:
            for x in ast.walk(e):
                if isinstance(x, ast.Name) and x.id not in seen:
                    seen.add(x.id)
                    nxt.extend(v for v, st in binds.get(x.id, []) if v is not None)
                    for lp in walk_local(fnode):
                        if isinstance(lp, ast.For) and any(
                                isinstance(c.func, ast.Attribute) and c.func.attr in ("add", "append", "update", "extend")
                                and isinstance(c.func.value, ast.Name) and c.func.value.id == x.id for c in calls_in(lp)):
                            nxt.append(lp.iter)
        out.extend(nxt)
        frontier = nxt
    return out


@R.rule("C31-R3", floor=8, template="T-FLOW",
        desc="UOWTransaction.execute runs exactly the actions returned by _generate_actions in the order given by "
             "topological.sort / sort_as_subsets over self.dependencies; _generate_actions detects cycles over the "
             "same edge set, converts exactly the cycle members to per-object actions and rewrites edges with one "
             "end in a cycle onto them")
def r3(ctx):
    ex0 = ctx.func(f"{UOW}::UOWTransaction.execute")
    ga0 = ctx.func(f"{UOW}::UOWTransaction._generate_actions")
    # extract-method normalisation: private helpers of the class called at statement level are read in place
    ex = inline_helpers(ctx, ex0, skip=("_generate_actions",))
    ga = inline_helpers(ctx, ga0)
    exb, gab = bindings(ex.node), bindings(ga.node)
    # (a) actions flow from _generate_actions to the sort call
    derived: Set[str] = set()
    for n, v, st in sorted(name_stores(ex.node), key=lambda t: (t[2].lineno, t[2].col_offset)):
        if v is None:
            continue
        if isinstance(v, ast.Call) and (call_name(v) or "").rsplit(".", 1)[-1] == "_generate_actions":
            derived.add(n)
        elif isinstance(v, ast.Call) and (call_name(v) or "") in _COPY and v.args and isinstance(v.args[0], ast.Name) and v.args[0].id in derived:
            derived.add(n)
        elif isinstance(v, ast.Name) and v.id in derived:
            derived.add(n)
    ctx.require(derived, "execute() does not bind the result of self._generate_actions()")

    def _topo(c):
        nm = call_name(c) or ""
        short = nm.rsplit(".", 1)[-1]
        if short not in ("sort", "sort_as_subsets"):
            return None
        if nm.startswith("topological."):
            return short
        r = ctx.index.resolve(ex.module, nm) if "()" not in nm else None
        return short if getattr(getattr(r, "module", None), "relpath", None) == "util/topological.py" else None

    sorts = [c for c in calls_in(ex.node) if _topo(c)]
    ctx.require(sorts, "execute() has no topological.sort / sort_as_subsets call")
    pm = parent_map(ex.node)
    for c in sorts:
        short = _topo(c)
        ok_args = (len(c.args) == 2 and not c.keywords and resolved_dotted(ex.node, c.args[0], exb) == "self.dependencies"
                   and isinstance(c.args[1], ast.Name) and c.args[1].id in derived)
        # the sort result is iterated by a for loop (directly, or through a local bound to it) whose body executes the element
        par = pm.get(c)
        loops = []
        if isinstance(par, ast.For) and par.iter is c:
            loops = [par]
        elif isinstance(par, ast.Assign) and par.value is c and len(par.targets) == 1 and isinstance(par.targets[0], ast.Name) \
                and len(exb.get(par.targets[0].id, [])) == 1:
            loops = [n for n in walk_local(ex.node) if isinstance(n, ast.For) and isinstance(n.iter, ast.Name) and n.iter.id == par.targets[0].id]
        runs = bool(loops) and all(
            any((call_name(x) or "").rsplit(".", 1)[-1] in ("execute", "execute_aggregate") for x in calls_in(lp)) for lp in loops)
        ctx.check(ok_args and runs, f"{ex0.key}:{short}",
                  f"topological.{short} is not applied to (self.dependencies, actions from _generate_actions) and executed in iteration order",
                  f"for x in topological.{short}(self.dependencies, <generated actions>): x.execute*()", ex0.loc)
    # (b) the subset form is used exactly when there are cycles
    g = ctx.cfg(ex.node)
    want = {"sort_as_subsets": True, "sort": False}
    bad = []
    for c in sorts:
        short = _topo(c)
        for nid in g.nodes_containing(c):
            atoms = expanded_atoms(ctx, ex, g.edge_guards(nid), exb)
            if not any(pol == want[short] and a.replace(" ", "") in ("self.cycles", "len(self.cycles)", "len(self.cycles)>0", "bool(self.cycles)")
                       for a, pol in atoms):
                bad.append(f"{short} guarded by {atoms}")
    ctx.check(not bad and {_topo(c) for c in sorts} == set(want), f"{ex0.key}:cycles-guard",
              f"choice between sort and sort_as_subsets is not made on self.cycles: {bad}",
              "sort_as_subsets iff self.cycles", ex0.loc)
    # (c) cycles computed over the same edge set and stored
    fc = calls_named(ga.node, "find_cycles")
    ctx.require(len(fc) == 1, "_generate_actions does not call topological.find_cycles once")
    fcall = fc[0]
    arg_ok = (len(fcall.args) == 2 and resolved_dotted(ga.node, fcall.args[0], gab) == "self.dependencies"
              and any("self.postsort_actions" in unparse(e) for e in _feeds(ga.node, fcall.args[1], gab)))
    cyc_names: Set[str] = set()
    changed = True
    while changed:
        changed = False
        for st in walk_stmts(ga.node.body):
            if isinstance(st, ast.Assign) and (st.value is fcall or (dotted(st.value) or "") in cyc_names):
                for t in st.targets:
                    d = dotted(t)
                    if d and d not in cyc_names:
                        cyc_names.add(d)
                        changed = True
    stored = "self.cycles" in cyc_names
    # names that may be rebound to something else are not reliable names of the cycle set
    cyc_names = {n for n in cyc_names if "." in n or len(gab.get(n, [])) == 1}
    ctx.check(arg_ok and bool(stored), f"{ga0.key}:find-cycles",
              "cycles are not computed by find_cycles(self.dependencies, postsort actions) and stored on self.cycles",
              "self.cycles = find_cycles(self.dependencies, postsort actions)", ga0.loc)
    cyc_names |= {"self.cycles"}
    # (d) conversion: per_state_flush_actions for exactly the members of cycles (dict comprehension, or a loop
    # filling a dict: `for rec in cycles: convert[rec] = set(rec.per_state_flush_actions(self))`)
    conv = None
    for n, v, st in name_stores(ga.node):
        if isinstance(v, ast.DictComp) and calls_named(v.value, "per_state_flush_actions") and len(v.generators) == 1:
            gen = v.generators[0]
            if (dotted(gen.iter) or "") in cyc_names and not gen.ifs and unparse(v.key) == unparse(gen.target) \
                    and any(unparse(c.func.value) == unparse(gen.target) for c in calls_named(v.value, "per_state_flush_actions")):
                conv = n
    g_ga = ctx.cfg(ga.node)
    for lp_ in walk_local(ga.node):
        if not (isinstance(lp_, ast.For) and isinstance(lp_.target, ast.Name) and (dotted(lp_.iter) or "") in cyc_names):
            continue
        for st in lp_.body:   # directly in the body: performed for every member
            if isinstance(st, ast.Assign) and len(st.targets) == 1 and isinstance(st.targets[0], ast.Subscript) \
                    and isinstance(st.targets[0].value, ast.Name) and unparse(st.targets[0].slice) == lp_.target.id \
                    and any(unparse(c.func.value) == lp_.target.id for c in calls_named(st.value, "per_state_flush_actions")):
                head_ = g_ga.nodes_for(lp_)[0]
                body_start = [b for b, lab in g_ga.succ[head_] if lab == "true"]
                from ..cfg import no_exc
                if set(g_ga.nodes_for(st)) & set(body_start) or g_ga.must_pass(body_start, [head_], g_ga.nodes_for(st), edge_ok=no_exc) is None:
                    conv = st.targets[0].value.id
    ctx.check(conv is not None, f"{ga0.key}:convert",
              "per-object actions are not generated for exactly the members of `cycles`",
              "convert = {rec: per_state_flush_actions for rec in cycles}", ga0.loc)
    # (e) edge rewriting
    # the rewrite loop iterates a snapshot of self.dependencies: `for e in list(self.dependencies)` or a local
    # bound to such a snapshot; it is the loop that removes the visited element from self.dependencies
    def _is_deps(e):
        return resolved_dotted(ga.node, e, gab) == "self.dependencies"

    def _is_snapshot(e):
        if isinstance(e, ast.Call) and (call_name(e) or "") in _COPY and e.args and _is_deps(e.args[0]):
            return True
        return isinstance(e, ast.Call) and isinstance(e.func, ast.Attribute) and e.func.attr == "copy" and not e.args and _is_deps(e.func.value)

    def _snapshot_stmt(loop: ast.For):
        """statement that copies self.dependencies for this loop (the loop itself or the binding of its iterable)"""
        if _is_snapshot(loop.iter):
            return loop
        if isinstance(loop.iter, ast.Name):
            bs = gab.get(loop.iter.id, [])
            if len(bs) == 1 and bs[0][0] is not None and _is_snapshot(bs[0][0]):
                return bs[0][1]
        return None

    pm_ga = parent_map(ga.node)
    loops = []
    for n in walk_local(ga.node):
        if isinstance(n, ast.For) and _snapshot_stmt(n) is not None:
            rw = _Rewrite(ctx, ga, g_ga, pm_ga, gab, n, cyc_names, conv)
            if rw.remove_nodes():
                loops.append(rw)
    ctx.require(len(loops) == 1, f"_generate_actions has {len(loops)} loops that rewrite a snapshot of self.dependencies (expected 1)")
    rw = loops[0]
    lp = rw.lp
    snap = _snapshot_stmt(lp)
    # (e0) the snapshot is taken after the per-object actions were generated: per_state_flush_actions() itself
    # registers edges that point at aggregate actions of the cycle, they must be rewritten too
    conv_calls = calls_named(ga.node, "per_state_flush_actions")
    ctx.require(conv_calls, "_generate_actions does not call per_state_flush_actions")
    conv_nodes = sorted({i for c in conv_calls for i in g_ga.nodes_containing(c)})
    snap_nodes = list(g_ga.nodes_for(snap))
    ctx.require(conv_nodes and snap_nodes, "cannot locate the conversion / snapshot statements on the CFG of _generate_actions")
    registering = sorted(
        f.key.split("::")[1] for f in ctx.index.all_functions(ga.module)
        if f.name == "per_state_flush_actions" and any((call_name(c) or "").rsplit(".", 2)[-2:] in (["dependencies", "add"], ["dependencies", "update"]) for c in calls_in(f.node)))
    # a loop over the cycle members that performs the conversion counts as the conversion (its head dominates
    # what follows even though the CFG admits zero iterations)
    conv_dom = set(conv_nodes)
    for c in conv_calls:
        for anc in _ancestors(pm_ga, c):
            if isinstance(anc, ast.For) and (dotted(anc.iter) or "") in cyc_names:
                conv_dom.update(g_ga.nodes_for(anc))
    w_before = None
    for sn in snap_nodes:
        w_before = w_before or g_ga.always_preceded(sn, conv_dom)
    later = sorted((set(conv_nodes) & g_ga.reachable(snap_nodes)) - set(snap_nodes))
    if not registering:
        ctx.ok(f"{ga0.key}:rewrite-after-convert", "no per_state_flush_actions() registers dependency edges: order is immaterial")
    else:
        ctx.check(w_before is None and not later, f"{ga0.key}:rewrite-after-convert",
                  f"the edges to rewrite are read from self.dependencies (`{unparse(snap).splitlines()[0][:70]}`, line {snap.lineno}) "
                  f"{'before' if w_before is not None else 'while'} the per-object actions are generated: {', '.join(registering)} add edges "
                  "that point at aggregate actions of the cycle (e.g. per-object save -> aggregate delete); they are missing from "
                  "the snapshot, are never rewritten onto per-object actions and drop out of the topological sort (saves are no "
                  "longer ordered before the deletes of the same mapper in cycle mode)",
                  f"snapshot of self.dependencies (line {snap.lineno}) is dominated by the per_state_flush_actions() conversion; "
                  f"edges registered there by {', '.join(registering)} are rewritten",
                  ga0.loc, w_before)
    # the visited edge leaves self.dependencies whenever an end is a cycle member; with exactly one end in a cycle it
    # is replaced by edges from/to every per-object action of that end.  Decided on the CFG of one iteration with
    # the membership conditions fixed (shape of the if/elif chain, early `continue`, unpacked endpoints are immaterial)
    removes = rw.remove_nodes()
    head, starts = rw.head(), rw.starts()
    sites = rw.add_sites() if conv is not None else []
    found = {0: False, 1: False}
    stays = {}
    for A in ((True, False), (False, True), (True, True)):
        r = g_ga.reachable(starts, avoid=removes, edge_ok=rw.edge_ok(A))
        stays[A] = head in r or g_ga.exit in r   # an iteration can end without removing the edge
    for i in (0, 1):
        A = (i == 0, i == 1)
        others = [(False, False), (i != 0, i != 1)]
        for side, nodes in sites:
            if side != i:
                continue
            reach = bool(set(nodes) & g_ga.reachable(starts, edge_ok=rw.edge_ok(A)))
            leak = any(set(nodes) & g_ga.reachable(starts, edge_ok=rw.edge_ok(B)) for B in others)
            if reach and not leak and not stays[A]:
                found[i] = True
    removed_both = not stays[(True, True)]
    ctx.check(found[0] and found[1] and removed_both, f"{ga0.key}:edge-rewrite",
              f"edges with one end in a cycle are not replaced by edges to every per-object action "
              f"(source side: {found[0]}, target side: {found[1]}, both-in-cycle removed: {removed_both})",
              "edge[0] in cycles -> (dep, edge[1]) for dep in convert[edge[0]]; symmetric; intra-cycle edges removed", ga0.loc)
    # (f) returned action set excludes the converted aggregate actions
    rets = [r for r in walk_local(ga.node) if isinstance(r, ast.Return) and r.value is not None]

    def _minus_cycles(v):
        v = resolve_alias(ga.node, v, gab)
        left = None
        if isinstance(v, ast.Call) and isinstance(v.func, ast.Attribute) and v.func.attr == "difference" and len(v.args) == 1 \
                and (dotted(v.args[0]) or "") in cyc_names:
            left = v.func.value
        elif isinstance(v, ast.BinOp) and isinstance(v.op, ast.Sub) and (dotted(v.right) or "") in cyc_names:
            left = v.left
        elif isinstance(v, (ast.SetComp, ast.ListComp)) and len(v.generators) == 1:
            # {a for a in <actions> if not a.disabled and a not in cycles}
            tv = unparse(v.generators[0].target)
            atoms = [x for t in v.generators[0].ifs for x in test_atoms(t, True)]
            if any(pol is False and a.replace(" ", "") in {f"{tv}in{c}" for c in cyc_names} for a, pol in atoms):
                left = v.generators[0].iter
        return left is not None and any("self.postsort_actions" in unparse(e) for e in _feeds(ga.node, left, gab))

    ok_ret = bool(rets) and all(_minus_cycles(r.value) for r in rets)
    ctx.check(bool(ok_ret), f"{ga0.key}:returns", "returned actions are not `postsort actions minus cycles`",
              "returns enabled postsort actions minus cycle members", ga0.loc)


def _callers(ctx, modules, callee_short: str, callee_prefix=None):
    out = []
    for rel in modules:
        m = ctx.index.module(rel)
        if callee_short not in m.source:
            continue
        for f in ctx.index.all_functions(m):
            for c in calls_in(f.node):
                nm = call_name(c) or ""
                if nm == callee_short or nm.endswith("." + callee_short):
                    if callee_prefix is not None and not any(nm == p + callee_short for p in callee_prefix):
                        continue
                    out.append((f, c))
    return out


@R.rule("C31-R4", floor=4, template="T-OWN/T-PATH",
        desc="post-update UPDATE statements are emitted only by the ordered _PostUpdateAll action: "
             "persistence._post_update has that single caller, processors only register post updates, and "
             "the action filters states by its own isdelete flag")
def r4(ctx):
    orm_modules = [m.relpath for m in ctx.index.all_modules() if m.relpath.startswith("orm/")]
    # (1) callers of persistence._post_update
    pu = ctx.func(f"{PERS}::_post_update")
    callers = _callers(ctx, orm_modules, "_post_update", ("persistence.", "orm_persistence.", "util.preloaded.orm_persistence.", ""))
    callers = [(f, c) for f, c in callers if not (call_name(c) == "_post_update" and f.module.relpath != PERS)]
    owner_key = f"{UOW}::_PostUpdateAll.execute"

    def _owned(f, depth=0):
        """the owner itself, or a private helper of the owner's class all of whose callers are owned (T-OWN through
        the call graph: extracting part of _PostUpdateAll.execute into a method does not create a second emitter)"""
        if f.key == owner_key:
            return True
        if depth >= 2 or not f.name.startswith("_") or f.name.startswith("__") or f.cls is None or f.cls.name != "_PostUpdateAll":
            return False
        cs = _callers(ctx, orm_modules, f.name)
        return bool(cs) and all(_owned(cf, depth + 1) for cf, _ in cs)

    names = sorted({owner_key if _owned(f) else f.key for f, c in callers})
    ctx.check(names == [owner_key], f"{PERS}::_post_update:callers",
              f"persistence._post_update is called from {names}; expected only _PostUpdateAll.execute",
              "single caller _PostUpdateAll.execute", pu.loc)
    # (2) _emit_post_update_statements only from _post_update
    em = ctx.func(f"{PERS}::_emit_post_update_statements")
    callers = _callers(ctx, orm_modules, "_emit_post_update_statements")
    names = sorted({f.key for f, c in callers})
    ctx.check(names == [pu.key], f"{em.key}:callers", f"_emit_post_update_statements is called from {names}", "single caller _post_update", em.loc)
    # (3) the processors' _post_update only registers
    dp = ctx.func(f"{DEP}::_DependencyProcessor._post_update")
    reg = calls_named(dp.node, "register_post_update")
    emits = [call_name(c) for c in calls_in(dp.node) if "persistence" in (call_name(c) or "") or (call_name(c) or "").endswith(".execute")]
    overrides = [c.name for c in ctx.index.subclasses(ctx.index.cls(f"{DEP}::_DependencyProcessor")) if "_post_update" in c.methods and c.name != "_DependencyProcessor"]
    ctx.check(bool(reg) and not emits and not overrides, f"{dp.key}:registers-only",
              f"_DependencyProcessor._post_update emits directly ({emits}) / is overridden by {overrides} / does not register",
              "defers to uow.register_post_update", dp.loc)
    # (4) the action handles exactly the states whose delete flag equals its own
    ex = inline_helpers(ctx, ctx.func(f"{UOW}::_PostUpdateAll.execute"))
    filt = False
    exb4 = bindings(ex.node)
    g4 = ctx.cfg(ex.node)
    pm4 = parent_map(ex.node)
    # selections: comprehension `[s for s in X if c]` (guards = its ifs) or loop `for s in X: if c: out.append(s)`
    # / `if not c: continue` (guards = branch outcomes dominating the append)
    selections = []   # (element variable, [(test, polarity)])
    for n in walk_local(ex.node):
        if isinstance(n, (ast.ListComp, ast.GeneratorExp, ast.SetComp)):
            for gen in n.generators:
                if isinstance(gen.target, ast.Name):
                    selections.append((gen.target.id, [(t, True) for t in gen.ifs]))
        elif isinstance(n, ast.Call) and isinstance(n.func, ast.Attribute) and n.func.attr in ("append", "add") and len(n.args) == 1 \
                and isinstance(n.args[0], ast.Name):
            st_ = n
            while st_ is not None and not isinstance(st_, ast.stmt):
                st_ = pm4.get(st_)
            if any(isinstance(a, ast.For) and isinstance(a.target, ast.Name) and a.target.id == n.args[0].id for a in _ancestors(pm4, n)):
                selections.append((n.args[0].id, dominating_guards(g4, pm4, ex.node, n, st_)))
    for tv, guards in selections:
        for atext, pol in expanded_atoms(ctx, ex, guards, exb4):
            try:
                cond = ast.parse(atext, mode="eval").body
            except SyntaxError:
                continue
            if pol and isinstance(cond, ast.Compare) and len(cond.ops) == 1 and isinstance(cond.ops[0], (ast.Eq, ast.Is)):
                sides = {(resolved_dotted(ex.node, x, exb4) or unparse(resolve_alias(ex.node, x, exb4))).replace(" ", "")
                         for x in (cond.left, cond.comparators[0])}
                if sides == {f"uow.states[{tv}][0]", "self.isdelete"}:
                    filt = True
    passes = False
    for c in calls_named(ex.node, "_post_update"):
        passes = len(c.args) >= 2 and resolved_dotted(ex.node, c.args[0], exb4) == "self.mapper"
    ctx.check(filt and passes, f"{ex.key}:filters-by-isdelete",
              "_PostUpdateAll.execute does not restrict the states to those whose delete flag equals self.isdelete",
              "states filtered on uow.states[s][0] == self.isdelete", ex.loc)


# ---------------------------------------------------------------------- C31-R5 (who honours a cancelled action)
EMITTERS = {"_delete_obj": "delete", "_save_obj": "save"}
FLAG_NAMES = {0: "isdelete", 1: "listonly"}


def _states_subscripts(nodes, pm):
    """components of the `<uow>.states[<state>]` tuple read by the given AST nodes: {0}, {1} or {0, 1}"""
    comps: Set[int] = set()
    for root in nodes:
        for n in ast.walk(root):
            if isinstance(n, ast.Subscript) and (dotted(n.value) or "").rsplit(".", 1)[-1] == "states" and isinstance(n.ctx, ast.Load):
                par = pm.get(n)
                if isinstance(par, ast.Subscript) and par.value is n and isinstance(par.slice, ast.Constant) and par.slice.value in (0, 1):
                    comps.add(par.slice.value)
                else:
                    comps |= {0, 1}
    return comps


def _slice_of(fnode, expr, depth=3):
    """`expr` plus the values bound to the local names it uses (transitively): where the states passed on come from"""
    binds: Dict[str, List[ast.AST]] = {}
    for n, v, st in name_stores(fnode):
        if v is not None:
            binds.setdefault(n, []).append(v)
    out, seen, frontier = [expr], set(), [expr]
    for _ in range(depth):
        nxt = []
        for e in frontier:
            for x in ast.walk(e):
                if isinstance(x, ast.Name) and x.id in binds and x.id not in seen:
                    seen.add(x.id)
                    nxt.extend(binds[x.id])
        out.extend(nxt)
        frontier = nxt
    return out


@R.rule("C31-R5", floor=6, template="T-SIBLING/T-FLOW",
        desc="an action cancelled during the flush stays cancelled: remove_state_actions() (row switch detected "
             "while saving) flips only one component of uow.states[state]; every action that hands states to "
             "persistence._delete_obj/_save_obj selects them, at execution time, on all components that can "
             "change under it - the aggregate and the per-object (cycle) form of an action agree")
def r5(ctx):
    ix = ctx.index
    uowcls = ix.cls(f"{UOW}::UOWTransaction")
    pm = ix.module(UOW).parents()
    # (1) the writer: which component(s) of uow.states[state] does cancelling an action change?
    rsa = ctx.method(uowcls.key, "remove_state_actions")
    ctx.functions_analysed.add(rsa.key)
    from ..astutil import subscript_stores, lexical_guards, guard_atoms
    stores = [(sub_, st) for d, sub_, st in subscript_stores(rsa.node) if d.rsplit(".", 1)[-1] == "states" and isinstance(st, ast.Assign)]
    ctx.require(len(stores) == 1 and isinstance(stores[0][1].value, ast.Tuple) and len(stores[0][1].value.elts) == 2,
                "remove_state_actions no longer assigns a 2-tuple to self.states[state] (unknown idiom)")
    tup = stores[0][1].value
    changed: Set[int] = set()
    for i, e in enumerate(tup.elts):
        srcs = _slice_of(rsa.node, e)
        if _states_subscripts(srcs, pm) == {i} and not isinstance(e, ast.Constant):
            continue  # component i is written back unchanged
        changed.add(i)
    ctx.require(changed, "remove_state_actions writes uow.states[state] back unchanged")
    ctx.ok(f"{rsa.key}:changes[{','.join(FLAG_NAMES[i] for i in sorted(changed))}]",
           f"writes ({', '.join(unparse(e) for e in tup.elts)}); unchanged: {[FLAG_NAMES[i] for i in (0, 1) if i not in changed]}", nontrivial=False)
    # which kind of action can be cancelled: every call site is guarded by `is_deleted(<that state>)`
    sites = _callers(ctx, [m.relpath for m in ix.all_modules() if m.relpath.startswith("orm/")], "remove_state_actions")
    ctx.require(sites, "remove_state_actions is never called")
    only_deleted = True
    for f, c in sites:
        ctx.functions_analysed.add(f.key)
        atoms = guard_atoms(lexical_guards(f.module.parents(), c, stop=f.node))
        arg = unparse(c.args[0]) if c.args else "?"
        if not any(pol and a.endswith(f".is_deleted({arg})") for a, pol in atoms):
            only_deleted = False
    affected = {"delete"} if only_deleted else {"delete", "save"}
    # (2) the shared selector compares the whole tuple
    sfm = ctx.method(uowcls.key, "states_for_mapper_hierarchy")
    ctx.functions_analysed.add(sfm.key)
    flag_params = sfm.params[2:4]
    whole = False
    for n in walk_local(sfm.node):
        if isinstance(n, ast.Compare) and len(n.ops) == 1 and isinstance(n.ops[0], ast.Eq):
            sides = [n.left, n.comparators[0]]
            if any(_states_subscripts([x], pm) == {0, 1} and isinstance(x, ast.Subscript) for x in sides):
                other = [x for x in sides if not (isinstance(x, ast.Subscript) and _states_subscripts([x], pm))]
                for o in other:
                    vals = _slice_of(sfm.node, o)
                    if any(isinstance(v, ast.Tuple) and [unparse(e) for e in v.elts] == flag_params for v in vals):
                        whole = True
    ctx.check(whole, f"{sfm.key}:selects-on-both-flags",
              "states_for_mapper_hierarchy no longer selects states with uow.states[state] == (isdelete, listonly)",
              "self.states[state] == (isdelete, listonly)", sfm.loc)
    # (3) every emitter
    n_emit = 0
    for f in sorted(ix.all_functions(ix.module(UOW)), key=lambda x: x.node.lineno):
        for c in calls_in(f.node):
            short = (call_name(c) or "").rsplit(".", 1)[-1]
            if short not in EMITTERS or f.cls is None:
                continue
            kind = EMITTERS[short]
            ctx.functions_analysed.add(f.key)
            ctx.require(len(c.args) >= 2, f"{f.key}: {short}() without a states argument")
            n_emit += 1
            key = f"{f.key}:{short}:states-selected-on[{'+'.join(FLAG_NAMES[i] for i in sorted(changed))}]"
            sl = _slice_of(f.node, c.args[1])
            problems = []
            reads: Set[int] = set()
            for e in sl:
                for sc in calls_in(e):
                    if (call_name(sc) or "").rsplit(".", 1)[-1] == sfm.name and len(sc.args) == 3 and whole:
                        reads |= {0, 1}
                        want = (kind == "delete", False)
                        got = tuple(a.value if isinstance(a, ast.Constant) else None for a in sc.args[1:3])
                        if None not in got and got != want:
                            problems.append(f"selects states with (isdelete, listonly) == {got}, a {kind} action must take {want}")
            reads |= _states_subscripts(sl, pm)
            if kind not in affected:
                ctx.ok(key, f"{kind} actions are never cancelled (remove_state_actions is only called for states with is_deleted()); reads {sorted(FLAG_NAMES[i] for i in reads)}")
                if problems:
                    ctx.violation(key + ":flags", "; ".join(problems), f.loc)
                continue
            missing = sorted(changed - reads)
            if missing:
                problems.append(
                    f"{f.qualname} hands states to persistence.{short} selecting them "
                    + (f"only on {[FLAG_NAMES[i] for i in sorted(reads)]} of uow.states[s]" if reads else "without consulting uow.states")
                    + f", but a pending {kind} is cancelled by remove_state_actions() (row switch detected by the save that runs "
                      f"before it) through {[FLAG_NAMES[i] for i in missing]}, which it never reads: the cancelled {kind} is still "
                      f"emitted (the row just UPDATEd in place of the deleted object is DELETEd / the DELETE violates a foreign key "
                      f"of rows that now reference the replacement); the sibling aggregate action selects on both flags")
            ctx.check(not problems, key, "; ".join(problems), f"selected at execution time on {sorted(FLAG_NAMES[i] for i in reads)}", f.loc)
    ctx.require(n_emit >= 4, f"only {n_emit} callers of persistence._save_obj/_delete_obj in unitofwork.py")


# ---------------------------------------------------------------------- C31-R6 (the edges are registered at all)
def _attr_calls(node, attr: str) -> List[ast.Call]:
    return [c for c in calls_in(node) if isinstance(c.func, ast.Attribute) and c.func.attr == attr]


@R.rule("C31-R6", floor=3, template="T-GUARD/T-PATH",
        desc="the ordering edges and ProcessAll actions of a relationship (per_property_flush_actions) are registered on the "
             "first presort pass whose batch of states has changes on it, whichever pass that is: _Preprocess.execute, "
             "evaluated with its set-up latch unset, reaches per_property_flush_actions() whenever prop_has_changes() holds "
             "for the deleted (isdelete=True) or for the saved (isdelete=False) states of the batch, and the latch that "
             "suppresses the test on later passes (states added by cascades arrive in later passes) is only set on a pass "
             "that performs the set-up")
def r6(ctx):
    from ..cfg import no_exc
    f = inline_helpers(ctx, ctx.func(f"{UOW}::_Preprocess.execute"))   # set-up extracted into a private method is read in place
    g = ctx.cfg(f.node)
    pm = parent_map(f.node)
    b = bindings(f.node)
    base = ctx.func(f"{DEP}::_DependencyProcessor.prop_has_changes")
    ctx.require(len(base.params) == 4, "prop_has_changes(self, uow, states, isdelete) changed its signature")
    p_states, p_flag = base.params[2], base.params[3]
    setup_calls = _attr_calls(f.node, "per_property_flush_actions")
    ctx.require(setup_calls, "_Preprocess.execute never calls per_property_flush_actions()")
    setup_nodes = sorted({n for c in setup_calls for n in g.nodes_containing(c)})
    # the two batches, named by what the processor is told about them
    batch: Dict[str, str] = {}
    for kind, meth in (("delete", "presort_deletes"), ("save", "presort_saves")):
        cs = _attr_calls(f.node, meth)
        ctx.require(len(cs) == 1 and len(cs[0].args) == 2 and isinstance(cs[0].args[1], ast.Name),
                    f"_Preprocess.execute does not hand one local set of states to {meth}()")
        batch[kind] = cs[0].args[1].id
    ctx.require(batch["delete"] != batch["save"], "presort_deletes and presort_saves receive the same set")
    b = {k: v for k, v in b.items() if k not in batch.values()}   # the batches are objects filled in place, not aliases of `set()`

    def which_batch(e) -> Optional[str]:
        e = resolve_alias(f.node, e, b)
        if isinstance(e, ast.Name):
            for kind, nm in batch.items():
                if e.id == nm:
                    return kind
        return None

    # latch: attributes of self that the function itself stores and that are read by a branch outcome dominating the set-up
    stored = {}
    for n in g.nodes:
        st = n.stmt
        if n.kind == "stmt" and isinstance(st, ast.Assign):
            for t in st.targets:
                if isinstance(t, ast.Attribute) and dotted(t.value) == "self":
                    stored.setdefault(t.attr, []).append((n.id, st))
    latches = set()
    for c in setup_calls:
        st = c
        while st is not None and not isinstance(st, ast.stmt):
            st = pm.get(st)
        for t, pol in dominating_guards(g, pm, f.node, c, st):
            for x in ast.walk(expand_test(ctx, f, t, b)):
                if isinstance(x, ast.Attribute) and dotted(x.value) == "self" and x.attr in stored:
                    latches.add(x.attr)

    def val_of(e, A):
        if isinstance(e, ast.Attribute) and dotted(e.value) == "self" and e.attr in latches:
            return False   # not yet set up
        if isinstance(e, ast.Call) and isinstance(e.func, ast.Attribute) and e.func.attr == "prop_has_changes":
            m = bind_args(e, base)
            if m is None or p_states not in m or p_flag not in m:
                return None
            kind = which_batch(m[p_states])
            flag = resolve_alias(f.node, m[p_flag], b)
            if kind is not None and isinstance(flag, ast.Constant) and flag.value is (kind == "delete"):
                return A.get(kind)
            return None
        kind = which_batch(e) if isinstance(e, ast.Name) else None
        if kind is not None:
            return True if A.get(kind) else None   # a batch with changes is not empty
        return None

    def edge_ok(A):
        def ok(a, b_, lab):
            if not no_exc(a, b_, lab):
                return False
            n = g.nodes[a]
            if n.kind == "test" and lab in ("true", "false") and isinstance(n.stmt, (ast.If, ast.While)):
                v = _tv(expand_test(ctx, f, n.stmt.test, b), lambda e: val_of(e, A))
                if v is not None and v != (lab == "true"):
                    return False
            return True
        return ok

    for kind in ("delete", "save"):
        flag = kind == "delete"
        w = g.must_pass([g.entry], [g.exit], setup_nodes, edge_ok=edge_ok({kind: True}))
        ctx.check(w is None, f"{f.key}:set-up-when-changes[{kind}]",
                  f"a presort pass in which prop_has_changes(uow, <{kind} batch `{batch[kind]}`>, {flag}) holds and the flush actions "
                  f"were not set up before can end without per_property_flush_actions(): the relationship's ProcessAll actions and "
                  f"its ordering edges between the two mappers are never registered, so the {kind}s of this flush are emitted "
                  f"without the foreign-key synchronisation / in an order the constraint rejects",
                  f"prop_has_changes(.., {batch[kind]}, {flag}) and latch unset -> per_property_flush_actions() on every path", f.loc, w)
    if not latches:
        ctx.ok(f"{f.key}:set-up-latch", "no latch: the set-up (idempotent) is repeated on every pass that has changes", nontrivial=False)
    for L in sorted(latches):
        bad = None
        n_sets = 0
        for nid, st in stored[L]:
            v = resolve_alias(f.node, st.value, b)
            ctx.require(isinstance(v, ast.Constant), f"_Preprocess.execute stores a computed value `{unparse(st.value)}` into the latch self.{L}")
            if not v.value:
                continue
            n_sets += 1
            if g.always_preceded(nid, setup_nodes, edge_ok=no_exc) is None:
                continue
            w = g.must_pass([nid], [g.exit], setup_nodes, edge_ok=no_exc)
            if w is not None:
                bad = bad or w
        ctx.check(bad is None, f"{f.key}:set-up-latch[{L}]",
                  f"`self.{L}` -- the latch that switches the has-changes test off for all later presort passes -- can be set on a pass "
                  f"that does not call per_property_flush_actions(): when the first batch of states has no changes on the relationship, "
                  f"states that enter the flush on a later pass (flush-time cascades such as delete-orphan) never get the relationship's "
                  f"ProcessAll actions and ordering edges; their rows are written without the FK synchronisation / before the rows "
                  f"they depend on", f"{n_sets} store(s), each on a path that performs the set-up", f.loc, bad)


# ---------------------------------------------------------------------- self-test battery
O2M_PLAIN_OLD = "                    (child_deletes, parent_deletes),\n                    (before_delete, child_saves),\n"
R.mutant("o2m-reverse-child-deletes-parent-deletes", DEP,
         sub(O2M_PLAIN_OLD, "                    (parent_deletes, child_deletes),\n                    (before_delete, child_saves),\n"), "C31-R1")
R.mutant("o2m-drop-after-save-child-saves", DEP,
         sub("                    (after_save, child_saves),\n                    (after_save, child_deletes),\n", "                    (after_save, child_deletes),\n"), "C31-R1")
R.mutant("m2o-swap-orientation", DEP,
         sub("                    (child_saves, after_save),\n                    (after_save, parent_saves),\n", "                    (parent_saves, after_save),\n                    (after_save, child_saves),\n"), "C31-R1")
R.mutant("m2m-drop-child-saves-before-association", DEP,
         sub("                (parent_saves, after_save),\n                (child_saves, after_save),\n                (after_save, child_deletes),\n",
             "                (parent_saves, after_save),\n                (after_save, child_deletes),\n"), "C31-R1")
R.mutant("o2m-postupdate-pre-after-delete", DEP,
         sub("                    (child_pre_updates, parent_deletes),\n", "                    (parent_deletes, child_pre_updates),\n"), "C31-R1")
R.mutant("o2m-perstate-drop-child-before-parent-delete", DEP,
         sub("                [(before_delete, child_action), (child_action, delete_parent)]\n", "                [(before_delete, child_action)]\n"), "C31-R2")
R.mutant("m2o-perstate-reverse-save-order", DEP,
         sub("                    [(child_action, after_save), (after_save, save_parent)]\n", "                    [(save_parent, after_save), (after_save, child_action)]\n"), "C31-R2")
R.mutant("m2m-perstate-swap-childisdelete", DEP,
         sub("        if not isdelete:\n            if childisdelete:\n                uow.dependencies.update(\n                    [(save_parent, after_save), (after_save, child_action)]",
             "        if not isdelete:\n            if not childisdelete:\n                uow.dependencies.update(\n                    [(save_parent, after_save), (after_save, child_action)]"), "C31-R2")
R.mutant("perstate-childaction-flag-swapped", DEP,
         sub("            child_actions = [(child_saves, False), (child_deletes, True)]", "            child_actions = [(child_saves, True), (child_deletes, False)]"), "C31-R2")
R.mutant("execute-sorts-other-edge-set", UOW,
         sub("            for rec in topological.sort(self.dependencies, postsort_actions):", "            for rec in topological.sort(set(), postsort_actions):"), "C31-R3")
R.mutant("execute-subsets-when-no-cycles", UOW,
         sub("        # execute\n        if self.cycles:", "        # execute\n        if not self.cycles:"), "C31-R3")
R.mutant("rewrite-drops-target-side", UOW,
         sub("                    for dep in convert[edge[1]]:\n                        self.dependencies.add((edge[0], dep))\n", "                    pass\n"), "C31-R3")
R.mutant("rewrite-wrong-endpoint", UOW,
         sub("                        self.dependencies.add((dep, edge[1]))", "                        self.dependencies.add((dep, edge[0]))"), "C31-R3")
R.mutant("processor-emits-post-update-directly", DEP,
         sub("                uowcommit.register_post_update(\n                    state, [r for l, r in self.prop.synchronize_pairs]\n                )",
             "                persistence._post_update(\n                    state.mapper, [state], uowcommit, [r for l, r in self.prop.synchronize_pairs]\n                )"), "C31-R4")
R.mutant("postupdate-action-ignores-isdelete", UOW,
         sub("        states = [s for s in states if uow.states[s][0] == self.isdelete]\n", "        states = [s for s in states]\n"), "C31-R4")
R.mutant("postupdate-called-from-save", PERS,
         sub("def _delete_obj(base_mapper, states, uowtransaction):\n", "def _delete_obj(base_mapper, states, uowtransaction):\n    _post_update(base_mapper, states, uowtransaction, [])\n"), "C31-R4")
# benign refactors
R.mutant("benign-reorder-edges-and-log", DEP,
         sub("            uow.dependencies.update(\n                [\n                    (parent_saves, after_save),\n                    (after_save, child_saves),\n                    (after_save, child_deletes),\n                    (child_saves, parent_deletes),\n                    (child_deletes, parent_deletes),\n                    (before_delete, child_saves),\n                    (before_delete, child_deletes),\n                ]\n            )",
             "            _n = len(uow.deps)\n            uow.dependencies.update(\n                [\n                    (after_save, child_deletes),\n                    (parent_saves, after_save),\n                    (after_save, child_saves),\n                    (child_deletes, parent_deletes),\n                    (child_saves, parent_deletes),\n                    (before_delete, child_deletes),\n                    (before_delete, child_saves),\n                ]\n            )"), None)
R.mutant("benign-extra-edge", DEP,
         sub("                (parent_saves, after_save),\n                (child_saves, after_save),\n                (after_save, child_deletes),\n",
             "                (parent_saves, after_save),\n                (child_saves, after_save),\n                (after_save, child_deletes),\n                (after_save, parent_deletes),\n"), None)
R.mutant("benign-execute-rename-local", UOW,
         sub("            for rec in topological.sort(self.dependencies, postsort_actions):\n                rec.execute(self)", "            for action in topological.sort(self.dependencies, postsort_actions):\n                action.execute(self)"), None)
# --- seeds (str-m) and their neighbourhood
_O2M_DEL = "            uow.dependencies.update(\n                [(before_delete, child_action), (child_action, delete_parent)]\n            )\n"
R.mutant("seed1-o2m-perstate-child-before-parent-delete-only-if-child-deleted", DEP,
         sub(_O2M_DEL, "            uow.dependencies.add((before_delete, child_action))\n            if childisdelete:\n                uow.dependencies.add((child_action, delete_parent))\n"), "C31-R2")
R.mutant("benign-o2m-perstate-edges-added-one-by-one", DEP,
         sub(_O2M_DEL, "            uow.dependencies.add((before_delete, child_action))\n            uow.dependencies.add((child_action, delete_parent))\n"), None)
_CONV = "            convert = {\n                rec: set(rec.per_state_flush_actions(self)) for rec in cycles\n            }\n"
_LOOP = "            for edge in list(self.dependencies):\n"
R.mutant("seed2-rewrite-snapshot-taken-before-conversion", UOW,
         chain(sub(_CONV, "            existing_dependencies = list(self.dependencies)\n\n" + _CONV), sub(_LOOP, "            for edge in existing_dependencies:\n")), "C31-R3")
R.mutant("rewrite-snapshot-taken-before-cycle-test", UOW,
         chain(sub("        if cycles:\n            # if yes, break", "        pending = tuple(self.dependencies)\n        if cycles:\n            # if yes, break"),
               sub(_LOOP, "            for edge in pending:\n")), "C31-R3")
R.mutant("benign-rewrite-snapshot-bound-after-conversion", UOW,
         sub(_LOOP, "            edges_to_rewrite = list(self.dependencies)\n            for edge in edges_to_rewrite:\n"), None)
R.mutant("delete-all-executes-cancelled-deletes", UOW,
         sub("            uow.states_for_mapper_hierarchy(self.mapper, True, False),\n            uow,\n", "            uow.states_for_mapper_hierarchy(self.mapper, True, True),\n            uow,\n"), "C31-R5")
R.mutant("state-selector-ignores-listonly", UOW,
         sub("                if self.states[state] == checktup:\n", "                if self.states[state][0] == isdelete:\n"), "C31-R5")
R.mutant("delete-all-selects-on-isdelete-only", UOW,
         sub("            uow.states_for_mapper_hierarchy(self.mapper, True, False),\n            uow,\n", "            [s for s in uow.mappers[self.mapper] if uow.states[s][0]],\n            uow,\n"), "C31-R5")
R.mutant("benign-delete-all-states-bound-to-local", UOW,
         sub("        util.preloaded.orm_persistence._delete_obj(\n            self.mapper,\n            uow.states_for_mapper_hierarchy(self.mapper, True, False),\n            uow,\n        )",
             "        doomed = uow.states_for_mapper_hierarchy(self.mapper, True, False)\n        util.preloaded.orm_persistence._delete_obj(\n            self.mapper,\n            doomed,\n            uow,\n        )"), None)
R.mutant("benign-remove-state-actions-rename-local", UOW,
         sub("        isdelete = self.states[state][0]\n\n        self.states[state] = (isdelete, True)\n", "        was_delete = self.states[state][0]\n\n        self.states[state] = (was_delete, True)\n"), None)

# ------------------------------------------------------------------ rob-B1: refactoring families (each benign shape has
# a breaking twin in the same shape, so the normalisation cannot hide a defect)
from ._helpers_rob_b1 import ast_edit, t_alias, t_extract_else, t_guard_clause, t_guard_clause_no_return, t_invert_ifs  # noqa: E402

# R1/R2 (interpreter): inverted branches, guard clause + return, alias of the edge set / of a constructor
# argument / of the edge list, branch moved into a helper method
R.mutant("benign-o2m-aggregate-inverted-and-aliased", DEP,
         ast_edit("_OneToManyDP.per_property_dependencies", t_invert_ifs, t_alias("self.mapper.primary_base_mapper", "child_base_mapper")), None)
R.mutant("o2m-aggregate-inverted-edge-reversed", DEP,
         chain(sub(O2M_PLAIN_OLD, "                    (parent_deletes, child_deletes),\n                    (before_delete, child_saves),\n"),
               ast_edit("_OneToManyDP.per_property_dependencies", t_invert_ifs, t_alias("self.mapper.primary_base_mapper", "child_base_mapper"))), "C31-R1")
R.mutant("benign-m2o-perstate-all-branches-inverted", DEP, ast_edit("_ManyToOneDP.per_state_dependencies", t_invert_ifs), None)
R.mutant("m2o-perstate-inverted-save-order-reversed", DEP,
         chain(sub("                    [(child_action, after_save), (after_save, save_parent)]\n", "                    [(save_parent, after_save), (after_save, child_action)]\n"),
               ast_edit("_ManyToOneDP.per_state_dependencies", t_invert_ifs)), "C31-R2")
R.mutant("benign-m2o-aggregate-guard-clause", DEP, ast_edit("_ManyToOneDP.per_property_dependencies", t_guard_clause), None)
R.mutant("m2o-aggregate-guard-clause-falls-through", DEP, ast_edit("_ManyToOneDP.per_property_dependencies", t_guard_clause_no_return), "C31-R1")
R.mutant("benign-m2m-edge-set-aliased", DEP, ast_edit("_ManyToManyDP.per_property_dependencies", t_alias("uow.dependencies", "deps")), None)
R.mutant("m2m-edge-set-aliased-edge-dropped", DEP,
         chain(sub("                (parent_saves, after_save),\n                (child_saves, after_save),\n                (after_save, child_deletes),\n",
                   "                (parent_saves, after_save),\n                (after_save, child_deletes),\n"),
               ast_edit("_ManyToManyDP.per_property_dependencies", t_alias("uow.dependencies", "deps"))), "C31-R1")
R.mutant("benign-o2m-plain-branch-in-helper-method", DEP, ast_edit("_OneToManyDP.per_property_dependencies", t_extract_else("_plain_dependencies")), None)
R.mutant("o2m-plain-branch-in-helper-method-edge-reversed", DEP,
         ast_edit("_OneToManyDP.per_property_dependencies", t_extract_else("_plain_dependencies", reverse_first_pair=True)), "C31-R1")
R.mutant("benign-o2m-perstate-edge-list-in-local", DEP,
         sub(_O2M_DEL, "            ordering = [(before_delete, child_action), (child_action, delete_parent)]\n            uow.dependencies.update(ordering)\n"), None)
R.mutant("benign-m2o-post-update-flag-in-local", DEP,
         ast_edit("_ManyToOneDP.per_property_dependencies", t_alias("self.post_update", "uses_post_update")), None)

# R3: cycle handling extracted into a method (edge set aliased, endpoints unpacked), conversion by loop,
# guard clauses with `continue`, returned set spelled with `-`, execute() with locals and inverted choice
_REWRITE_OLD = (
    "            for edge in list(self.dependencies):\n"
    "                if (\n"
    "                    None in edge\n"
    "                    or edge[0].disabled\n"
    "                    or edge[1].disabled\n"
    "                    or cycles.issuperset(edge)\n"
    "                ):\n"
    "                    self.dependencies.remove(edge)\n"
    "                elif edge[0] in cycles:\n"
    "                    self.dependencies.remove(edge)\n"
    "                    for dep in convert[edge[0]]:\n"
    "                        self.dependencies.add((dep, edge[1]))\n"
    "                elif edge[1] in cycles:\n"
    "                    self.dependencies.remove(edge)\n"
    "                    for dep in convert[edge[1]]:\n"
    "                        self.dependencies.add((edge[0], dep))\n"
)
_HELPER_AT = "    def execute(self) -> None:\n        postsort_actions = self._generate_actions()\n"


def _extracted(add_source="(per_state, after)", add_target="(before, per_state)", first_test="before in cycles"):
    helper = (
        "    def _break_cycles(self, cycles):\n"
        "        convert = {\n            rec: set(rec.per_state_flush_actions(self)) for rec in cycles\n        }\n"
        "        dependencies = self.dependencies\n"
        "        for edge in list(dependencies):\n"
        "            before, after = edge\n"
        "            if (\n                None in edge\n                or before.disabled\n                or after.disabled\n"
        "                or cycles.issuperset(edge)\n            ):\n"
        "                dependencies.remove(edge)\n"
        f"            elif {first_test}:\n"
        "                dependencies.remove(edge)\n"
        "                for per_state in convert[before]:\n"
        f"                    dependencies.add({add_source})\n"
        "            elif after in cycles:\n"
        "                dependencies.remove(edge)\n"
        "                for per_state in convert[after]:\n"
        f"                    dependencies.add({add_target})\n\n"
    )
    return chain(sub(_CONV + "\n            # rewrite the existing dependencies to point to\n            # the per-state actions for those per-mapper actions\n"
                             "            # that were broken up.\n" + _REWRITE_OLD, "            self._break_cycles(cycles)\n"),
                 sub(_HELPER_AT, helper + _HELPER_AT))


R.mutant("benign-cycle-handling-extracted-method", UOW, _extracted(), None)
R.mutant("cycle-handling-extracted-wrong-endpoint", UOW, _extracted(add_source="(per_state, before)"), "C31-R3")
R.mutant("cycle-handling-extracted-target-side-keeps-aggregate", UOW, _extracted(add_target="(before, after)"), "C31-R3")
R.mutant("cycle-handling-extracted-source-test-on-target", UOW, _extracted(first_test="after in cycles"), "C31-R3")
R.mutant("benign-conversion-by-loop", UOW,
         sub(_CONV, "            convert = {}\n            for rec in cycles:\n                convert[rec] = set(rec.per_state_flush_actions(self))\n"), None)
R.mutant("conversion-by-loop-skips-members", UOW,
         sub(_CONV, "            convert = {}\n            for rec in cycles:\n                if rec.disabled:\n                    continue\n"
                    "                convert[rec] = set(rec.per_state_flush_actions(self))\n"), "C31-R3")
_REWRITE_CONTINUE = (
    "            for edge in list(self.dependencies):\n"
    "                source, target = edge\n"
    "                if None in edge or source.disabled or target.disabled:\n"
    "                    self.dependencies.remove(edge)\n"
    "                    continue\n"
    "                if source not in cycles and target not in cycles:\n"
    "                    continue\n"
    "                self.dependencies.remove(edge)\n"
    "                if target not in cycles:\n"
    "                    self.dependencies.update((dep, target) for dep in convert[source])\n"
    "                elif source not in cycles:\n"
    "                    self.dependencies.update((source, dep) for dep in convert[target])\n"
)
R.mutant("benign-rewrite-loop-guard-clauses-and-comprehensions", UOW, sub(_REWRITE_OLD, _REWRITE_CONTINUE), None)
R.mutant("rewrite-loop-guard-clauses-intra-cycle-edge-kept", UOW,
         sub(_REWRITE_OLD, _REWRITE_CONTINUE.replace("                if source not in cycles and target not in cycles:\n                    continue\n",
                                                     "                if (source in cycles) == (target in cycles):\n                    continue\n")), "C31-R3")
R.mutant("rewrite-loop-guard-clauses-sides-crossed", UOW,
         sub(_REWRITE_OLD, _REWRITE_CONTINUE.replace("(dep, target) for dep in convert[source]", "(dep, target) for dep in convert[target]")), "C31-R3")
_RET_OLD = "        return {\n            a for a in self.postsort_actions.values() if not a.disabled\n        }.difference(cycles)\n"
R.mutant("benign-return-spelled-with-minus", UOW,
         sub(_RET_OLD, "        enabled = {\n            a for a in self.postsort_actions.values() if not a.disabled\n        }\n        return enabled - cycles\n"), None)
R.mutant("return-keeps-cycle-members", UOW,
         sub(_RET_OLD, "        enabled = {\n            a for a in self.postsort_actions.values() if not a.disabled\n        }\n        return enabled\n"), "C31-R3")
_EXEC_OLD = (
    "        if self.cycles:\n"
    "            for subset in topological.sort_as_subsets(\n                self.dependencies, postsort_actions\n            ):\n"
    "                set_ = set(subset)\n                while set_:\n                    n = set_.pop()\n                    n.execute_aggregate(self, set_)\n"
    "        else:\n"
    "            for rec in topological.sort(self.dependencies, postsort_actions):\n                rec.execute(self)\n"
)
_EXEC_NEW = (
    "        edges = self.dependencies\n"
    "        has_cycles = bool(self.cycles)\n"
    "        if not has_cycles:\n"
    "            ordered = topological.sort(edges, postsort_actions)\n"
    "            for rec in ordered:\n                rec.execute(self)\n"
    "            return\n"
    "        for subset in topological.sort_as_subsets(edges, postsort_actions):\n"
    "            set_ = set(subset)\n            while set_:\n                n = set_.pop()\n                n.execute_aggregate(self, set_)\n"
)
R.mutant("benign-execute-locals-and-early-return", UOW, sub(_EXEC_OLD, _EXEC_NEW), None)
R.mutant("execute-locals-and-early-return-choice-inverted", UOW, sub(_EXEC_OLD, _EXEC_NEW.replace("if not has_cycles:", "if has_cycles:")), "C31-R3")
R.mutant("execute-locals-sorts-presort-edges", UOW, sub(_EXEC_OLD, _EXEC_NEW.replace("edges = self.dependencies\n", "edges = set(self.dependencies)\n", 1)), "C31-R3")

# R4: the state filter of _PostUpdateAll.execute as a loop with a guard clause / in a helper method
_PU_FILTER = "        states = [s for s in states if uow.states[s][0] == self.isdelete]\n"
R.mutant("benign-postupdate-filter-by-loop", UOW,
         sub(_PU_FILTER, "        mine = []\n        for s in states:\n            if uow.states[s][0] != self.isdelete:\n                continue\n"
                         "            mine.append(s)\n        states = mine\n"), None)
R.mutant("postupdate-filter-by-loop-inverted", UOW,
         sub(_PU_FILTER, "        mine = []\n        for s in states:\n            if uow.states[s][0] == self.isdelete:\n                continue\n"
                         "            mine.append(s)\n        states = mine\n"), "C31-R4")
R.mutant("benign-postupdate-emit-in-private-helper", UOW,
         chain(sub("        persistence._post_update(self.mapper, states, uow, cols)\n", "        self._emit(persistence, states, uow, cols)\n"),
               sub("class _SaveUpdateAll(_PostSortRec):\n", "    def _emit(self, persistence, states, uow, cols):\n        persistence._post_update(self.mapper, states, uow, cols)\n\n\nclass _SaveUpdateAll(_PostSortRec):\n")), None)

# ------------------------------------------------------------------ str2-m (round-2 seeds): C31-R2 m2m per-object branches, C31-R6
_M2M_PS_OLD = (
    "        if not isdelete:\n"
    "            if childisdelete:\n"
    "                uow.dependencies.update(\n                    [(save_parent, after_save), (after_save, child_action)]\n                )\n"
    "            else:\n"
    "                uow.dependencies.update(\n                    [(save_parent, after_save), (child_action, after_save)]\n                )\n"
)
R.mutant("seed3-m2m-perstate-branches-collapsed-into-save-form", DEP,
         sub(_M2M_PS_OLD, "        if not isdelete:\n            uow.dependencies.update(\n                [(save_parent, after_save), (child_action, after_save)]\n            )\n"), "C31-R2")
R.mutant("benign-m2m-perstate-common-edge-hoisted", DEP,
         sub(_M2M_PS_OLD, "        if not isdelete:\n            uow.dependencies.add((save_parent, after_save))\n"
                          "            if childisdelete:\n                uow.dependencies.add((after_save, child_action))\n"
                          "            else:\n                uow.dependencies.add((child_action, after_save))\n"), None)
R.mutant("m2m-perstate-common-edge-hoisted-child-edge-only-when-saved", DEP,
         sub(_M2M_PS_OLD, "        if not isdelete:\n            uow.dependencies.add((save_parent, after_save))\n"
                          "            if not childisdelete:\n                uow.dependencies.add((child_action, after_save))\n"), "C31-R2")
R.mutant("benign-m2m-perstate-child-edge-chosen-by-local", DEP,
         sub(_M2M_PS_OLD, "        if not isdelete:\n"
                          "            if childisdelete:\n                child_edge = (after_save, child_action)\n"
                          "            else:\n                child_edge = (child_action, after_save)\n"
                          "            uow.dependencies.update([(save_parent, after_save), child_edge])\n"), None)

_PRE_SETUP_OLD = (
    "            if not self.setup_flush_actions and (\n"
    "                self.dependency_processor.prop_has_changes(\n                    uow, delete_states, True\n                )\n"
    "                or self.dependency_processor.prop_has_changes(\n                    uow, save_states, False\n                )\n"
    "            ):\n"
    "                self.dependency_processor.per_property_flush_actions(uow)\n"
    "                self.setup_flush_actions = True\n"
    "            return True\n"
)
_HC_D = "self.dependency_processor.prop_has_changes(uow, delete_states, True)"
_HC_S = "self.dependency_processor.prop_has_changes(uow, save_states, False)"
R.mutant("seed4-preprocess-latch-set-before-has-changes-test", UOW,
         sub(_PRE_SETUP_OLD, "            if not self.setup_flush_actions:\n                self.setup_flush_actions = True\n"
                             f"                if {_HC_D} or {_HC_S}:\n"
                             "                    self.dependency_processor.per_property_flush_actions(uow)\n            return True\n"), "C31-R6")
R.mutant("preprocess-latch-set-before-test-guard-clauses", UOW,
         sub(_PRE_SETUP_OLD, "            if self.setup_flush_actions:\n                return True\n            self.setup_flush_actions = True\n"
                             f"            if not ({_HC_D} or {_HC_S}):\n                return True\n"
                             "            self.dependency_processor.per_property_flush_actions(uow)\n            return True\n"), "C31-R6")
R.mutant("preprocess-deleted-batch-not-tested", UOW,
         sub(_PRE_SETUP_OLD, f"            if not self.setup_flush_actions and {_HC_S}:\n"
                             "                self.dependency_processor.per_property_flush_actions(uow)\n                self.setup_flush_actions = True\n            return True\n"), "C31-R6")
R.mutant("preprocess-both-batches-must-have-changes", UOW,
         sub(_PRE_SETUP_OLD, f"            if not self.setup_flush_actions and ({_HC_D} and {_HC_S}):\n"
                             "                self.dependency_processor.per_property_flush_actions(uow)\n                self.setup_flush_actions = True\n            return True\n"), "C31-R6")
R.mutant("preprocess-has-changes-flags-swapped", UOW,
         sub(_PRE_SETUP_OLD, "            if not self.setup_flush_actions and (\n"
                             "                self.dependency_processor.prop_has_changes(uow, delete_states, False)\n"
                             "                or self.dependency_processor.prop_has_changes(uow, save_states, True)\n            ):\n"
                             "                self.dependency_processor.per_property_flush_actions(uow)\n                self.setup_flush_actions = True\n            return True\n"), "C31-R6")
R.mutant("preprocess-set-up-only-when-latched", UOW,
         sub("            if not self.setup_flush_actions and (\n                self.dependency_processor.prop_has_changes(\n",
             "            if self.setup_flush_actions and (\n                self.dependency_processor.prop_has_changes(\n"), "C31-R6")
R.mutant("benign-preprocess-latch-set-just-before-set-up", UOW,
         sub("                self.dependency_processor.per_property_flush_actions(uow)\n                self.setup_flush_actions = True\n",
             "                self.setup_flush_actions = True\n                self.dependency_processor.per_property_flush_actions(uow)\n"), None)
R.mutant("benign-preprocess-guard-clauses-and-locals", UOW,
         sub(_PRE_SETUP_OLD, "            if self.setup_flush_actions:\n                return True\n            processor = self.dependency_processor\n"
                             "            deletes_changed = processor.prop_has_changes(uow, delete_states, True)\n"
                             "            changed = deletes_changed or processor.prop_has_changes(uow, save_states, isdelete=False)\n"
                             "            if not changed:\n                return True\n"
                             "            processor.per_property_flush_actions(uow)\n            self.setup_flush_actions = True\n            return True\n"), None)
R.mutant("benign-preprocess-set-up-in-helper-method", UOW,
         chain(sub(_PRE_SETUP_OLD, "            self._set_up_once(uow, delete_states, save_states)\n            return True\n"),
               sub("class _PostSortRec:\n",
                   "    def _set_up_once(self, uow, doomed, kept):\n        if self._needs_set_up(uow, doomed, kept):\n"
                   "            self.dependency_processor.per_property_flush_actions(uow)\n            self.setup_flush_actions = True\n\n"
                   "    def _needs_set_up(self, uow, doomed, kept):\n"
                   "        return not self.setup_flush_actions and (\n"
                   "            self.dependency_processor.prop_has_changes(uow, doomed, True)\n"
                   "            or self.dependency_processor.prop_has_changes(uow, kept, False)\n        )\n\n\nclass _PostSortRec:\n", count=1)), None)
R.mutant("preprocess-set-up-in-helper-method-latch-first", UOW,
         chain(sub(_PRE_SETUP_OLD, "            self._set_up_once(uow, delete_states, save_states)\n            return True\n"),
               sub("class _PostSortRec:\n",
                   "    def _set_up_once(self, uow, doomed, kept):\n        if not self.setup_flush_actions:\n            self.setup_flush_actions = True\n"
                   "            if self.dependency_processor.prop_has_changes(uow, doomed, True) or self.dependency_processor.prop_has_changes(uow, kept, False):\n"
                   "                self.dependency_processor.per_property_flush_actions(uow)\n\n\nclass _PostSortRec:\n", count=1)), "C31-R6")
R.mutant("benign-preprocess-inverted-outer-test", UOW,
         sub("        if delete_states or save_states:\n" + _PRE_SETUP_OLD + "        else:\n            return False\n",
             "        if not delete_states and not save_states:\n            return False\n"
             + "\n".join(ln[4:] if ln.startswith("    ") else ln for ln in _PRE_SETUP_OLD.split("\n"))), None)
