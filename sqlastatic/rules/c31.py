"""C31 -- Flush order satisfies every constraint (dependency-edge obligations)."""

from __future__ import annotations

import ast
import itertools
from typing import Dict, List, Optional, Set, Tuple

from ..astutil import (
    call_name, calls_in, calls_named, dotted, name_stores, unparse, walk_local, walk_stmts,
)
from ..evalx import Sym
from ..oracles import load
from ..report import Registry, sub, chain

R = Registry(
    "C31",
    title="Flush emits statements in an order that satisfies every constraint",
    decides=(
        "for every dependency processor (one-to-many, many-to-one, many-to-many, key-switch detection) and every "
        "branch (post_update on/off; per-object form: parent saved/deleted x related object saved/deleted) the "
        "edges registered in uow.dependencies are acyclic and their transitive closure contains the precedence "
        "pairs a FOREIGN KEY checking backend needs (oracle fk_order_obligations.json); UOWTransaction.execute "
        "runs the actions in topological order of exactly that edge set and rewrites aggregate edges onto the "
        "per-object actions of cycle members, reading the edges to rewrite only after the per-object actions "
        "(which register further aggregate edges) were generated; post-update statements are emitted only by the "
        "ordered _PostUpdateAll action; every action handing states to persistence._save_obj/_delete_obj selects "
        "them at execution time on the uow.states components that remove_state_actions() (row switch) changes, "
        "aggregate and per-object form alike."
    ),
    not_decided=(
        "the per-row sort inside one mapper (_sort_states, self-referential sort_key), joined-inheritance table "
        "order, and that the emitted statements satisfy constraints for every object graph; whether the per-object "
        "_ProcessState actions should skip cancelled states like _ProcessAll._elements does."
    ),
)

DEP = "orm/dependency.py"
UOW = "orm/unitofwork.py"
PERS = "orm/persistence.py"

# action constructors of orm/unitofwork.py -> node kind (the boolean flag argument index, if any)
CTOR_KIND = {
    "_SaveUpdateAll": ("save", None),
    "_SaveUpdateState": ("save", None),
    "_DeleteAll": ("delete", None),
    "_DeleteState": ("delete", None),
    "_ProcessAll": ("process", 2),
    "_ProcessState": ("process", 2),
    "_PostUpdateAll": ("postupdate", 2),
}

# processor classes that are not reached through the relationship-direction table
EXTRA_PROCESSORS = {
    "_DetectKeySwitch": "key_switch",  # created by _ManyToOneDP.__init__ for the referenced mappers
}

ATOMS = ("post_update", "isdelete", "childisdelete")


# ---------------------------------------------------------------------- symbolic nodes
def _ctor(call: ast.AST) -> Optional[Tuple[str, Optional[bool], Optional[str]]]:
    """(kind, flag, side) for a unitofwork action constructor call, else None."""
    if not isinstance(call, ast.Call):
        return None
    nm = (call_name(call) or "").rsplit(".", 1)[-1]
    if nm not in CTOR_KIND:
        return None
    kind, flagpos = CTOR_KIND[nm]
    flag = None
    if flagpos is not None:
        if len(call.args) <= flagpos or not isinstance(call.args[flagpos], ast.Constant):
            return (kind, None, None)
        flag = bool(call.args[flagpos].value)
    side = None
    if len(call.args) > 1:
        d = dotted(call.args[1]) or ""
        if d.startswith("self.parent"):
            side = "parent"
        elif d.startswith("self.mapper"):
            side = "child"
    return (kind, flag, side)


def _aggregate_role(call: ast.AST) -> Optional[str]:
    c = _ctor(call)
    if c is None:
        return None
    kind, flag, side = c
    if kind == "process":
        if flag is None:
            return None
        return "before_delete" if flag else "after_save"
    if side is None:
        return None
    if kind == "save":
        return f"{side}_saves"
    if kind == "delete":
        return f"{side}_deletes"
    if kind == "postupdate":
        if flag is None:
            return None
        return f"{side}_pre_updates" if flag else f"{side}_post_updates"
    return None


class _Interp:
    """Evaluates a dependency-registering method under one truth assignment of its boolean atoms and
    collects the edges passed to `uow.dependencies.update([...])` / `.add((a, b))`."""

    def __init__(self, ctx, f, env: Dict[str, str], atom_names: Dict[str, str]):
        self.ctx = ctx
        self.f = f
        self.env0 = dict(env)
        self.atom_names = atom_names  # expression text -> canonical atom
        self.used_atoms: Set[str] = set()
        self._scan_atoms(f.node.body)

    def _scan_atoms(self, body):
        for st in walk_stmts(body):
            if isinstance(st, ast.If):
                self._atoms_of(st.test)

    def _atoms_of(self, t):
        if isinstance(t, ast.UnaryOp) and isinstance(t.op, ast.Not):
            return self._atoms_of(t.operand)
        if isinstance(t, ast.BoolOp):
            for v in t.values:
                self._atoms_of(v)
            return
        txt = unparse(t)
        self.ctx.require(
            txt in self.atom_names,
            f"{self.f.key}: branch condition `{txt}` is not one of the known boolean atoms {sorted(self.atom_names)}",
        )
        self.used_atoms.add(self.atom_names[txt])

    def _truth(self, t, asg) -> bool:
        if isinstance(t, ast.UnaryOp) and isinstance(t.op, ast.Not):
            return not self._truth(t.operand, asg)
        if isinstance(t, ast.BoolOp):
            vals = [self._truth(v, asg) for v in t.values]
            return all(vals) if isinstance(t.op, ast.And) else any(vals)
        return asg[self.atom_names[unparse(t)]]

    def run(self, asg: Dict[str, bool]) -> List[Tuple[str, str]]:
        self.env = dict(self.env0)
        self.edges: List[Tuple[str, str]] = []
        self._block(self.f.node.body, asg)
        return self.edges

    def _mentions_deps(self, st) -> bool:
        return any(isinstance(n, ast.Attribute) and n.attr == "dependencies" for n in ast.walk(st))

    def _block(self, body, asg):
        for st in body:
            if isinstance(st, ast.If):
                self._block(st.body if self._truth(st.test, asg) else st.orelse, asg)
                continue
            if isinstance(st, (ast.Assign, ast.AnnAssign)) and isinstance(getattr(st, "value", None), ast.Call):
                role = _aggregate_role(st.value)
                tgts = st.targets if isinstance(st, ast.Assign) else [st.target]
                if role is not None and len(tgts) == 1 and isinstance(tgts[0], ast.Name):
                    self.env[tgts[0].id] = role
                    continue
            if not self._mentions_deps(st):
                continue  # logging, asserts, unrelated statements
            self.ctx.require(
                isinstance(st, ast.Expr) and isinstance(st.value, ast.Call),
                f"{self.f.key}: statement touching uow.dependencies is not a plain call: `{unparse(st)[:80]}`",
            )
            c = st.value
            nm = call_name(c) or ""
            if nm.endswith("dependencies.update"):
                self.ctx.require(
                    len(c.args) == 1 and isinstance(c.args[0], (ast.List, ast.Tuple, ast.Set)),
                    f"{self.f.key}: dependencies.update() argument is not a literal list of pairs",
                )
                pairs = c.args[0].elts
            elif nm.endswith("dependencies.add"):
                self.ctx.require(len(c.args) == 1, f"{self.f.key}: dependencies.add() with {len(c.args)} args")
                pairs = [c.args[0]]
            else:
                self.ctx.error(f"{self.f.key}: unknown operation on uow.dependencies: `{nm}`")
            for p in pairs:
                self.ctx.require(
                    isinstance(p, ast.Tuple) and len(p.elts) == 2 and all(isinstance(e, ast.Name) for e in p.elts),
                    f"{self.f.key}: dependency edge `{unparse(p)}` is not a pair of local names",
                )
                a, b = p.elts
                for e in (a, b):
                    self.ctx.require(e.id in self.env, f"{self.f.key}: edge endpoint `{e.id}` has no known action role")
                self.edges.append((self.env[a.id], self.env[b.id]))


def _closure(edges) -> Dict[str, Set[str]]:
    succ: Dict[str, Set[str]] = {}
    for a, b in edges:
        succ.setdefault(a, set()).add(b)
        succ.setdefault(b, set())
    reach = {n: set() for n in succ}
    for n in succ:
        stack = list(succ[n])
        while stack:
            m = stack.pop()
            if m in reach[n]:
                continue
            reach[n].add(m)
            stack.extend(succ[m])
    return reach


def _cycle_nodes(reach) -> List[str]:
    return sorted(n for n, r in reach.items() if n in r)


def _fk_obligations(oracle, direction: str, post_update: bool):
    """Concrete aggregate (a, b, requires, why) for a FOREIGN KEY direction."""
    d = oracle["direction"][direction]
    ing, ed = d["referencing"], d["referenced"]
    m = {
        "referenced_save": f"{ed}_saves", "referencing_save": f"{ing}_saves",
        "referenced_delete": f"{ed}_deletes", "referencing_delete": f"{ing}_deletes",
        "sync": "after_save",
        "post_update": f"{ing}_post_updates", "pre_update": f"{ing}_pre_updates",
    }
    rows = oracle["foreign_key"]["post_update" if post_update else "plain"]
    return [(m[a], m[b], [m[r] for r in req], why) for a, b, req, why in rows]


def _obligations(oracle, direction: str, post_update: bool):
    if direction in ("one_to_many", "many_to_one"):
        return _fk_obligations(oracle, direction, post_update)
    return [(a, b, list(req), why) for a, b, req, why in oracle[direction]]


def _processor_classes(ctx):
    """[(ClassInfo, direction)] for every concrete dependency processor."""
    mod = ctx.index.module(DEP)
    base = ctx.index.cls(f"{DEP}::_DependencyProcessor")
    table = ctx.ev.module_value(mod, "_direction_to_processor")
    ctx.require(isinstance(table, dict) and table, "_direction_to_processor is not a literal dict")
    by_cls = {}
    for k, v in table.items():
        ctx.require(isinstance(k, Sym) and isinstance(v, Sym), f"_direction_to_processor entry {k!r}: {v!r} not symbolic")
        dirname = {"ONETOMANY": "one_to_many", "MANYTOONE": "many_to_one", "MANYTOMANY": "many_to_many"}.get(k.short)
        ctx.require(dirname is not None, f"unknown relationship direction {k.short}")
        by_cls[v.short] = dirname
    out = []
    for c in sorted(ctx.index.subclasses(base), key=lambda c: c.name):
        if c is base:
            continue
        d = by_cls.get(c.name) or EXTRA_PROCESSORS.get(c.name)
        ctx.require(d is not None, f"dependency processor class {c.name} has no direction (not in _direction_to_processor)")
        out.append((c, d))
    ctx.require(len(out) >= 4, "fewer than 4 dependency processor classes found")
    return base, out


def _aggregate_entry(ctx, base, cls):
    """(FuncInfo to interpret, initial env) for the aggregate form of processor `cls`."""
    setup = ctx.index.resolve_method(cls, "per_property_flush_actions")
    ctx.require(setup is not None, f"{cls.name}: no per_property_flush_actions")
    ctx.functions_analysed.add(setup.key)
    if setup.cls is not base:
        return setup, {}
    # base set-up: roles of the arguments handed to per_property_dependencies
    calls = calls_named(setup.node, "per_property_dependencies")
    ctx.require(len(calls) == 1, "base per_property_flush_actions does not call per_property_dependencies exactly once")
    call = calls[0]
    binds: Dict[str, List[ast.AST]] = {}
    for n, v, st in name_stores(setup.node):
        binds.setdefault(n, []).append(v)
    roles = []
    for a in call.args[1:]:
        ctx.require(isinstance(a, ast.Name) and len(binds.get(a.id, [])) == 1,
                    f"per_property_dependencies argument `{unparse(a)}` is not a singly-bound local")
        role = _aggregate_role(binds[a.id][0])
        ctx.require(role is not None, f"argument `{a.id}` is not bound to a unit-of-work action constructor")
        roles.append(role)
    f = ctx.index.resolve_method(cls, "per_property_dependencies")
    ctx.require(f is not None, f"{cls.name}: per_property_dependencies is not defined")
    ctx.functions_analysed.add(f.key)
    params = f.params[2:]  # self, uow, ...
    ctx.require(len(params) == len(roles), f"{f.key}: {len(params)} parameters for {len(roles)} arguments")
    return f, dict(zip(params, roles))


def _branches(interp: _Interp):
    atoms = [a for a in ATOMS if a in interp.used_atoms]
    for vals in itertools.product([False, True], repeat=len(atoms)):
        yield dict(zip(atoms, vals))


def _aggregate_edges(ctx, base, cls):
    """{post_update(bool) or None: edges} for the aggregate form."""
    f, env = _aggregate_entry(ctx, base, cls)
    it = _Interp(ctx, f, env, {"self.post_update": "post_update"})
    out = {}
    for asg in _branches(it):
        out[asg.get("post_update")] = it.run(asg)
    return f, out


@R.rule("C31-R1", floor=32, template="T-TABLE",
        desc="per processor class and post_update branch: the aggregate dependency edges are acyclic and their "
             "closure contains every precedence pair of the FOREIGN KEY / association-table oracle")
def r1(ctx):
    oracle = load("fk_order_obligations.json")
    base, procs = _processor_classes(ctx)
    for cls, direction in procs:
        f, per_branch = _aggregate_edges(ctx, base, cls)
        for pu, edges in sorted(per_branch.items(), key=lambda kv: str(kv[0])):
            label = "any" if pu is None else ("post_update" if pu else "plain")
            ctx.require(edges, f"{f.key}[{label}]: no dependency edges extracted")
            reach = _closure(edges)
            cyc = _cycle_nodes(reach)
            ctx.check(not cyc, f"{f.key}:{label}:acyclic",
                      f"dependency edges of branch {label} contain a cycle through {cyc}",
                      f"{len(edges)} edges, acyclic", f.loc)
            for a, b, req, why in _obligations(oracle, direction, bool(pu)):
                key = f"{f.key}:{label}:{a}<{b}"
                if b in reach.get(a, ()):
                    ctx.ok(key, why)
                elif a in reach.get(b, ()):
                    ctx.violation(key, f"{direction}/{label}: `{b}` is ordered BEFORE `{a}` (reversed); needed: {why}", f.loc)
                else:
                    ctx.violation(key, f"{direction}/{label}: nothing orders `{a}` before `{b}`; needed: {why}", f.loc)


# ---------------------------------------------------------------------- per-object form
PER_STATE_ROLES = ["save_parent", "delete_parent", "child_action", "after_save", "before_delete", "isdelete", "childisdelete"]


def _check_per_state_call_site(ctx, base):
    """The base class hands (save action, delete action, child action, save-processing, delete-processing,
    isdelete, childisdelete) to per_state_dependencies, in that order; child-action flags agree with the action."""
    f = ctx.index.resolve_method(base, "per_state_flush_actions")
    ctx.require(f is not None, "no _DependencyProcessor.per_state_flush_actions")
    ctx.functions_analysed.add(f.key)
    calls = calls_named(f.node, "per_state_dependencies")
    ctx.require(len(calls) == 1, "per_state_flush_actions does not call per_state_dependencies exactly once")
    call = calls[0]
    args = call.args[1:]
    ctx.require(len(args) == 7 and all(isinstance(a, ast.Name) for a in args),
                "per_state_dependencies is not called with 7 local names after uow")
    binds: Dict[str, List[ast.AST]] = {}
    for n, v, st in name_stores(f.node):
        binds.setdefault(n, []).append(v)

    def kinds(name):
        out = set()
        for v in binds.get(name, []):
            if v is None or (isinstance(v, ast.Constant) and v.value is None):
                continue
            c = _ctor(v)
            out.add(None if c is None else (c[0], c[1]))
        return out

    want = [{("save", None)}, {("delete", None)}, None, {("process", False)}, {("process", True)}]
    bad = []
    for i, w in enumerate(want):
        if w is None:
            continue
        k = kinds(args[i].id)
        if k != w:
            bad.append(f"argument {i + 1} `{args[i].id}` is bound to {sorted(map(str, k))}, expected {sorted(map(str, w))}")
    if args[5].id not in f.params:
        bad.append(f"argument 6 `{args[5].id}` is not the isdelete parameter")
    # child action and its flag come from one loop over (action, flag) pairs
    loop = None
    for n in walk_local(f.node):
        if isinstance(n, ast.For) and isinstance(n.target, ast.Tuple) and [unparse(e) for e in n.target.elts] == [args[2].id, args[6].id]:
            loop = n
    if loop is None:
        bad.append("child action and childisdelete are not unpacked from one (action, flag) pair")
    ctx.check(not bad, f"{f.key}:argument-roles", "; ".join(bad),
              "save/delete/child/after_save/before_delete/isdelete/childisdelete in declared order", f.loc)
    # every (action, flag) pair literal: flag True iff the action is a delete action
    pairs_bad, npairs = [], 0
    for n in walk_local(f.node):
        if isinstance(n, ast.Tuple) and len(n.elts) == 2 and isinstance(n.elts[1], ast.Constant) and isinstance(n.elts[1].value, bool):
            act = n.elts[0]
            kind = None
            c = _ctor(act)
            if c is not None:
                kind = c[0]
            elif isinstance(act, ast.Name):
                ks = {k[0] for k in kinds(act.id) if k}
                kind = ks.pop() if len(ks) == 1 else None
            if kind not in ("save", "delete"):
                continue
            npairs += 1
            if (kind == "delete") != n.elts[1].value:
                pairs_bad.append(unparse(n))
    ctx.require(npairs >= 2, "no (child action, childisdelete) pair literals found")
    ctx.check(not pairs_bad, f"{f.key}:child-action-flags",
              f"childisdelete flag disagrees with the action kind in {pairs_bad}",
              f"{npairs} (action, flag) pairs agree", f.loc)
    return f


def _per_state_name(agg: str, isdelete: bool, childisdelete: bool) -> Optional[str]:
    """Per-object node for an aggregate node in the branch (None: node does not exist in this branch)."""
    table = {
        "parent_saves": ("save_parent", not isdelete),
        "parent_deletes": ("delete_parent", isdelete),
        "child_saves": ("child_action", not childisdelete),
        "child_deletes": ("child_action", childisdelete),
        "after_save": ("after_save", not isdelete),
        "before_delete": ("before_delete", isdelete),
    }
    if agg in table:
        nm, present = table[agg]
        return nm if present else None
    return agg  # post/pre update actions are always the aggregate ones


def _exists(node: str, isdelete: bool) -> bool:
    if node in ("save_parent", "after_save"):
        return not isdelete
    if node in ("delete_parent", "before_delete"):
        return isdelete
    return True


@R.rule("C31-R2", floor=57, template="T-TABLE",
        desc="per-object form: for every (post_update, isdelete, childisdelete) branch of per_state_dependencies "
             "the edges contain the oracle's precedence pairs specialised to the objects present in that branch "
             "(pairs with a never-cyclic post/pre-update endpoint may be discharged by the direct aggregate edge, "
             "which _generate_actions rewrites onto per-object actions)")
def r2(ctx):
    oracle = load("fk_order_obligations.json")
    base, procs = _processor_classes(ctx)
    _check_per_state_call_site(ctx, base)
    # post/pre-update actions are never members of a cycle: at the level of action kinds, no path leads from
    # a post/pre update back to an action that precedes it (checked over the union of all aggregate edges)
    union = []
    agg_by_cls = {}
    for cls, direction in procs:
        f, per_branch = _aggregate_edges(ctx, base, cls)
        agg_by_cls[cls.name] = per_branch
        for pu, edges in per_branch.items():
            union.extend(edges)

    def kind_of(n):
        for suffix in ("_post_updates", "_pre_updates", "_saves", "_deletes"):
            if n.endswith(suffix):
                return suffix[1:]
        return n
    kreach = _closure([(kind_of(a), kind_of(b)) for a, b in union if kind_of(a) != kind_of(b) or True])
    pu_cyclic = [k for k in ("post_updates", "pre_updates") if k in kreach.get(k, ())]
    ctx.check(not pu_cyclic, f"{DEP}::_DependencyProcessor:post-update-actions-never-cyclic",
              f"{pu_cyclic} lie on a cycle of action kinds: aggregate post-update actions could become cycle members",
              "no path of aggregate edges leads from a post/pre-update action back to it", None)

    for cls, direction in procs:
        f = ctx.index.resolve_method(cls, "per_state_dependencies")
        setup = ctx.index.resolve_method(cls, "per_state_flush_actions")
        if setup is not None and setup.cls is not base:
            # processor with its own per-object set-up (key switch detection: nothing to order per object)
            ctx.functions_analysed.add(setup.key)
            regs = [n for n in ast.walk(setup.node) if isinstance(n, ast.Attribute) and n.attr == "dependencies"]
            ctx.check(not regs, f"{setup.key}:no-per-object-edges",
                      "overriding per_state_flush_actions registers edges this rule does not model",
                      "registers no per-object edges", setup.loc)
            continue
        ctx.require(f is not None, f"{cls.name}: per_state_dependencies is not defined")
        ctx.functions_analysed.add(f.key)
        params = f.params[2:]
        ctx.require(len(params) == 7, f"{f.key}: expected 7 parameters after uow, found {len(params)}")
        env = dict(zip(params[:5], PER_STATE_ROLES[:5]))
        atom_names = {"self.post_update": "post_update", params[5]: "isdelete", params[6]: "childisdelete"}
        it = _Interp(ctx, f, env, atom_names)
        has_pu = "post_update" in it.used_atoms
        for pu in ([False, True] if has_pu else [None]):
            obligations = _obligations(oracle, direction, bool(pu))
            agg_edges = set(agg_by_cls[cls.name].get(pu if pu in agg_by_cls[cls.name] else None, []))
            for isdelete in (False, True):
                for cdel in (False, True):
                    asg = {"post_update": bool(pu), "isdelete": isdelete, "childisdelete": cdel}
                    edges = [(a, b) for a, b in it.run(asg) if _exists(a, isdelete) and _exists(b, isdelete)]
                    reach = _closure(edges)
                    label = ",".join([
                        "any" if pu is None else ("post_update" if pu else "plain"),
                        "parent-deleted" if isdelete else "parent-saved",
                        "child-deleted" if cdel else "child-saved",
                    ])
                    cyc = _cycle_nodes(reach)
                    ctx.check(not cyc, f"{f.key}:{label}:acyclic", f"per-object edges of branch [{label}] contain a cycle through {cyc}",
                              f"{len(edges)} edges, acyclic", f.loc)
                    for a, b, req, why in obligations:
                        pa, pb = _per_state_name(a, isdelete, cdel), _per_state_name(b, isdelete, cdel)
                        if pa is None or pb is None or pa == pb:
                            continue
                        if any(_per_state_name(r, isdelete, cdel) is None for r in req):
                            continue
                        key = f"{f.key}:{label}:{pa}<{pb}"
                        if pb in reach.get(pa, ()):
                            ctx.ok(key, why)
                            continue
                        if (a.endswith("_updates") or b.endswith("_updates")) and (a, b) in agg_edges:
                            ctx.ok(key, f"discharged by the direct aggregate edge ({a}, {b}), rewritten onto per-object actions; {why}")
                            continue
                        if pa in reach.get(pb, ()):
                            ctx.violation(key, f"{direction} [{label}]: `{pb}` is ordered BEFORE `{pa}` (reversed); needed: {why}", f.loc)
                        else:
                            ctx.violation(key, f"{direction} [{label}]: nothing orders `{pa}` before `{pb}` when both objects are "
                                               f"members of a dependency cycle; needed: {why}", f.loc)


# ---------------------------------------------------------------------- execution order
def _sub_is(node, name: str, idx: int) -> bool:
    return (isinstance(node, ast.Subscript) and isinstance(node.value, ast.Name) and node.value.id == name
            and isinstance(node.slice, ast.Constant) and node.slice.value == idx)


@R.rule("C31-R3", floor=8, template="T-FLOW",
        desc="UOWTransaction.execute runs exactly the actions returned by _generate_actions in the order given by "
             "topological.sort / sort_as_subsets over self.dependencies; _generate_actions detects cycles over the "
             "same edge set, converts exactly the cycle members to per-object actions and rewrites edges with one "
             "end in a cycle onto them")
def r3(ctx):
    ex = ctx.func(f"{UOW}::UOWTransaction.execute")
    ga = ctx.func(f"{UOW}::UOWTransaction._generate_actions")
    # (a) actions flow from _generate_actions to the sort call
    derived: Set[str] = set()
    for n, v, st in sorted(name_stores(ex.node), key=lambda t: t[2].lineno):
        if v is None:
            continue
        if calls_named(v, "_generate_actions"):
            derived.add(n)
        elif isinstance(v, ast.Call) and (call_name(v) or "") in ("sorted", "list", "tuple") and v.args and isinstance(v.args[0], ast.Name) and v.args[0].id in derived:
            derived.add(n)
    ctx.require(derived, "execute() does not bind the result of self._generate_actions()")
    sorts = [c for c in calls_in(ex.node) if (call_name(c) or "").rsplit(".", 1)[-1] in ("sort", "sort_as_subsets")
             and (call_name(c) or "").startswith("topological.")]
    ctx.require(sorts, "execute() has no topological.sort / sort_as_subsets call")
    pm = ex.module.parents()
    for c in sorts:
        short = call_name(c).rsplit(".", 1)[-1]
        ok_args = (len(c.args) == 2 and dotted(c.args[0]) == "self.dependencies"
                   and isinstance(c.args[1], ast.Name) and c.args[1].id in derived)
        # the sort result is iterated directly by a for loop whose body executes the element
        par = pm.get(c)
        loop_ok = isinstance(par, ast.For) and par.iter is c
        runs = False
        if loop_ok:
            runs = any((call_name(x) or "").rsplit(".", 1)[-1] in ("execute", "execute_aggregate") for x in calls_in(par))
        ctx.check(ok_args and loop_ok and runs, f"{ex.key}:{short}",
                  f"topological.{short} is not applied to (self.dependencies, actions from _generate_actions) and executed in iteration order",
                  f"for x in topological.{short}(self.dependencies, <generated actions>): x.execute*()", ex.loc)
    # (b) the subset form is used exactly when there are cycles
    g = ctx.cfg(ex)
    want = {"sort_as_subsets": True, "sort": False}
    bad = []
    for c in sorts:
        short = call_name(c).rsplit(".", 1)[-1]
        for nid in g.nodes_containing(c):
            guards = [(unparse(t), pol) for t, pol in g.edge_guards(nid)]
            if ("self.cycles", want[short]) not in guards:
                bad.append(f"{short} guarded by {guards}")
    ctx.check(not bad and {call_name(c).rsplit('.', 1)[-1] for c in sorts} == set(want), f"{ex.key}:cycles-guard",
              f"choice between sort and sort_as_subsets is not made on self.cycles: {bad}",
              "sort_as_subsets iff self.cycles", ex.loc)
    # (c) cycles computed over the same edge set and stored
    fc = calls_named(ga.node, "find_cycles")
    ctx.require(len(fc) == 1, "_generate_actions does not call topological.find_cycles once")
    fcall = fc[0]
    arg_ok = len(fcall.args) == 2 and dotted(fcall.args[0]) == "self.dependencies" and "self.postsort_actions" in unparse(fcall.args[1])
    stored = None
    cyc_local = None
    for st in walk_stmts(ga.node.body):
        if isinstance(st, ast.Assign) and st.value is fcall:
            names = [dotted(t) for t in st.targets]
            stored = "self.cycles" in names
            loc = [t.id for t in st.targets if isinstance(t, ast.Name)]
            cyc_local = loc[0] if loc else None
    ctx.check(arg_ok and bool(stored), f"{ga.key}:find-cycles",
              "cycles are not computed by find_cycles(self.dependencies, postsort actions) and stored on self.cycles",
              "self.cycles = find_cycles(self.dependencies, postsort actions)", ga.loc)
    cyc_names = {"self.cycles"} | ({cyc_local} if cyc_local else set())
    # (d) conversion: per_state_flush_actions for exactly the members of cycles
    conv = None
    for n, v, st in name_stores(ga.node):
        if isinstance(v, ast.DictComp) and calls_named(v.value, "per_state_flush_actions"):
            gen = v.generators[0]
            if unparse(gen.iter) in cyc_names and not gen.ifs and unparse(v.key) == unparse(gen.target):
                conv = n
    ctx.check(conv is not None, f"{ga.key}:convert",
              "per-object actions are not generated for exactly the members of `cycles`",
              "convert = {rec: per_state_flush_actions for rec in cycles}", ga.loc)
    # (e) edge rewriting
    # the rewrite loop iterates a snapshot of self.dependencies: `for e in list(self.dependencies)` or a local
    # bound to such a snapshot; it is the loop that removes its own element from self.dependencies
    ga_binds: Dict[str, List[Tuple[ast.AST, ast.stmt]]] = {}
    for n, v, st in name_stores(ga.node):
        if v is not None:
            ga_binds.setdefault(n, []).append((v, st))

    def _snapshot_stmt(loop: ast.For):
        """statement that reads self.dependencies for this loop (the loop itself or the binding of its iterable)"""
        if any(dotted(x) == "self.dependencies" for x in ast.walk(loop.iter)):
            return loop
        names = [x.id for x in ast.walk(loop.iter) if isinstance(x, ast.Name)]
        for nm in names:
            bs = ga_binds.get(nm, [])
            if len(bs) == 1 and any(dotted(x) == "self.dependencies" for x in ast.walk(bs[0][0])):
                return bs[0][1]
        return None

    loops = []
    for n in walk_local(ga.node):
        if isinstance(n, ast.For) and isinstance(n.target, ast.Name) and _snapshot_stmt(n) is not None and any(
                (call_name(c) or "") == "self.dependencies.remove" and c.args and unparse(c.args[0]) == n.target.id
                for c in calls_in(n)):
            loops.append(n)
    ctx.require(len(loops) == 1, f"_generate_actions has {len(loops)} loops that rewrite a snapshot of self.dependencies (expected 1)")
    lp = loops[0]
    ev = lp.target.id
    snap = _snapshot_stmt(lp)
    # (e0) the snapshot is taken after the per-object actions were generated: per_state_flush_actions() itself
    # registers edges that point at aggregate actions of the cycle, they must be rewritten too
    g_ga = ctx.cfg(ga)
    conv_calls = calls_named(ga.node, "per_state_flush_actions")
    ctx.require(conv_calls, "_generate_actions does not call per_state_flush_actions")
    conv_nodes = sorted({i for c in conv_calls for i in g_ga.nodes_containing(c)})
    snap_nodes = list(g_ga.nodes_for(snap))
    ctx.require(conv_nodes and snap_nodes, "cannot locate the conversion / snapshot statements on the CFG of _generate_actions")
    registering = sorted(
        f.key.split("::")[1] for f in ctx.index.all_functions(ga.module)
        if f.name == "per_state_flush_actions" and any((call_name(c) or "").rsplit(".", 2)[-2:] in (["dependencies", "add"], ["dependencies", "update"]) for c in calls_in(f.node)))
    w_before = None
    for sn in snap_nodes:
        w_before = w_before or g_ga.always_preceded(sn, conv_nodes)
    later = sorted((set(conv_nodes) & g_ga.reachable(snap_nodes)) - set(snap_nodes))
    if not registering:
        ctx.ok(f"{ga.key}:rewrite-after-convert", "no per_state_flush_actions() registers dependency edges: order is immaterial")
    else:
        ctx.check(w_before is None and not later, f"{ga.key}:rewrite-after-convert",
                  f"the edges to rewrite are read from self.dependencies (`{unparse(snap).splitlines()[0][:70]}`, line {snap.lineno}) "
                  f"{'before' if w_before is not None else 'while'} the per-object actions are generated: {', '.join(registering)} add edges "
                  "that point at aggregate actions of the cycle (e.g. per-object save -> aggregate delete); they are missing from "
                  "the snapshot, are never rewritten onto per-object actions and drop out of the topological sort (saves are no "
                  "longer ordered before the deletes of the same mapper in cycle mode)",
                  f"snapshot of self.dependencies (line {snap.lineno}) is dominated by the per_state_flush_actions() conversion; "
                  f"edges registered there by {', '.join(registering)} are rewritten",
                  ga.loc, w_before)
    found = {0: False, 1: False}
    removed_both = False
    for n in ast.walk(lp):
        if not isinstance(n, ast.If):
            continue
        t = n.test
        for i in (0, 1):
            if (isinstance(t, ast.Compare) and len(t.ops) == 1 and isinstance(t.ops[0], ast.In)
                    and _sub_is(t.left, ev, i) and unparse(t.comparators[0]) in cyc_names):
                rm = any((call_name(c) or "") == "self.dependencies.remove" and unparse(c.args[0]) == ev for c in calls_in(ast.Module(body=n.body, type_ignores=[])))
                for fr in n.body:
                    if (isinstance(fr, ast.For) and isinstance(fr.target, ast.Name) and isinstance(fr.iter, ast.Subscript)
                            and conv is not None and unparse(fr.iter.value) == conv and _sub_is(fr.iter.slice, ev, i)):
                        for c in calls_in(fr):
                            if (call_name(c) or "") == "self.dependencies.add" and c.args and isinstance(c.args[0], ast.Tuple) and len(c.args[0].elts) == 2:
                                e = c.args[0].elts
                                if isinstance(e[i], ast.Name) and e[i].id == fr.target.id and _sub_is(e[1 - i], ev, 1 - i):
                                    found[i] = found[i] or rm
        for c in calls_in(t):
            if (call_name(c) or "").endswith(".issuperset") and unparse(c.args[0]) == ev and unparse(c.func.value) in cyc_names:
                removed_both = True
    ctx.check(found[0] and found[1] and removed_both, f"{ga.key}:edge-rewrite",
              f"edges with one end in a cycle are not replaced by edges to every per-object action "
              f"(source side: {found[0]}, target side: {found[1]}, both-in-cycle removed: {removed_both})",
              "edge[0] in cycles -> (dep, edge[1]) for dep in convert[edge[0]]; symmetric; intra-cycle edges removed", ga.loc)
    # (f) returned action set excludes the converted aggregate actions
    rets = [r for r in walk_local(ga.node) if isinstance(r, ast.Return) and r.value is not None]
    ok_ret = rets and all(
        isinstance(r.value, ast.Call) and isinstance(r.value.func, ast.Attribute) and r.value.func.attr == "difference"
        and r.value.args and unparse(r.value.args[0]) in cyc_names and "self.postsort_actions" in unparse(r.value.func.value)
        for r in rets
    )
    ctx.check(bool(ok_ret), f"{ga.key}:returns", "returned actions are not `postsort actions minus cycles`",
              "returns enabled postsort actions minus cycle members", ga.loc)


def _callers(ctx, modules, callee_short: str, callee_prefix=None):
    out = []
    for rel in modules:
        m = ctx.index.module(rel)
        if callee_short not in m.source:
            continue
        for f in ctx.index.all_functions(m):
            for c in calls_in(f.node):
                nm = call_name(c) or ""
                if nm == callee_short or nm.endswith("." + callee_short):
                    if callee_prefix is not None and not any(nm == p + callee_short for p in callee_prefix):
                        continue
                    out.append((f, c))
    return out


@R.rule("C31-R4", floor=4, template="T-OWN/T-PATH",
        desc="post-update UPDATE statements are emitted only by the ordered _PostUpdateAll action: "
             "persistence._post_update has that single caller, processors only register post updates, and "
             "the action filters states by its own isdelete flag")
def r4(ctx):
    orm_modules = [m.relpath for m in ctx.index.all_modules() if m.relpath.startswith("orm/")]
    # (1) callers of persistence._post_update
    pu = ctx.func(f"{PERS}::_post_update")
    callers = _callers(ctx, orm_modules, "_post_update", ("persistence.", "orm_persistence.", "util.preloaded.orm_persistence.", ""))
    callers = [(f, c) for f, c in callers if not (call_name(c) == "_post_update" and f.module.relpath != PERS)]
    names = sorted({f.key for f, c in callers})
    ctx.check(names == [f"{UOW}::_PostUpdateAll.execute"], f"{PERS}::_post_update:callers",
              f"persistence._post_update is called from {names}; expected only _PostUpdateAll.execute",
              "single caller _PostUpdateAll.execute", pu.loc)
    # (2) _emit_post_update_statements only from _post_update
    em = ctx.func(f"{PERS}::_emit_post_update_statements")
    callers = _callers(ctx, orm_modules, "_emit_post_update_statements")
    names = sorted({f.key for f, c in callers})
    ctx.check(names == [pu.key], f"{em.key}:callers", f"_emit_post_update_statements is called from {names}", "single caller _post_update", em.loc)
    # (3) the processors' _post_update only registers
    dp = ctx.func(f"{DEP}::_DependencyProcessor._post_update")
    reg = calls_named(dp.node, "register_post_update")
    emits = [call_name(c) for c in calls_in(dp.node) if "persistence" in (call_name(c) or "") or (call_name(c) or "").endswith(".execute")]
    overrides = [c.name for c in ctx.index.subclasses(ctx.index.cls(f"{DEP}::_DependencyProcessor")) if "_post_update" in c.methods and c.name != "_DependencyProcessor"]
    ctx.check(bool(reg) and not emits and not overrides, f"{dp.key}:registers-only",
              f"_DependencyProcessor._post_update emits directly ({emits}) / is overridden by {overrides} / does not register",
              "defers to uow.register_post_update", dp.loc)
    # (4) the action handles exactly the states whose delete flag equals its own
    ex = ctx.func(f"{UOW}::_PostUpdateAll.execute")
    filt = False
    for n in walk_local(ex.node):
        if isinstance(n, (ast.ListComp, ast.GeneratorExp, ast.SetComp)):
            for gen in n.generators:
                for cond in gen.ifs:
                    if isinstance(cond, ast.Compare) and len(cond.ops) == 1 and isinstance(cond.ops[0], (ast.Eq, ast.Is)):
                        sides = {unparse(cond.left).replace(" ", ""), unparse(cond.comparators[0]).replace(" ", "")}
                        tv = gen.target.id if isinstance(gen.target, ast.Name) else "?"
                        if sides == {f"uow.states[{tv}][0]", "self.isdelete"}:
                            filt = True
    passes = False
    for c in calls_named(ex.node, "_post_update"):
        passes = len(c.args) >= 2 and dotted(c.args[0]) == "self.mapper"
    ctx.check(filt and passes, f"{ex.key}:filters-by-isdelete",
              "_PostUpdateAll.execute does not restrict the states to those whose delete flag equals self.isdelete",
              "states filtered on uow.states[s][0] == self.isdelete", ex.loc)


# ---------------------------------------------------------------------- C31-R5 (who honours a cancelled action)
EMITTERS = {"_delete_obj": "delete", "_save_obj": "save"}
FLAG_NAMES = {0: "isdelete", 1: "listonly"}


def _states_subscripts(nodes, pm):
    """components of the `<uow>.states[<state>]` tuple read by the given AST nodes: {0}, {1} or {0, 1}"""
    comps: Set[int] = set()
    for root in nodes:
        for n in ast.walk(root):
            if isinstance(n, ast.Subscript) and (dotted(n.value) or "").rsplit(".", 1)[-1] == "states" and isinstance(n.ctx, ast.Load):
                par = pm.get(n)
                if isinstance(par, ast.Subscript) and par.value is n and isinstance(par.slice, ast.Constant) and par.slice.value in (0, 1):
                    comps.add(par.slice.value)
                else:
                    comps |= {0, 1}
    return comps


def _slice_of(fnode, expr, depth=3):
    """`expr` plus the values bound to the local names it uses (transitively): where the states passed on come from"""
    binds: Dict[str, List[ast.AST]] = {}
    for n, v, st in name_stores(fnode):
        if v is not None:
            binds.setdefault(n, []).append(v)
    out, seen, frontier = [expr], set(), [expr]
    for _ in range(depth):
        nxt = []
        for e in frontier:
            for x in ast.walk(e):
                if isinstance(x, ast.Name) and x.id in binds and x.id not in seen:
                    seen.add(x.id)
                    nxt.extend(binds[x.id])
        out.extend(nxt)
        frontier = nxt
    return out


@R.rule("C31-R5", floor=6, template="T-SIBLING/T-FLOW",
        desc="an action cancelled during the flush stays cancelled: remove_state_actions() (row switch detected "
             "while saving) flips only one component of uow.states[state]; every action that hands states to "
             "persistence._delete_obj/_save_obj selects them, at execution time, on all components that can "
             "change under it - the aggregate and the per-object (cycle) form of an action agree")
def r5(ctx):
    ix = ctx.index
    uowcls = ix.cls(f"{UOW}::UOWTransaction")
    pm = ix.module(UOW).parents()
    # (1) the writer: which component(s) of uow.states[state] does cancelling an action change?
    rsa = ctx.method(uowcls.key, "remove_state_actions")
    ctx.functions_analysed.add(rsa.key)
    from ..astutil import subscript_stores, lexical_guards, guard_atoms
    stores = [(sub_, st) for d, sub_, st in subscript_stores(rsa.node) if d.rsplit(".", 1)[-1] == "states" and isinstance(st, ast.Assign)]
    ctx.require(len(stores) == 1 and isinstance(stores[0][1].value, ast.Tuple) and len(stores[0][1].value.elts) == 2,
                "remove_state_actions no longer assigns a 2-tuple to self.states[state] (unknown idiom)")
    tup = stores[0][1].value
    changed: Set[int] = set()
    for i, e in enumerate(tup.elts):
        srcs = _slice_of(rsa.node, e)
        if _states_subscripts(srcs, pm) == {i} and not isinstance(e, ast.Constant):
            continue  # component i is written back unchanged
        changed.add(i)
    ctx.require(changed, "remove_state_actions writes uow.states[state] back unchanged")
    ctx.ok(f"{rsa.key}:changes[{','.join(FLAG_NAMES[i] for i in sorted(changed))}]",
           f"writes ({', '.join(unparse(e) for e in tup.elts)}); unchanged: {[FLAG_NAMES[i] for i in (0, 1) if i not in changed]}", nontrivial=False)
    # which kind of action can be cancelled: every call site is guarded by `is_deleted(<that state>)`
    sites = _callers(ctx, [m.relpath for m in ix.all_modules() if m.relpath.startswith("orm/")], "remove_state_actions")
    ctx.require(sites, "remove_state_actions is never called")
    only_deleted = True
    for f, c in sites:
        ctx.functions_analysed.add(f.key)
        atoms = guard_atoms(lexical_guards(f.module.parents(), c, stop=f.node))
        arg = unparse(c.args[0]) if c.args else "?"
        if not any(pol and a.endswith(f".is_deleted({arg})") for a, pol in atoms):
            only_deleted = False
    affected = {"delete"} if only_deleted else {"delete", "save"}
    # (2) the shared selector compares the whole tuple
    sfm = ctx.method(uowcls.key, "states_for_mapper_hierarchy")
    ctx.functions_analysed.add(sfm.key)
    flag_params = sfm.params[2:4]
    whole = False
    for n in walk_local(sfm.node):
        if isinstance(n, ast.Compare) and len(n.ops) == 1 and isinstance(n.ops[0], ast.Eq):
            sides = [n.left, n.comparators[0]]
            if any(_states_subscripts([x], pm) == {0, 1} and isinstance(x, ast.Subscript) for x in sides):
                other = [x for x in sides if not (isinstance(x, ast.Subscript) and _states_subscripts([x], pm))]
                for o in other:
                    vals = _slice_of(sfm.node, o)
                    if any(isinstance(v, ast.Tuple) and [unparse(e) for e in v.elts] == flag_params for v in vals):
                        whole = True
    ctx.check(whole, f"{sfm.key}:selects-on-both-flags",
              "states_for_mapper_hierarchy no longer selects states with uow.states[state] == (isdelete, listonly)",
              "self.states[state] == (isdelete, listonly)", sfm.loc)
    # (3) every emitter
    n_emit = 0
    for f in sorted(ix.all_functions(ix.module(UOW)), key=lambda x: x.node.lineno):
        for c in calls_in(f.node):
            short = (call_name(c) or "").rsplit(".", 1)[-1]
            if short not in EMITTERS or f.cls is None:
                continue
            kind = EMITTERS[short]
            ctx.functions_analysed.add(f.key)
            ctx.require(len(c.args) >= 2, f"{f.key}: {short}() without a states argument")
            n_emit += 1
            key = f"{f.key}:{short}:states-selected-on[{'+'.join(FLAG_NAMES[i] for i in sorted(changed))}]"
            sl = _slice_of(f.node, c.args[1])
            problems = []
            reads: Set[int] = set()
            for e in sl:
                for sc in calls_in(e):
                    if (call_name(sc) or "").rsplit(".", 1)[-1] == sfm.name and len(sc.args) == 3 and whole:
                        reads |= {0, 1}
                        want = (kind == "delete", False)
                        got = tuple(a.value if isinstance(a, ast.Constant) else None for a in sc.args[1:3])
                        if None not in got and got != want:
                            problems.append(f"selects states with (isdelete, listonly) == {got}, a {kind} action must take {want}")
            reads |= _states_subscripts(sl, pm)
            if kind not in affected:
                ctx.ok(key, f"{kind} actions are never cancelled (remove_state_actions is only called for states with is_deleted()); reads {sorted(FLAG_NAMES[i] for i in reads)}")
                if problems:
                    ctx.violation(key + ":flags", "; ".join(problems), f.loc)
                continue
            missing = sorted(changed - reads)
            if missing:
                problems.append(
                    f"{f.qualname} hands states to persistence.{short} selecting them "
                    + (f"only on {[FLAG_NAMES[i] for i in sorted(reads)]} of uow.states[s]" if reads else "without consulting uow.states")
                    + f", but a pending {kind} is cancelled by remove_state_actions() (row switch detected by the save that runs "
                      f"before it) through {[FLAG_NAMES[i] for i in missing]}, which it never reads: the cancelled {kind} is still "
                      f"emitted (the row just UPDATEd in place of the deleted object is DELETEd / the DELETE violates a foreign key "
                      f"of rows that now reference the replacement); the sibling aggregate action selects on both flags")
            ctx.check(not problems, key, "; ".join(problems), f"selected at execution time on {sorted(FLAG_NAMES[i] for i in reads)}", f.loc)
    ctx.require(n_emit >= 4, f"only {n_emit} callers of persistence._save_obj/_delete_obj in unitofwork.py")


# ---------------------------------------------------------------------- self-test battery
O2M_PLAIN_OLD = "                    (child_deletes, parent_deletes),\n                    (before_delete, child_saves),\n"
R.mutant("o2m-reverse-child-deletes-parent-deletes", DEP,
         sub(O2M_PLAIN_OLD, "                    (parent_deletes, child_deletes),\n                    (before_delete, child_saves),\n"), "C31-R1")
R.mutant("o2m-drop-after-save-child-saves", DEP,
         sub("                    (after_save, child_saves),\n                    (after_save, child_deletes),\n", "                    (after_save, child_deletes),\n"), "C31-R1")
R.mutant("m2o-swap-orientation", DEP,
         sub("                    (child_saves, after_save),\n                    (after_save, parent_saves),\n", "                    (parent_saves, after_save),\n                    (after_save, child_saves),\n"), "C31-R1")
R.mutant("m2m-drop-child-saves-before-association", DEP,
         sub("                (parent_saves, after_save),\n                (child_saves, after_save),\n                (after_save, child_deletes),\n",
             "                (parent_saves, after_save),\n                (after_save, child_deletes),\n"), "C31-R1")
R.mutant("o2m-postupdate-pre-after-delete", DEP,
         sub("                    (child_pre_updates, parent_deletes),\n", "                    (parent_deletes, child_pre_updates),\n"), "C31-R1")
R.mutant("o2m-perstate-drop-child-before-parent-delete", DEP,
         sub("                [(before_delete, child_action), (child_action, delete_parent)]\n", "                [(before_delete, child_action)]\n"), "C31-R2")
R.mutant("m2o-perstate-reverse-save-order", DEP,
         sub("                    [(child_action, after_save), (after_save, save_parent)]\n", "                    [(save_parent, after_save), (after_save, child_action)]\n"), "C31-R2")
R.mutant("m2m-perstate-swap-childisdelete", DEP,
         sub("        if not isdelete:\n            if childisdelete:\n                uow.dependencies.update(\n                    [(save_parent, after_save), (after_save, child_action)]",
             "        if not isdelete:\n            if not childisdelete:\n                uow.dependencies.update(\n                    [(save_parent, after_save), (after_save, child_action)]"), "C31-R2")
R.mutant("perstate-childaction-flag-swapped", DEP,
         sub("            child_actions = [(child_saves, False), (child_deletes, True)]", "            child_actions = [(child_saves, True), (child_deletes, False)]"), "C31-R2")
R.mutant("execute-sorts-other-edge-set", UOW,
         sub("            for rec in topological.sort(self.dependencies, postsort_actions):", "            for rec in topological.sort(set(), postsort_actions):"), "C31-R3")
R.mutant("execute-subsets-when-no-cycles", UOW,
         sub("        # execute\n        if self.cycles:", "        # execute\n        if not self.cycles:"), "C31-R3")
R.mutant("rewrite-drops-target-side", UOW,
         sub("                    for dep in convert[edge[1]]:\n                        self.dependencies.add((edge[0], dep))\n", "                    pass\n"), "C31-R3")
R.mutant("rewrite-wrong-endpoint", UOW,
         sub("                        self.dependencies.add((dep, edge[1]))", "                        self.dependencies.add((dep, edge[0]))"), "C31-R3")
R.mutant("processor-emits-post-update-directly", DEP,
         sub("                uowcommit.register_post_update(\n                    state, [r for l, r in self.prop.synchronize_pairs]\n                )",
             "                persistence._post_update(\n                    state.mapper, [state], uowcommit, [r for l, r in self.prop.synchronize_pairs]\n                )"), "C31-R4")
R.mutant("postupdate-action-ignores-isdelete", UOW,
         sub("        states = [s for s in states if uow.states[s][0] == self.isdelete]\n", "        states = [s for s in states]\n"), "C31-R4")
R.mutant("postupdate-called-from-save", PERS,
         sub("def _delete_obj(base_mapper, states, uowtransaction):\n", "def _delete_obj(base_mapper, states, uowtransaction):\n    _post_update(base_mapper, states, uowtransaction, [])\n"), "C31-R4")
# benign refactors
R.mutant("benign-reorder-edges-and-log", DEP,
         sub("            uow.dependencies.update(\n                [\n                    (parent_saves, after_save),\n                    (after_save, child_saves),\n                    (after_save, child_deletes),\n                    (child_saves, parent_deletes),\n                    (child_deletes, parent_deletes),\n                    (before_delete, child_saves),\n                    (before_delete, child_deletes),\n                ]\n            )",
             "            _n = len(uow.deps)\n            uow.dependencies.update(\n                [\n                    (after_save, child_deletes),\n                    (parent_saves, after_save),\n                    (after_save, child_saves),\n                    (child_deletes, parent_deletes),\n                    (child_saves, parent_deletes),\n                    (before_delete, child_deletes),\n                    (before_delete, child_saves),\n                ]\n            )"), None)
R.mutant("benign-extra-edge", DEP,
         sub("                (parent_saves, after_save),\n                (child_saves, after_save),\n                (after_save, child_deletes),\n",
             "                (parent_saves, after_save),\n                (child_saves, after_save),\n                (after_save, child_deletes),\n                (after_save, parent_deletes),\n"), None)
R.mutant("benign-execute-rename-local", UOW,
         sub("            for rec in topological.sort(self.dependencies, postsort_actions):\n                rec.execute(self)", "            for action in topological.sort(self.dependencies, postsort_actions):\n                action.execute(self)"), None)
# --- seeds (str-m) and their neighbourhood
_O2M_DEL = "            uow.dependencies.update(\n                [(before_delete, child_action), (child_action, delete_parent)]\n            )\n"
R.mutant("seed1-o2m-perstate-child-before-parent-delete-only-if-child-deleted", DEP,
         sub(_O2M_DEL, "            uow.dependencies.add((before_delete, child_action))\n            if childisdelete:\n                uow.dependencies.add((child_action, delete_parent))\n"), "C31-R2")
R.mutant("benign-o2m-perstate-edges-added-one-by-one", DEP,
         sub(_O2M_DEL, "            uow.dependencies.add((before_delete, child_action))\n            uow.dependencies.add((child_action, delete_parent))\n"), None)
_CONV = "            convert = {\n                rec: set(rec.per_state_flush_actions(self)) for rec in cycles\n            }\n"
_LOOP = "            for edge in list(self.dependencies):\n"
R.mutant("seed2-rewrite-snapshot-taken-before-conversion", UOW,
         chain(sub(_CONV, "            existing_dependencies = list(self.dependencies)\n\n" + _CONV), sub(_LOOP, "            for edge in existing_dependencies:\n")), "C31-R3")
R.mutant("rewrite-snapshot-taken-before-cycle-test", UOW,
         chain(sub("        if cycles:\n            # if yes, break", "        pending = tuple(self.dependencies)\n        if cycles:\n            # if yes, break"),
               sub(_LOOP, "            for edge in pending:\n")), "C31-R3")
R.mutant("benign-rewrite-snapshot-bound-after-conversion", UOW,
         sub(_LOOP, "            edges_to_rewrite = list(self.dependencies)\n            for edge in edges_to_rewrite:\n"), None)
R.mutant("delete-all-executes-cancelled-deletes", UOW,
         sub("            uow.states_for_mapper_hierarchy(self.mapper, True, False),\n            uow,\n", "            uow.states_for_mapper_hierarchy(self.mapper, True, True),\n            uow,\n"), "C31-R5")
R.mutant("state-selector-ignores-listonly", UOW,
         sub("                if self.states[state] == checktup:\n", "                if self.states[state][0] == isdelete:\n"), "C31-R5")
R.mutant("delete-all-selects-on-isdelete-only", UOW,
         sub("            uow.states_for_mapper_hierarchy(self.mapper, True, False),\n            uow,\n", "            [s for s in uow.mappers[self.mapper] if uow.states[s][0]],\n            uow,\n"), "C31-R5")
R.mutant("benign-delete-all-states-bound-to-local", UOW,
         sub("        util.preloaded.orm_persistence._delete_obj(\n            self.mapper,\n            uow.states_for_mapper_hierarchy(self.mapper, True, False),\n            uow,\n        )",
             "        doomed = uow.states_for_mapper_hierarchy(self.mapper, True, False)\n        util.preloaded.orm_persistence._delete_obj(\n            self.mapper,\n            doomed,\n            uow,\n        )"), None)
R.mutant("benign-remove-state-actions-rename-local", UOW,
         sub("        isdelete = self.states[state][0]\n\n        self.states[state] = (isdelete, True)\n", "        was_delete = self.states[state][0]\n\n        self.states[state] = (was_delete, True)\n"), None)
