"""C22 -- Compiling never fails with an internal error (thin: raise discipline, table lookups, visitor signatures)."""

from __future__ import annotations

import ast

from ..astutil import (
    call_name, calls_in, dotted, enclosing_try, raised_name, unparse, walk_local,
)
from ..evalx import Sym, has_unknown
from ..index import ClassInfo, FuncInfo
from ..oracles import load as load_oracle
from ..report import Registry, sub

R = Registry(
    "C22",
    title="Compiling a well-formed construct never fails with an internal error",
    decides=(
        "every `raise` in the compiler / type-compiler / identifier-preparer classes and in sql/crud.py raises a "
        "documented SQLAlchemy error (listed protocol exceptions aside); hooks whose base implementation only raises "
        "NotImplementedError are overridden by the compiler of every registered dialect (or are gated); subscripts "
        "of the compiler's dispatch tables are guarded (try/KeyError -> documented error, .get), use a constant key "
        "present in the table, or an enum domain fully covered by the table of every dialect; every operator "
        "visitor (`visit_<operator>_binary`, `_unary_operator`, `_unary_modifier`, `_expression_clauselist`) names an "
        "existing operator and accepts the (element, operator, **kw) call made by the dispatcher."
    ),
    not_decided="absence of AttributeError/TypeError/AssertionError on arbitrary construct combinations; the 60+ "
                "assert statements (counted, not judged).",
)

COMP = "sql/compiler.py"
CRUD = "sql/crud.py"
DOCUMENTED = {"CompileError", "UnsupportedCompilationError", "InvalidRequestError", "ArgumentError",
              "IdentifierError"}  # IdentifierError: documented subclass raised for over-long names (C21)
ABSTRACT_DIALECTS = {"engine/default.py::DefaultDialect", "dialects/mysql/_mariadb_shim.py::MariaDBShim"}

# raises of other classes that are part of a protocol and not reachable by compiling a construct
PROTOCOL_RAISES = {
    (f"{COMP}::SQLCompiler.current_executable", "IndexError"):
        "public accessor documented to raise IndexError outside of a compilation; never called by compile()",
    (f"{COMP}::StrSQLTypeCompiler.__getattr__", "AttributeError"):
        "__getattr__ protocol: non visit_ names must raise AttributeError",
    (f"{CRUD}::_multiparam_column.compare", "NotImplementedError"): "internal marker element, never compared during compile",
    (f"{CRUD}::_multiparam_column._copy_internals", "NotImplementedError"): "internal marker element, never copied during compile",
    (f"{COMP}::SQLCompiler._literal_execute_expanding_parameter_literal_binds", "NotImplementedError"):
        "only for a user TypeDecorator over TupleType that defines bind_expression(); the message documents the limitation",
}
# hooks that may stay unimplemented on some dialects because their call sites are gated
GATED_HOOKS = {
    "render_bind_cast": "called only for type implementations that set render_bind_cast / render_literal_cast; such "
                        "implementations exist only in dialect packages whose compiler overrides the hook (verified)",
}


def _family(ctx):
    ix = ctx.index
    out = []
    for base_key in (f"{COMP}::Compiled", f"{COMP}::TypeCompiler", f"{COMP}::IdentifierPreparer"):
        b = ix.cls(base_key)
        out.append(b)
        out.extend(ix.subclasses(b))
    seen, res = set(), []
    for c in out:
        if c.key not in seen:
            seen.add(c.key)
            res.append(c)
    return sorted(res, key=lambda c: c.key)


def _only_raises(ctx, f: FuncInfo) -> bool:
    g = ctx.cfg(f)
    return g.exit not in g.reachable([g.entry])


def _registered_compilers(ctx, attr):
    """{compiler ClassInfo key: (ClassInfo, [dialect keys])} for dialect attribute `attr`."""
    ix = ctx.index
    dd = ix.cls("engine/default.py::DefaultDialect")
    out = {}
    for d in [dd] + ix.subclasses(dd):
        if d.key in ABSTRACT_DIALECTS:
            continue
        owner, nodes = ix.class_attr_nodes(d, attr)
        if not nodes:
            continue
        c = ix.resolve(owner.module, dotted(nodes[-1]) or "")
        if isinstance(c, ClassInfo):
            out.setdefault(c.key, (c, []))[1].append(d.key)
    return out


@R.rule("C22-R1", floor=120, template="T-OWN / T-EXHAUST",
        desc="raise statements in compiler classes and crud.py raise documented errors; hooks that only raise "
             "NotImplementedError are overridden in the compiler of every registered dialect or are gated")
def r1(ctx):
    # floor: 129 instances on today's tree; set a little lower because deleting a raise statement is a legitimate
    # edit (the floor guards against the rule going blind, it is not a census)
    ix = ctx.index
    hooks = []  # (FuncInfo) methods that only raise NotImplementedError
    n_assert = 0
    units = []
    for cls in _family(ctx):
        for name, f in sorted(cls.methods.items()):
            units.append(f)
    units += [f for f in ix.all_functions(ix.module(CRUD))]
    seen = set()
    for f in units:
        if f.key in seen:
            continue
        seen.add(f.key)
        ctx.functions_analysed.add(f.key)
        idx = 0
        for n in walk_local(f.node, into_nested=False):
            if isinstance(n, ast.Assert):
                n_assert += 1
            if not isinstance(n, ast.Raise):
                continue
            idx += 1
            rn = raised_name(n)
            if rn is None:
                ctx.ok(f"{f.key}:raise#{idx}", "re-raise", nontrivial=False)
                continue
            short = rn.rsplit(".", 1)[-1]
            key = f"{f.key}:raise:{short}" + (f"#{idx}" if idx > 1 else "")
            if short in DOCUMENTED and (rn.startswith("exc.") or rn == short):
                ctx.ok(key, rn, nontrivial=False)
            elif short == "NotImplementedError" and _only_raises(ctx, f) and f.cls is not None and (f.key, short) not in PROTOCOL_RAISES:
                hooks.append(f)
                ctx.ok(key, "abstract hook (override coverage judged per dialect below)", nontrivial=False)
            elif (f.key, short) in PROTOCOL_RAISES:
                ctx.ok(key, "protocol: " + PROTOCOL_RAISES[(f.key, short)], nontrivial=False)
            else:
                ctx.violation(key, f"raises {rn}, which is not a documented SQLAlchemy compile error "
                                   f"(CompileError / UnsupportedCompilationError / InvalidRequestError / ArgumentError)",
                              f"{f.module.path}:{n.lineno}")
    ctx.note(f"{n_assert} assert statements in the same units are internal invariants: counted, not judged")
    # T-EXHAUST for hooks
    attr_for_base = {f"{COMP}::SQLCompiler": "statement_compiler", f"{COMP}::DDLCompiler": "ddl_compiler",
                     f"{COMP}::TypeCompiler": "type_compiler_cls", f"{COMP}::GenericTypeCompiler": "type_compiler_cls"}
    for h in sorted(hooks, key=lambda f: f.key):
        owner = h.cls
        if owner.key == f"{COMP}::Compiled":
            # abstract base of SQLCompiler / DDLCompiler: both must implement
            for sub_ in ix.subclasses(owner, transitive=False):
                m = ix.resolve_method(sub_, h.name)
                ctx.check(m is not None and m.key != h.key and not _only_raises(ctx, m), f"{sub_.key}.{h.name}",
                          f"{sub_.qualname} does not implement abstract {h.qualname}", "implemented", sub_.loc)
            continue
        attr = attr_for_base.get(owner.key)
        if attr is None:
            # hook on a mixin: every class that inherits it and is registered must override
            regs = {}
            for a in ("statement_compiler", "ddl_compiler", "type_compiler_cls"):
                regs.update(_registered_compilers(ctx, a))
            users = [c for c, _ in regs.values() if owner in ix.mro(c)]
            ctx.require(users, f"{h.key}: abstract hook on a class no registered compiler inherits")
        else:
            regs = _registered_compilers(ctx, attr)
            users = [c for c, _ in regs.values() if owner in ix.mro(c)]
        regkeys = {c.key for c in users}
        for c in sorted(users, key=lambda c: c.key):
            # report at the root of each registered family, and wherever a subclass redefines the hook
            parents = [p for p in ix.mro(c)[1:] if p.key in regkeys]
            if parents and h.name not in c.methods:
                continue
            m = ix.resolve_method(c, h.name)
            key = f"{c.key}.{h.name}"
            implemented = m is not None and m.key != h.key and not _only_raises(ctx, m)
            if implemented:
                ctx.ok(key, f"-> {m.qualname}")
            elif h.name in GATED_HOOKS:
                ctx.ok(key, "gated: " + GATED_HOOKS[h.name])
            else:
                ctx.violation(key, f"{c.qualname} (dialects: {', '.join(sorted(regs[c.key][1]))[:120]}) inherits {h.qualname}, which "
                                   f"only raises NotImplementedError: compiling a construct that needs it fails with a "
                                   f"non-SQLAlchemy error instead of CompileError", c.loc)
    # verification of the gate for render_bind_cast
    base = ix.cls(f"{COMP}::SQLCompiler")
    stmt_regs = _registered_compilers(ctx, "statement_compiler")
    bad = []
    n_impl = 0
    for c in ix.all_classes():
        for a in ("render_bind_cast", "render_literal_cast"):
            for node in c.assigns.get(a, []):
                if isinstance(node, ast.Constant) and node.value is True:
                    n_impl += 1
                    rel = c.module.relpath
                    pkg = rel.split("/")[1] if rel.startswith("dialects/") else None
                    comps = [cc for cc, _ in stmt_regs.values() if pkg and cc.module.relpath.startswith(f"dialects/{pkg}/")]
                    if not comps or any(ix.resolve_method(cc, "render_bind_cast").cls is base for cc in comps):
                        bad.append(c.key)
    ctx.check(not bad and n_impl > 0, f"{COMP}::SQLCompiler.render_bind_cast:gate",
              f"type implementation(s) {bad} request bind casts but a compiler of their dialect package keeps the "
              f"NotImplementedError hook", f"{n_impl} cast-rendering type impls, all under compilers that override the hook", base.loc)


# ------------------------------------------------------------------------------------------ R2
TABLES = {"OPERATORS", "FUNCTIONS", "EXTRACT_MAP", "COMPOUND_KEYWORDS", "BIND_TEMPLATES"}
SELF_TABLES = {"extract_map": "EXTRACT_MAP", "compound_keywords": "COMPOUND_KEYWORDS"}


def _op_visitor_parts(name: str):
    for suffix in ("_binary", "_unary_operator", "_unary_modifier", "_expression_clauselist"):
        if name.startswith("visit_") and name.endswith(suffix):
            return name[len("visit_"):-len(suffix)], suffix
    return None


@R.rule("C22-R2", floor=14, template="T-GUARD / T-EXHAUST",
        desc="subscripts of OPERATORS / FUNCTIONS / extract_map / compound_keywords / BIND_TEMPLATES inside compiler "
             "classes: guarded by try/except KeyError -> documented error, or constant key present in the table, or "
             "operator fixed by the visitor's name and present, or enum / paramstyle domain fully covered")
def r2(ctx):
    ix = ctx.index
    m = ix.module(COMP)
    tables = {}
    for t in TABLES:
        v = ctx.ev.module_value(m, t)
        ctx.require(isinstance(v, dict), f"{t} is not a literal table")
        tables[t] = v

    def keyset(t):
        return {k.short if isinstance(k, Sym) else k for k in tables[t]}

    base = ix.cls(f"{COMP}::SQLCompiler")
    styles = set(load_oracle("paramstyles.json")["styles"])
    for cls in _family(ctx):
        for name, f in sorted(cls.methods.items()):
            pm = None
            idx = {}
            for n in walk_local(f.node, into_nested=True):
                if not (isinstance(n, ast.Subscript) and isinstance(n.ctx, ast.Load)):
                    continue
                d = dotted(n.value) or ""
                tname = d if d in TABLES else SELF_TABLES.get(d[5:]) if d.startswith("self.") else None
                if tname is None:
                    continue
                ctx.functions_analysed.add(f.key)
                pm = pm or f.module.parents()
                ktxt = unparse(n.slice)
                idx[(tname, ktxt)] = idx.get((tname, ktxt), 0) + 1
                key = f"{f.key}:{tname}[{ktxt}]" + (f"#{idx[(tname, ktxt)]}" if idx[(tname, ktxt)] > 1 else "")
                loc = f"{f.module.path}:{n.lineno}"
                # (a) guarded
                guarded = False
                for tr, part in enclosing_try(pm, n):
                    if part == "body":
                        for hnd in tr.handlers:
                            ht = unparse(hnd.type) if hnd.type is not None else ""
                            if ("KeyError" in ht or ht in ("Exception", "")) and any(
                                    isinstance(x, ast.Raise) and (raised_name(x) or "").rsplit(".", 1)[-1] in DOCUMENTED
                                    for x in ast.walk(hnd)):
                                guarded = True
                if guarded:
                    ctx.ok(key, "try/except KeyError -> documented error")
                    continue
                kd = dotted(n.slice) or ""
                # (b) constant key
                if kd.startswith("operators.") and tname == "OPERATORS":
                    ctx.check(kd.split(".", 1)[1] in keyset(tname), key, f"constant key {kd} is not in {tname}", "constant key present", loc)
                    continue
                # (c) operator fixed by the visitor's own name
                parts = _op_visitor_parts(name)
                if parts and tname == "OPERATORS" and isinstance(n.slice, ast.Name) and n.slice.id in f.params[1:3]:
                    ctx.check(parts[0] in keyset(tname), key,
                              f"{name} is dispatched for operator `{parts[0]}`, which has no entry in OPERATORS", "operator of the visitor present", loc)
                    continue
                # (d) enum / paramstyle domains
                if tname == "COMPOUND_KEYWORDS" and ktxt.endswith(".keyword"):
                    enum = ix.cls("sql/selectable.py::_CompoundSelectKeyword")
                    # the table evaluator resolves enum members to their values; compare by member name and value
                    members = set()
                    for st in enum.node.body:
                        if isinstance(st, ast.Assign) and isinstance(st.targets[0], ast.Name):
                            members.add(st.targets[0].id)
                    vals = {st.targets[0].id: st.value.value for st in enum.node.body
                            if isinstance(st, ast.Assign) and isinstance(st.targets[0], ast.Name) and isinstance(st.value, ast.Constant)}
                    missing = {}
                    for c2 in [base] + ix.subclasses(base):
                        if "compound_keywords" not in c2.assigns and c2 is not base:
                            continue
                        node = c2.assigns["compound_keywords"][-1] if c2 is not base else None
                        if c2 is base:
                            have = keyset("COMPOUND_KEYWORDS")
                        elif isinstance(node, ast.Call) and (call_name(node) or "").endswith("update_copy") and node.args \
                                and (dotted(node.args[0]) or "").endswith("compound_keywords"):
                            have = keyset("COMPOUND_KEYWORDS")  # copy of the base table plus overrides
                        else:
                            v = ctx.ev.class_value(c2, "compound_keywords", inherited=False)
                            ctx.require(isinstance(v, dict) and not has_unknown(v), f"{c2.key}.compound_keywords not understood")
                            have = {k.short if isinstance(k, Sym) else k for k in v}
                        lack = sorted(mm for mm in members if mm not in have and vals.get(mm) not in have)
                        if lack:
                            missing[c2.qualname] = lack
                    ctx.check(not missing, key, f"_CompoundSelectKeyword member(s) without keyword: {missing}",
                              f"all {len(members)} enum members covered in every dialect table", loc)
                    continue
                if tname == "BIND_TEMPLATES" and ktxt.endswith("paramstyle"):
                    ctx.check(styles <= keyset(tname), key, f"paramstyle(s) {sorted(styles - keyset(tname))} have no template",
                              "every DBAPI paramstyle has a template (dialect literals: C04-R1)", loc)
                    continue
                ctx.violation(key, f"`{unparse(n)}` is indexed by a key taken from the construct without a KeyError guard: an "
                                   f"operator / field outside the table surfaces as a bare KeyError from compile()", loc)


# ------------------------------------------------------------------------------------------ R3
@R.rule("C22-R3", floor=93, template="T-EXHAUST (signature agreement)",
        desc="every visit_<op>_{binary,unary_operator,unary_modifier,expression_clauselist} method of a compiler names an "
             "operator function of sql.operators and can be called as m(element, operator, **kw)")
def r3(ctx):
    ix = ctx.index
    opm = ix.module("sql/operators.py")
    opnames = set(opm.functions) | set(opm.assigns)
    base = ix.cls(f"{COMP}::SQLCompiler")
    disp = base.methods.get("_get_operator_dispatch")
    ctx.require(disp is not None and any(isinstance(n, ast.Constant) and n.value == "visit_%s_%s%s" for n in ast.walk(disp.node)),
                "_get_operator_dispatch naming scheme changed")
    # _get_custom_operator_dispatch: visit_<visit_name>_op_<qualifier> for custom_op(..., visit_name=...)
    custom = set()
    for mod in ix.all_modules():
        if "visit_name" not in mod.source:
            continue
        for n in ast.walk(mod.tree):
            if isinstance(n, ast.Call):
                for k in n.keywords:
                    if k.arg == "visit_name" and isinstance(k.value, ast.Constant) and isinstance(k.value.value, str):
                        custom.add(k.value.value)
    for cls in [base] + sorted(ix.subclasses(base), key=lambda c: c.key):
        for name, f in sorted(cls.methods.items()):
            parts = _op_visitor_parts(name)
            if not parts or not parts[0]:
                continue
            stem, suffix = parts
            ctx.functions_analysed.add(f.key)
            key = f"{cls.key}.{name}"
            a = f.node.args
            npos = len(a.posonlyargs) + len(a.args) - 1  # without self
            nreq = npos - len(a.defaults)
            problems = []
            if stem not in opnames and not (stem.endswith("_op") and stem[:-3] in custom) and stem != "custom_op":  # noqa
                problems.append(f"`{stem}` is not an operator in sql.operators: the visitor is never dispatched")
            if not (a.vararg is not None or npos >= 2):
                problems.append("cannot take (element, operator) positionally")
            if nreq > 2:
                problems.append(f"requires {nreq} positional arguments, the dispatcher passes 2")
            if a.kwarg is None:
                problems.append("has no **kw: compile keyword arguments raise TypeError")
            if any(d is None for d in a.kw_defaults):
                problems.append("has a required keyword-only argument")
            ctx.check(not problems, key, "; ".join(problems), "", f.loc, nontrivial=False)


# ------------------------------------------------------------------------------------------ self test
R.mutant("r1-raises-keyerror", COMP,
         sub('            raise exc.CompileError(\n                "Unary expression has no operator or modifier"\n            )',
             '            raise KeyError(\n                "Unary expression has no operator or modifier"\n            )'), "C22-R1")
R.mutant("r1-crud-raises-typeerror", CRUD,
         sub("def _as_dml_column(c: ColumnElement[Any]) -> ColumnClause[Any]:\n    if not isinstance(c, ColumnClause):\n        raise exc.CompileError(",
             "def _as_dml_column(c: ColumnElement[Any]) -> ColumnClause[Any]:\n    if not isinstance(c, ColumnClause):\n        raise TypeError("), "C22-R1")
R.mutant("r1-oracle-loses-sequence-support", "dialects/oracle/base.py",
         sub("    def visit_sequence(self, seq, **kw):\n        return self.preparer.format_sequence(seq) + \".nextval\"\n", ""), "C22-R1")
R.mutant("r1-mssql-loses-delete-from", "dialects/mssql/base.py",
         sub("    def delete_extra_from_clause(\n        self, delete_stmt, from_table, extra_froms, from_hints, **kw\n    ):", "    def _delete_extra_from_clause(\n        self, delete_stmt, from_table, extra_froms, from_hints, **kw\n    ):"), "C22-R1")
R.mutant("r2-binary-guard-removed", COMP,
         sub("            try:\n                opstring = OPERATORS[operator_]\n            except KeyError as err:\n                raise exc.UnsupportedCompilationError(self, operator_) from err\n            else:\n                return self._generate_generic_binary(\n                    binary,\n                    opstring,\n                    from_linter=from_linter,\n                    lateral_from_linter=lateral_from_linter,\n                    **kw,\n                )\n",
             "            opstring = OPERATORS[operator_]\n            return self._generate_generic_binary(\n                binary,\n                opstring,\n                from_linter=from_linter,\n                lateral_from_linter=lateral_from_linter,\n                **kw,\n            )\n"), "C22-R2")
R.mutant("r2-sqlite-extract-unguarded", "dialects/sqlite/base.py",
         sub("        except KeyError as err:\n            raise exc.CompileError(\n                \"%s is not a valid extract argument.\" % extract.field\n            ) from err\n",
             "        except ValueError as err:\n            raise exc.CompileError(\n                \"%s is not a valid extract argument.\" % extract.field\n            ) from err\n"), "C22-R2")
R.mutant("r2-compound-keyword-row-removed", COMP, sub('    selectable._CompoundSelectKeyword.EXCEPT_ALL: "EXCEPT ALL",\n', ""), "C22-R2")
R.mutant("r3-pg-visitor-without-kw", "dialects/postgresql/base.py",
         sub("    def visit_ilike_op_binary(self, binary, operator, **kw):\n        escape = binary.modifiers.get(\"escape\", None)\n\n        return \"%s ILIKE %s\"",
             "    def visit_ilike_op_binary(self, binary, operator):\n        kw = {}\n        escape = binary.modifiers.get(\"escape\", None)\n\n        return \"%s ILIKE %s\""), "C22-R3")
R.mutant("r3-sqlite-visitor-typo", "dialects/sqlite/base.py",
         sub("    def visit_regexp_match_op_binary(self, binary, operator, **kw):\n        return self._generate_generic_binary(binary, \" REGEXP \", **kw)",
             "    def visit_regex_match_op_binary(self, binary, operator, **kw):\n        return self._generate_generic_binary(binary, \" REGEXP \", **kw)"), "C22-R3")
# benign
R.mutant("benign-message-change", COMP,
         sub('"Unary expression has no operator or modifier"', '"Unary expression has neither operator nor modifier"'), None)
R.mutant("benign-extra-documented-raise", "dialects/sqlite/base.py",
         sub("    def visit_empty_set_op_expr(self, type_, expand_op, **kw):\n", "    def visit_empty_set_op_expr(self, type_, expand_op, **kw):\n        if type_ is None:\n            raise exc.CompileError(\"no type\")\n"), None)
R.mutant("benign-visitor-extra-default-arg", "dialects/sqlite/base.py",
         sub("    def visit_regexp_match_op_binary(self, binary, operator, **kw):\n        return self._generate_generic_binary(binary, \" REGEXP \", **kw)",
             "    def visit_regexp_match_op_binary(self, binary, operator, _sep=\" REGEXP \", **kw):\n        return self._generate_generic_binary(binary, _sep, **kw)"), None)
