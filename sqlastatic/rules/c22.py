"""C22 -- Compiling never fails with an internal error (thin: raise discipline, table lookups, visitor signatures)."""

from __future__ import annotations

import ast

from ..astutil import (
    ancestors, call_name, calls_in, dotted, enclosing_try, guard_atoms, lexical_guards, name_stores, parent_map,
    raised_name, test_atoms, unparse, walk_local,
)
from ..evalx import Sym, has_unknown
from ..index import ClassInfo, FuncInfo
from ..oracles import load as load_oracle
from ..report import Registry, sub

R = Registry(
    "C22",
    title="Compiling a well-formed construct never fails with an internal error",
    decides=(
        "every `raise` in the compiler / type-compiler / identifier-preparer classes and in sql/crud.py raises a "
        "documented SQLAlchemy error (listed protocol exceptions aside); hooks whose base implementation only raises "
        "NotImplementedError are overridden by the compiler of every registered dialect (or are gated); subscripts "
        "of the compiler's dispatch tables are guarded (try/KeyError -> documented error, .get), use a constant key "
        "present in the table, or an enum domain fully covered by the table of every dialect; every operator "
        "visitor (`visit_<operator>_binary`, `_unary_operator`, `_unary_modifier`, `_expression_clauselist`) names an "
        "existing operator and accepts the (element, operator, **kw) call made by the dispatcher; column-collection "
        "lookups `<x>.c[key]` / `<x>.columns[key]` by a non-constant key are guarded (membership test on the same "
        "collection, try/except KeyError -> documented error, key drawn from the collection); after a class guard "
        "that raises a documented error (`if not isinstance(x, C): raise CompileError`) every attribute read on the "
        "guarded variable is defined by a class the guard establishes; (R8) in the DDL compilers an attribute read on a "
        "member of the visited column-collection constraint is defined by every named-column class the dominating "
        "isinstance()/hasattr() outcomes leave possible (the constructor accepts column('x')), unless the constraint class "
        "proves at attach time that its members are Columns; (R9) keys / elements of clause attributes filled from a "
        "string-or-expression role coercion (coercions._ReturnsStringKey) reach IdentifierPreparer methods with a `str` "
        "parameter only under a positive isinstance(x, str) outcome (or with every ClauseElement excluded)."
    ),
    not_decided="absence of AttributeError/TypeError/AssertionError on arbitrary construct combinations; the 60+ "
                "assert statements (counted, not judged).",
)

COMP = "sql/compiler.py"
CRUD = "sql/crud.py"
DOCUMENTED = {"CompileError", "UnsupportedCompilationError", "InvalidRequestError", "ArgumentError",
              "IdentifierError"}  # IdentifierError: documented subclass raised for over-long names (C21)
ABSTRACT_DIALECTS = {"engine/default.py::DefaultDialect", "dialects/mysql/_mariadb_shim.py::MariaDBShim"}

# raises of other classes that are part of a protocol and not reachable by compiling a construct
PROTOCOL_RAISES = {
    (f"{COMP}::SQLCompiler.current_executable", "IndexError"):
        "public accessor documented to raise IndexError outside of a compilation; never called by compile()",
    (f"{COMP}::StrSQLTypeCompiler.__getattr__", "AttributeError"):
        "__getattr__ protocol: non visit_ names must raise AttributeError",
    (f"{CRUD}::_multiparam_column.compare", "NotImplementedError"): "internal marker element, never compared during compile",
    (f"{CRUD}::_multiparam_column._copy_internals", "NotImplementedError"): "internal marker element, never copied during compile",
    (f"{COMP}::SQLCompiler._literal_execute_expanding_parameter_literal_binds", "NotImplementedError"):
        "only for a user TypeDecorator over TupleType that defines bind_expression(); the message documents the limitation",
}
# hooks that may stay unimplemented on some dialects because their call sites are gated
GATED_HOOKS = {
    "render_bind_cast": "called only for type implementations that set render_bind_cast / render_literal_cast; such "
                        "implementations exist only in dialect packages whose compiler overrides the hook (verified)",
}


def _family(ctx):
    ix = ctx.index
    out = []
    for base_key in (f"{COMP}::Compiled", f"{COMP}::TypeCompiler", f"{COMP}::IdentifierPreparer"):
        b = ix.cls(base_key)
        out.append(b)
        out.extend(ix.subclasses(b))
    seen, res = set(), []
    for c in out:
        if c.key not in seen:
            seen.add(c.key)
            res.append(c)
    return sorted(res, key=lambda c: c.key)


def _only_raises(ctx, f: FuncInfo) -> bool:
    g = ctx.cfg(f)
    return g.exit not in g.reachable([g.entry])


def _registered_compilers(ctx, attr):
    """{compiler ClassInfo key: (ClassInfo, [dialect keys])} for dialect attribute `attr`."""
    ix = ctx.index
    dd = ix.cls("engine/default.py::DefaultDialect")
    out = {}
    for d in [dd] + ix.subclasses(dd):
        if d.key in ABSTRACT_DIALECTS:
            continue
        owner, nodes = ix.class_attr_nodes(d, attr)
        if not nodes:
            continue
        c = ix.resolve(owner.module, dotted(nodes[-1]) or "")
        if isinstance(c, ClassInfo):
            out.setdefault(c.key, (c, []))[1].append(d.key)
    return out


@R.rule("C22-R1", floor=120, template="T-OWN / T-EXHAUST",
        desc="raise statements in compiler classes and crud.py raise documented errors; hooks that only raise "
             "NotImplementedError are overridden in the compiler of every registered dialect or are gated")
def r1(ctx):
    # floor: 129 instances on today's tree; set a little lower because deleting a raise statement is a legitimate
    # edit (the floor guards against the rule going blind, it is not a census)
    ix = ctx.index
    hooks = []  # (FuncInfo) methods that only raise NotImplementedError
    n_assert = 0
    units = []
    for cls in _family(ctx):
        for name, f in sorted(cls.methods.items()):
            units.append(f)
    units += [f for f in ix.all_functions(ix.module(CRUD))]
    seen = set()
    for f in units:
        if f.key in seen:
            continue
        seen.add(f.key)
        ctx.functions_analysed.add(f.key)
        idx = 0
        for n in walk_local(f.node, into_nested=False):
            if isinstance(n, ast.Assert):
                n_assert += 1
            if not isinstance(n, ast.Raise):
                continue
            idx += 1
            rn = raised_name(n)
            if rn is None:
                ctx.ok(f"{f.key}:raise#{idx}", "re-raise", nontrivial=False)
                continue
            short = rn.rsplit(".", 1)[-1]
            key = f"{f.key}:raise:{short}" + (f"#{idx}" if idx > 1 else "")
            if short in DOCUMENTED and (rn.startswith("exc.") or rn == short):
                ctx.ok(key, rn, nontrivial=False)
            elif short == "NotImplementedError" and _only_raises(ctx, f) and f.cls is not None and (f.key, short) not in PROTOCOL_RAISES:
                hooks.append(f)
                ctx.ok(key, "abstract hook (override coverage judged per dialect below)", nontrivial=False)
            elif (f.key, short) in PROTOCOL_RAISES:
                ctx.ok(key, "protocol: " + PROTOCOL_RAISES[(f.key, short)], nontrivial=False)
            else:
                ctx.violation(key, f"raises {rn}, which is not a documented SQLAlchemy compile error "
                                   f"(CompileError / UnsupportedCompilationError / InvalidRequestError / ArgumentError)",
                              f"{f.module.path}:{n.lineno}")
    ctx.note(f"{n_assert} assert statements in the same units are internal invariants: counted, not judged")
    # T-EXHAUST for hooks
    attr_for_base = {f"{COMP}::SQLCompiler": "statement_compiler", f"{COMP}::DDLCompiler": "ddl_compiler",
                     f"{COMP}::TypeCompiler": "type_compiler_cls", f"{COMP}::GenericTypeCompiler": "type_compiler_cls"}
    for h in sorted(hooks, key=lambda f: f.key):
        owner = h.cls
        if owner.key == f"{COMP}::Compiled":
            # abstract base of SQLCompiler / DDLCompiler: both must implement
            for sub_ in ix.subclasses(owner, transitive=False):
                m = ix.resolve_method(sub_, h.name)
                ctx.check(m is not None and m.key != h.key and not _only_raises(ctx, m), f"{sub_.key}.{h.name}",
                          f"{sub_.qualname} does not implement abstract {h.qualname}", "implemented", sub_.loc)
            continue
        attr = attr_for_base.get(owner.key)
        if attr is None:
            # hook on a mixin: every class that inherits it and is registered must override
            regs = {}
            for a in ("statement_compiler", "ddl_compiler", "type_compiler_cls"):
                regs.update(_registered_compilers(ctx, a))
            users = [c for c, _ in regs.values() if owner in ix.mro(c)]
            ctx.require(users, f"{h.key}: abstract hook on a class no registered compiler inherits")
        else:
            regs = _registered_compilers(ctx, attr)
            users = [c for c, _ in regs.values() if owner in ix.mro(c)]
        regkeys = {c.key for c in users}
        for c in sorted(users, key=lambda c: c.key):
            # report at the root of each registered family, and wherever a subclass redefines the hook
            parents = [p for p in ix.mro(c)[1:] if p.key in regkeys]
            if parents and h.name not in c.methods:
                continue
            m = ix.resolve_method(c, h.name)
            key = f"{c.key}.{h.name}"
            implemented = m is not None and m.key != h.key and not _only_raises(ctx, m)
            if implemented:
                ctx.ok(key, f"-> {m.qualname}")
            elif h.name in GATED_HOOKS:
                ctx.ok(key, "gated: " + GATED_HOOKS[h.name])
            else:
                ctx.violation(key, f"{c.qualname} (dialects: {', '.join(sorted(regs[c.key][1]))[:120]}) inherits {h.qualname}, which "
                                   f"only raises NotImplementedError: compiling a construct that needs it fails with a "
                                   f"non-SQLAlchemy error instead of CompileError", c.loc)
    # verification of the gate for render_bind_cast
    base = ix.cls(f"{COMP}::SQLCompiler")
    stmt_regs = _registered_compilers(ctx, "statement_compiler")
    bad = []
    n_impl = 0
    for c in ix.all_classes():
        for a in ("render_bind_cast", "render_literal_cast"):
            for node in c.assigns.get(a, []):
                if isinstance(node, ast.Constant) and node.value is True:
                    n_impl += 1
                    rel = c.module.relpath
                    pkg = rel.split("/")[1] if rel.startswith("dialects/") else None
                    comps = [cc for cc, _ in stmt_regs.values() if pkg and cc.module.relpath.startswith(f"dialects/{pkg}/")]
                    if not comps or any(ix.resolve_method(cc, "render_bind_cast").cls is base for cc in comps):
                        bad.append(c.key)
    ctx.check(not bad and n_impl > 0, f"{COMP}::SQLCompiler.render_bind_cast:gate",
              f"type implementation(s) {bad} request bind casts but a compiler of their dialect package keeps the "
              f"NotImplementedError hook", f"{n_impl} cast-rendering type impls, all under compilers that override the hook", base.loc)


# ------------------------------------------------------------------------------------------ R2
TABLES = {"OPERATORS", "FUNCTIONS", "EXTRACT_MAP", "COMPOUND_KEYWORDS", "BIND_TEMPLATES"}
SELF_TABLES = {"extract_map": "EXTRACT_MAP", "compound_keywords": "COMPOUND_KEYWORDS"}


def _op_visitor_parts(name: str):
    for suffix in ("_binary", "_unary_operator", "_unary_modifier", "_expression_clauselist"):
        if name.startswith("visit_") and name.endswith(suffix):
            return name[len("visit_"):-len(suffix)], suffix
    return None


def _table_of(expr):
    """Name of the dispatch table a receiver expression denotes (`OPERATORS`, `self.extract_map` ...)."""
    d = dotted(expr) or ""
    if d in TABLES:
        return d
    if d.startswith("self."):
        return SELF_TABLES.get(d[5:])
    return None


def _table_spellings(tname):
    return {tname} | {f"self.{a}" for a, t in SELF_TABLES.items() if t == tname}


def _try_converts_keyerror(ctx, pm, n) -> bool:
    """`n` sits in the body of a try whose KeyError/LookupError/Exception handler ends in a documented error
    (a documented `raise`, or a NoReturn helper)."""
    for tr, part in enclosing_try(pm, n):
        if part != "body":
            continue
        for hnd in tr.handlers:
            ht = unparse(hnd.type) if hnd.type is not None else ""
            if ("KeyError" in ht or "LookupError" in ht or ht in ("Exception", "BaseException", "")) \
                    and _handler_converts(ctx, hnd):
                return True
    return False


def _membership_dominates(ctx, f, pm, n, ktxt, tname) -> bool:
    """A positive `<key> in <table>` outcome dominates the lookup (nested if, early exit, comprehension filter)."""
    want = {f"{ktxt} in {sp}" for sp in _table_spellings(tname)}
    guards = list(lexical_guards(pm, n, stop=f.node))
    for gen, _ in _comp_scopes(pm, n, f.node):
        guards.extend((t, True) for t in gen.ifs)
    if any(pol and txt in want for txt, pol in guard_atoms(guards)):
        return True
    g = ctx.cfg(f)
    for node in g.nodes_containing(n):
        if any(pol and txt in want for txt, pol in guard_atoms(g.edge_guards(node))):
            return True
    return False


def _resolve_key(fnode, expr, depth=0):
    """The key expression with locals bound exactly once (`op = unary.operator`) replaced by their value."""
    if isinstance(expr, ast.Name) and depth < 3:
        v = _single_binding(fnode, expr.id)
        if v is not None and isinstance(v, (ast.Name, ast.Attribute)):
            return _resolve_key(fnode, v, depth + 1)
    return expr


@R.rule("C22-R2", floor=14, template="T-GUARD / T-EXHAUST",
        desc="lookups in OPERATORS / FUNCTIONS / extract_map / compound_keywords / BIND_TEMPLATES inside compiler "
             "classes: guarded by try/except KeyError -> documented error (in the method, or around every call of the "
             "helper that does the lookup for its caller), `key in table` test, .get(), or constant key present in the "
             "table, or operator fixed by the visitor's name and present, or enum / paramstyle domain fully covered; a "
             "call of a lookup helper counts as a lookup of its caller")
def r2(ctx):
    # floor: 14 subscripts + 3 .get() lookups + 0 helper calls on today's tree.  A lookup that moves into a helper
    # is still counted at every call of the helper (same key as the inline subscript had), and a subscript turned
    # into .get() / a membership test is still counted, so only a vanished anchor lowers the count.
    ix = ctx.index
    m = ix.module(COMP)
    tables = {}
    for t in TABLES:
        v = ctx.ev.module_value(m, t)
        ctx.require(isinstance(v, dict), f"{t} is not a literal table")
        tables[t] = v

    def keyset(t):
        return {k.short if isinstance(k, Sym) else k for k in tables[t]}

    base = ix.cls(f"{COMP}::SQLCompiler")
    styles = set(load_oracle("paramstyles.json")["styles"])
    fam = _family(ctx)
    # helpers: methods whose lookup key is one of their own parameters -- {FuncInfo.key: (FuncInfo, tname, param index)}
    helpers = {}
    pending = []   # (f, key, loc, n, tname, param index): unguarded lookups by a parameter, judged at the call sites
    seen_f = set()
    for cls in fam:
        for name, f in sorted(cls.methods.items()):
            if f.key in seen_f:
                continue
            seen_f.add(f.key)
            pm = None
            idx = {}
            for n in walk_local(f.node, into_nested=True):
                is_get = False
                if isinstance(n, ast.Subscript) and isinstance(n.ctx, ast.Load):
                    tname, kexpr = _table_of(n.value), n.slice
                elif isinstance(n, ast.Call) and isinstance(n.func, ast.Attribute) and n.func.attr == "get" and n.args:
                    tname, kexpr, is_get = _table_of(n.func.value), n.args[0], True
                else:
                    continue
                if tname is None:
                    continue
                ctx.functions_analysed.add(f.key)
                pm = pm or f.module.parents()
                ktxt = unparse(kexpr)
                shown = f"{tname}.get({ktxt})" if is_get else f"{tname}[{ktxt}]"
                idx[shown] = idx.get(shown, 0) + 1
                key = f"{f.key}:{shown}" + (f"#{idx[shown]}" if idx[shown] > 1 else "")
                loc = f"{f.module.path}:{n.lineno}"
                own_params = [p for p in f.params if p not in ("self", "cls")]
                pidx = own_params.index(kexpr.id) if isinstance(kexpr, ast.Name) and kexpr.id in own_params \
                    and _single_binding(f.node, kexpr.id) is None else None
                if pidx is not None and not _op_visitor_parts(name):
                    helpers.setdefault(f.key, (f, tname, pidx))
                if is_get:
                    ctx.ok(key, ".get(): a key outside the table yields the default, no KeyError")
                    continue
                # (a) guarded
                if _try_converts_keyerror(ctx, pm, n):
                    ctx.ok(key, "try/except KeyError -> documented error")
                    continue
                if _membership_dominates(ctx, f, pm, n, ktxt, tname):
                    ctx.ok(key, f"dominated by `{ktxt} in {tname}`")
                    continue
                rk = _resolve_key(f.node, kexpr)
                kd = dotted(rk) or ""
                # (b) constant key
                if kd.startswith("operators.") and tname == "OPERATORS":
                    ctx.check(kd.split(".", 1)[1] in keyset(tname), key, f"constant key {kd} is not in {tname}", "constant key present", loc)
                    continue
                # (c) operator fixed by the visitor's own name
                parts = _op_visitor_parts(name)
                if parts and tname == "OPERATORS" and isinstance(rk, ast.Name) and rk.id in f.params[1:3]:
                    ctx.check(parts[0] in keyset(tname), key,
                              f"{name} is dispatched for operator `{parts[0]}`, which has no entry in OPERATORS", "operator of the visitor present", loc)
                    continue
                # (d) enum / paramstyle domains
                if tname == "COMPOUND_KEYWORDS" and kd.endswith(".keyword"):
                    enum = ix.cls("sql/selectable.py::_CompoundSelectKeyword")
                    # the table evaluator resolves enum members to their values; compare by member name and value
                    members = set()
                    for st in enum.node.body:
                        if isinstance(st, ast.Assign) and isinstance(st.targets[0], ast.Name):
                            members.add(st.targets[0].id)
                    vals = {st.targets[0].id: st.value.value for st in enum.node.body
                            if isinstance(st, ast.Assign) and isinstance(st.targets[0], ast.Name) and isinstance(st.value, ast.Constant)}
                    missing = {}
                    for c2 in [base] + ix.subclasses(base):
                        if "compound_keywords" not in c2.assigns and c2 is not base:
                            continue
                        node = c2.assigns["compound_keywords"][-1] if c2 is not base else None
                        if c2 is base:
                            have = keyset("COMPOUND_KEYWORDS")
                        elif isinstance(node, ast.Call) and (call_name(node) or "").endswith("update_copy") and node.args \
                                and (dotted(node.args[0]) or "").endswith("compound_keywords"):
                            have = keyset("COMPOUND_KEYWORDS")  # copy of the base table plus overrides
                        else:
                            v = ctx.ev.class_value(c2, "compound_keywords", inherited=False)
                            ctx.require(isinstance(v, dict) and not has_unknown(v), f"{c2.key}.compound_keywords not understood")
                            have = {k.short if isinstance(k, Sym) else k for k in v}
                        lack = sorted(mm for mm in members if mm not in have and vals.get(mm) not in have)
                        if lack:
                            missing[c2.qualname] = lack
                    ctx.check(not missing, key, f"_CompoundSelectKeyword member(s) without keyword: {missing}",
                              f"all {len(members)} enum members covered in every dialect table", loc)
                    continue
                if tname == "BIND_TEMPLATES" and kd.endswith("paramstyle"):
                    ctx.check(styles <= keyset(tname), key, f"paramstyle(s) {sorted(styles - keyset(tname))} have no template",
                              "every DBAPI paramstyle has a template (dialect literals: C04-R1)", loc)
                    continue
                if pidx is not None and f.key in helpers:
                    pending.append((f, key, loc, n, tname, pidx))
                    continue
                ctx.violation(key, f"`{unparse(n)}` is indexed by a key taken from the construct without a KeyError guard: an "
                                   f"operator / field outside the table surfaces as a bare KeyError from compile()", loc)
    # calls of the lookup helpers: each one is a lookup of the caller, with the argument as key
    sites = {}   # helper key -> [(caller FuncInfo, call, guarded at the call site?)]
    if helpers:
        hnames = {h.name for h, _, _ in helpers.values()}
        done = set()
        for cls in fam:
            for name, f in sorted(cls.methods.items()):
                if f.key in done or not any(hn in f.module.source for hn in hnames):
                    continue
                done.add(f.key)
                pm = None
                for c in calls_in(f.node, into_nested=True):
                    if not (isinstance(c.func, ast.Attribute) and c.func.attr in hnames and unparse(c.func.value) == "self"):
                        continue
                    tgt = ix.resolve_method(cls, c.func.attr)
                    if tgt is None or tgt.key not in helpers or tgt.node is f.node:
                        continue
                    pm = pm or f.module.parents()
                    sites.setdefault(tgt.key, []).append((f, c, _try_converts_keyerror(ctx, pm, c)))
    unguarded_helpers = {}
    for f, key, loc, n, tname, pidx in pending:
        callers = sites.get(f.key, [])
        bad = [f"{cf.qualname} (L{c.lineno})" for cf, c, guarded in callers if not guarded]
        if callers and not bad:
            ctx.ok(key, f"KeyError converted to a documented error around every call ({len(callers)}) of this helper")
        else:
            unguarded_helpers[f.key] = True
            ctx.violation(key, f"`{unparse(n)}` is indexed by a key taken from the construct without a KeyError guard"
                               + (f", and neither is the call in {', '.join(bad)}" if bad else "")
                               + ": an operator / field outside the table surfaces as a bare KeyError from compile()", loc)
    count = {}
    for hk, lst in sorted(sites.items()):
        h, tname, pidx = helpers[hk]
        hparams = [p for p in h.params if p not in ("self", "cls")]
        for cf, c, guarded in lst:
            arg = c.args[pidx] if pidx < len(c.args) and not any(isinstance(a, ast.Starred) for a in c.args[:pidx + 1]) else None
            if arg is None:
                for k in c.keywords:
                    if k.arg == hparams[pidx]:
                        arg = k.value
            ctx.require(arg is not None, f"{cf.key}: call of lookup helper {h.qualname} without the key argument (unknown idiom)")
            ctx.functions_analysed.add(cf.key)
            shown = f"{tname}[{unparse(arg)}]"
            count[(cf.key, shown)] = count.get((cf.key, shown), 0) + 1
            k2 = f"{cf.key}:{shown}" + (f"#{count[(cf.key, shown)]}" if count[(cf.key, shown)] > 1 else "")
            # the verdict on the lookup itself is recorded once, at the helper
            ctx.ok(k2, f"looked up through {h.qualname}" + (" (judged there)" if hk not in unguarded_helpers or guarded
                                                            else " (unguarded: reported at the helper)"))


# ------------------------------------------------------------------------------------------ R3
@R.rule("C22-R3", floor=93, template="T-EXHAUST (signature agreement)",
        desc="every visit_<op>_{binary,unary_operator,unary_modifier,expression_clauselist} method of a compiler names an "
             "operator function of sql.operators and can be called as m(element, operator, **kw)")
def r3(ctx):
    ix = ctx.index
    opm = ix.module("sql/operators.py")
    opnames = set(opm.functions) | set(opm.assigns)
    base = ix.cls(f"{COMP}::SQLCompiler")
    disp = base.methods.get("_get_operator_dispatch")
    ctx.require(disp is not None and any(isinstance(n, ast.Constant) and n.value == "visit_%s_%s%s" for n in ast.walk(disp.node)),
                "_get_operator_dispatch naming scheme changed")
    # _get_custom_operator_dispatch: visit_<visit_name>_op_<qualifier> for custom_op(..., visit_name=...)
    custom = set()
    for mod in ix.all_modules():
        if "visit_name" not in mod.source:
            continue
        for n in ast.walk(mod.tree):
            if isinstance(n, ast.Call):
                for k in n.keywords:
                    if k.arg == "visit_name" and isinstance(k.value, ast.Constant) and isinstance(k.value.value, str):
                        custom.add(k.value.value)
    for cls in [base] + sorted(ix.subclasses(base), key=lambda c: c.key):
        for name, f in sorted(cls.methods.items()):
            parts = _op_visitor_parts(name)
            if not parts or not parts[0]:
                continue
            stem, suffix = parts
            ctx.functions_analysed.add(f.key)
            key = f"{cls.key}.{name}"
            a = f.node.args
            npos = len(a.posonlyargs) + len(a.args) - 1  # without self
            nreq = npos - len(a.defaults)
            problems = []
            if stem not in opnames and not (stem.endswith("_op") and stem[:-3] in custom) and stem != "custom_op":  # noqa
                problems.append(f"`{stem}` is not an operator in sql.operators: the visitor is never dispatched")
            if not (a.vararg is not None or npos >= 2):
                problems.append("cannot take (element, operator) positionally")
            if nreq > 2:
                problems.append(f"requires {nreq} positional arguments, the dispatcher passes 2")
            if a.kwarg is None:
                problems.append("has no **kw: compile keyword arguments raise TypeError")
            if any(d is None for d in a.kw_defaults):
                problems.append("has a required keyword-only argument")
            ctx.check(not problems, key, "; ".join(problems), "", f.loc, nontrivial=False)


# ------------------------------------------------------------------------------------------ R4
def _units(ctx):
    """Compile-time code units: methods of every compiler / type compiler / preparer class, functions of crud.py."""
    ix = ctx.index
    units, seen = [], set()
    for cls in _family(ctx):
        for name, f in sorted(cls.methods.items()):
            if f.key not in seen:
                seen.add(f.key)
                units.append(f)
    for f in ix.all_functions(ix.module(CRUD)):
        if f.key not in seen:
            seen.add(f.key)
            units.append(f)
    return units


def _keyerror_guarded(pm, n) -> bool:
    for tr, part in enclosing_try(pm, n):
        if part != "body":
            continue
        for hnd in tr.handlers:
            ht = unparse(hnd.type) if hnd.type is not None else ""
            if ("KeyError" in ht or "LookupError" in ht or ht in ("Exception", "")) and any(
                    isinstance(x, ast.Raise) and (raised_name(x) or "").rsplit(".", 1)[-1] in DOCUMENTED
                    for x in ast.walk(hnd)):
                return True
    return False


COLLECTION_ATTRS = ("c", "columns")


def _single_binding(fnode, name):
    vals = [(v, st) for nm, v, st in name_stores(fnode, into_nested=True) if nm == name]
    if len(vals) == 1 and vals[0][0] is not None and isinstance(vals[0][1], (ast.Assign, ast.AnnAssign)):
        return vals[0][0]
    return None


def _collection_receiver(fnode, recv):
    """Spellings of the receiver when `recv` denotes a column collection (`<x>.c`, `<x>.columns`, or a local bound once
    to one), else None.  `<x>.c` and `<x>.columns` are the same collection."""
    d = dotted(recv)
    if d is None or d.endswith("()"):
        return None
    spell = {d}
    if isinstance(recv, ast.Name):
        v = _single_binding(fnode, recv.id)
        d2 = dotted(v) if v is not None else None
        if d2 is None or "." not in d2 or d2.rsplit(".", 1)[1] not in COLLECTION_ATTRS:
            return None
        d = d2
        spell.add(d)
    elif "." not in d or d.rsplit(".", 1)[1] not in COLLECTION_ATTRS:
        return None
    base = d.rsplit(".", 1)[0]
    spell.update(f"{base}.{a}" for a in COLLECTION_ATTRS)
    return spell


def _comp_scopes(pm, n, stop):
    """[(comprehension generator, enclosing comprehension expr)] in whose scope `n` is evaluated (innermost first)."""
    out = []
    child = n
    for anc in ancestors(pm, n):
        if anc is stop:
            break
        if isinstance(anc, (ast.ListComp, ast.SetComp, ast.GeneratorExp, ast.DictComp)):
            for i, gen in enumerate(anc.generators):
                if child is gen:
                    # n sits in generator i (its iter / ifs): generators before it, and its own earlier ifs
                    out.extend((g2, anc) for g2 in anc.generators[:i])
                    if any(n is x for t in gen.ifs for x in ast.walk(t)):
                        out.append((gen, anc))
                    break
            else:
                out.extend((g2, anc) for g2 in anc.generators)
        child = anc
    return out


def _membership_guarded(ctx, f, pm, n, key_txt, spell) -> str:
    want = {f"{key_txt} in {r}" for r in spell}
    guards = list(lexical_guards(pm, n, stop=f.node))
    for gen, _ in _comp_scopes(pm, n, f.node):
        guards.extend((t, True) for t in gen.ifs)
    if any(pol and txt in want for txt, pol in guard_atoms(guards)):
        return "membership test on the same collection"
    g = ctx.cfg(f)
    for node in g.nodes_containing(n):
        if any(pol and txt in want for txt, pol in guard_atoms(g.edge_guards(node))):
            return "membership test on the same collection (early exit)"
    return ""


def _loop_source(pm, n, name, stop):
    """Iterable expression of the innermost comprehension generator / for statement that binds `name` around n."""
    for gen, _ in _comp_scopes(pm, n, stop):
        if isinstance(gen.target, ast.Name) and gen.target.id == name:
            return gen.iter
    for anc in ancestors(pm, n):
        if anc is stop:
            break
        if isinstance(anc, (ast.For, ast.AsyncFor)) and isinstance(anc.target, ast.Name) and anc.target.id == name:
            return anc.iter
    return None


def _key_from_collection(f, pm, n, spell) -> str:
    """The key is a loop variable over `<coll>.keys()`, or over a local list that was filtered by membership in <coll>."""
    if not isinstance(n.slice, ast.Name):
        return ""
    it = _loop_source(pm, n, n.slice.id, f.node)
    if it is None:
        return ""
    if isinstance(it, ast.Call) and isinstance(it.func, ast.Attribute) and it.func.attr == "keys" and dotted(it.func.value) in spell:
        return "key iterates over the collection's own keys"
    if isinstance(it, ast.Name):
        src = _single_binding(f.node, it.id)
        if isinstance(src, (ast.ListComp, ast.SetComp, ast.GeneratorExp)) and isinstance(src.elt, ast.Name):
            e = src.elt.id
            atoms = guard_atoms([(t, True) for gen in src.generators for t in gen.ifs])
            if any(pol and txt in {f"{e} in {r}" for r in spell} for txt, pol in atoms):
                return "key iterates over a list pre-filtered by membership in the collection"
    return ""


@R.rule("C22-R4", floor=4, template="T-GUARD",
        desc="column-collection lookups `<x>.c[key]` / `<x>.columns[key]` by a non-constant key in compiler classes and "
             "crud.py are guarded: `key in <same collection>` dominates, or try/except KeyError -> documented error, or "
             "the key is drawn from the collection itself")
def r4(ctx):
    for f in _units(ctx):
        pm = None
        idx = {}
        for n in walk_local(f.node, into_nested=True):
            if not (isinstance(n, ast.Subscript) and isinstance(n.ctx, ast.Load)):
                continue
            if isinstance(n.slice, ast.Slice) or (isinstance(n.slice, ast.Constant) and isinstance(n.slice.value, int)) \
                    or (isinstance(n.slice, ast.UnaryOp) and isinstance(n.slice.operand, ast.Constant)):
                continue  # positional access, not a key lookup
            spell = _collection_receiver(f.node, n.value)
            if spell is None:
                continue
            ctx.functions_analysed.add(f.key)
            pm = pm or parent_map(f.node)
            rd = dotted(n.value)
            idx[rd] = idx.get(rd, 0) + 1
            key = f"{f.key}:{rd}[]" + (f"#{idx[rd]}" if idx[rd] > 1 else "")
            loc = f"{f.module.path}:{n.lineno}"
            how = ("try/except KeyError -> documented error" if _keyerror_guarded(pm, n) else "") \
                or _membership_guarded(ctx, f, pm, n, unparse(n.slice), spell) or _key_from_collection(f, pm, n, spell)
            ctx.check(bool(how), key,
                      f"`{unparse(n)}` looks a user-supplied key up in a column collection with no `{unparse(n.slice)} in {rd}` "
                      f"test and no KeyError guard: a name that is not a column of the table surfaces as a bare KeyError from "
                      f"compile() instead of a documented error (or being skipped)", how, loc)


# ------------------------------------------------------------------------------------------ R5
_HARMLESS_BASES = {"Generic", "object", "Protocol", "Enum", "IntEnum", "NamedTuple", "TypedDict", "Exception", "str", "int"}
_DEFS_CACHE: dict = {}


def _own_attrs(ci: ClassInfo):
    hit = _DEFS_CACHE.get(id(ci.node))
    if hit is not None and hit[0] is ci.node:
        return hit[1]
    names = set(ci.methods) | set(ci.assigns) | set(ci.nested)
    for st in ast.walk(ci.node):
        if isinstance(st, ast.AnnAssign) and isinstance(st.target, ast.Name):
            names.add(st.target.id)
        elif isinstance(st, (ast.FunctionDef, ast.AsyncFunctionDef, ast.ClassDef)):
            names.add(st.name)
        elif isinstance(st, ast.Attribute) and isinstance(st.ctx, ast.Store) and isinstance(st.value, ast.Name) \
                and st.value.id in ("self", "cls"):
            names.add(st.attr)
    for v in ci.assigns.get("__slots__", []):
        for e in ast.walk(v):
            if isinstance(e, ast.Constant) and isinstance(e.value, str):
                names.add(e.value)
    _DEFS_CACHE[id(ci.node)] = (ci.node, names)
    return names


def _defines(ix, ci: ClassInfo, attr: str):
    """True / False / None (hierarchy not fully known, or dynamic attribute protocol)."""
    unknown = False
    for k in ix.mro(ci):
        own = _own_attrs(k)
        if attr in own:
            return True
        if "__getattr__" in own or "__getattribute__" in own:
            unknown = True
        for b, e in zip(k.bases, k.base_exprs):
            if b is None and e.rsplit(".", 1)[-1] not in _HARMLESS_BASES:
                unknown = True
    return None if unknown else False


def _atoms_ast(test, pol=True):
    if isinstance(test, ast.UnaryOp) and isinstance(test.op, ast.Not):
        return _atoms_ast(test.operand, not pol)
    if isinstance(test, ast.BoolOp) and ((isinstance(test.op, ast.And) and pol) or (isinstance(test.op, ast.Or) and not pol)):
        out = []
        for v in test.values:
            out.extend(_atoms_ast(v, pol))
        return out
    return [(test, pol)]


def _isinstance_atom(ix, module, node):
    """(variable name, [ClassInfo]) for `isinstance(<Name>, C | (C1, C2))` with package classes, else None."""
    if not (isinstance(node, ast.Call) and isinstance(node.func, ast.Name) and node.func.id == "isinstance"
            and len(node.args) == 2 and isinstance(node.args[0], ast.Name)):
        return None
    exprs = node.args[1].elts if isinstance(node.args[1], ast.Tuple) else [node.args[1]]
    classes = []
    for e in exprs:
        d = dotted(e)
        c = ix.resolve(module, d) if d else None
        if not isinstance(c, ClassInfo):
            return None
        classes.append(c)
    return node.args[0].id, classes


def _ends_in_documented_raise(body) -> bool:
    return bool(body) and isinstance(body[-1], ast.Raise) and (raised_name(body[-1]) or "").rsplit(".", 1)[-1] in DOCUMENTED


def _visit_name_classes(ctx):
    """{__visit_name__ constant: [classes declaring it]} (cached per run)."""
    cache = ctx.__dict__.get("_c22_by_visit_name")
    if cache is None:
        cache = {}
        for c in ctx.index.all_classes():
            for v in c.assigns.get("__visit_name__", []):
                if isinstance(v, ast.Constant) and isinstance(v.value, str):
                    cache.setdefault(v.value, []).append(c)
        ctx.__dict__["_c22_by_visit_name"] = cache
    return cache


def _universe(ctx, f, var):
    """Classes the variable can statically be, when the code says so: annotated parameter, or the element
    parameter of a `visit_<name>` method (dispatch by __visit_name__).  None = unknown."""
    ix = ctx.index
    a = f.node.args
    params = a.posonlyargs + a.args + a.kwonlyargs
    for arg in params:
        if arg.arg == var and arg.annotation is not None:
            ann = arg.annotation
            if isinstance(ann, ast.Constant) and isinstance(ann.value, str):
                try:
                    ann = ast.parse(ann.value, mode="eval").body
                except SyntaxError:
                    return None
            if isinstance(ann, ast.Subscript):
                ann = ann.value
            c = ix.resolve(f.module, dotted(ann) or "")
            if isinstance(c, ClassInfo):
                return [c] + ix.subclasses(c)
            return None
    if f.cls is not None and f.name.startswith("visit_") and len(f.params) > 1 and f.params[1] == var:
        vn = f.name[len("visit_"):]
        out = []
        for c in _visit_name_classes(ctx).get(vn, []):
            out.append(c)
            out.extend(ix.subclasses(c))
        return out or None
    return None


def _lacking_witness(ix, excluded, attr):
    """A class outside the excluded hierarchy, closest to it, that has no attribute `attr`."""
    ex = set()
    for d in excluded:
        ex.add(d.key)
        ex.update(s.key for s in ix.subclasses(d))
    anc = {}
    for d in excluded:
        for k in ix.mro(d)[1:]:
            anc[k.key] = k
    best = None
    seen = set()
    for k in anc.values():
        for c in ix.subclasses(k):
            if c.key in ex or c.key in seen or c.key in anc:
                continue
            seen.add(c.key)
            if _defines(ix, c, attr) is False:
                score = (sum(1 for m in ix.mro(c) if m.key in anc), "__visit_name__" in c.assigns, c.key)
                if best is None or score > best[0]:
                    best = (score, c)
    return best[1] if best else None


@R.rule("C22-R5", floor=3, template="T-GUARD",
        desc="class guards that raise (`if [not] isinstance(x, C): raise CompileError`) in compiler "
             "classes and crud.py: every attribute read on x after the guard is defined by a class positively "
             "established for x on that path (a guard that only excludes classes establishes none)")
def r5(ctx):
    ix = ctx.index
    for f in _units(ctx):
        if "isinstance" not in f.module.source:
            continue
        sites = []
        for n in walk_local(f.node, into_nested=False):
            if not isinstance(n, ast.If):
                continue
            for arm, pol in ((n.body, True), (n.orelse, False)):
                # any raise: whether the raised class is a documented one is C22-R1's business
                if not (arm and isinstance(arm[-1], ast.Raise)):
                    continue
                atoms = _atoms_ast(n.test, pol)
                if len(atoms) != 1:
                    continue
                ia = _isinstance_atom(ix, f.module, atoms[0][0])
                if ia is not None:
                    sites.append((n, pol, ia[0], ia[1], atoms[0][1]))
        if not sites:
            continue
        ctx.functions_analysed.add(f.key)
        g = ctx.cfg(f)
        count = {}
        for ifnode, raise_pol, var, classes, inst_pol in sites:
            # inst_pol: polarity of isinstance(...) on the RAISING arm; False = whitelist (raise unless instance)
            count[var] = count.get(var, 0) + 1
            key = f"{f.key}:class-guard:{var}" + (f"#{count[var]}" if count[var] > 1 else "")
            loc = f"{f.module.path}:{ifnode.lineno}"
            tnodes = [t.id for t in g.nodes if t.kind == "test" and t.stmt is ifnode]
            ctx.require(tnodes, f"{key}: guard has no CFG test node")
            pass_lab = "false" if raise_pol else "true"
            pass_succ = [b for t in tnodes for b, lab in g.succ[t] if lab == pass_lab]
            if not pass_succ:
                ctx.ok(key, "nothing follows the guard")
                continue
            cut = {(t, pass_lab) for t in tnodes}
            outside = g.reachable([g.entry], edge_ok=lambda a, b, lab: (a, lab) not in cut)
            region = g.reachable(pass_succ, edge_ok=lambda a, b, lab: lab != "exc") - outside
            # stop following x where it is rebound to something that is not `x.<method>(...)` returning Self
            killed = set()
            for nid in sorted(region):
                st = g.nodes[nid].stmt
                if g.nodes[nid].kind != "stmt" or not isinstance(st, (ast.Assign, ast.AnnAssign, ast.AugAssign, ast.Delete)):
                    continue
                tg = st.targets if isinstance(st, (ast.Assign, ast.Delete)) else [st.target]
                if not any(isinstance(x, ast.Name) and x.id == var for t in tg for x in ast.walk(t) if isinstance(x, ast.Name) and isinstance(x.ctx, (ast.Store, ast.Del))):
                    continue
                v = getattr(st, "value", None)
                same = False
                if isinstance(v, ast.Call) and isinstance(v.func, ast.Attribute) and isinstance(v.func.value, ast.Name) and v.func.value.id == var:
                    for c in classes:
                        m = ix.resolve_method(c, v.func.attr)
                        r = m.node.returns if m is not None else None
                        if r is not None and unparse(r).strip("'\"") in ("Self", "SelfT"):
                            same = True
                if not same:
                    killed |= g.reachable([b for b, lab in g.succ[nid] if lab != "exc"], edge_ok=lambda a, b, lab: lab != "exc")
            region -= killed
            universe = _universe(ctx, f, var)
            bad, n_reads = [], 0
            for nid in sorted(region):
                node = g.nodes[nid]
                if node.stmt is None or node.kind in ("with_exit", "join", "handler"):
                    continue
                from ..astutil import own_exprs
                parts = own_exprs(node.stmt) if isinstance(node.stmt, ast.stmt) else []
                reads = sorted({x.attr for p in parts for x in ast.walk(p)
                                if isinstance(x, ast.Attribute) and isinstance(x.ctx, ast.Load)
                                and isinstance(x.value, ast.Name) and x.value.id == var})
                if not reads:
                    continue
                pos = []
                neg = []
                for t, pol in g.edge_guards(nid):
                    for a, p2 in _atoms_ast(t, pol):
                        ia = _isinstance_atom(ix, f.module, a)
                        if ia is not None and ia[0] == var:
                            (pos if p2 else neg).append(ia[1])
                for attr in reads:
                    n_reads += 1
                    if pos:
                        # isinstance(x, (A, B)) establishes A-or-B: every alternative must define the attribute
                        est = [all(_defines(ix, c, attr) is not False for c in alt) for alt in pos]
                        if not any(est):
                            names = " / ".join(sorted({c.name for alt in pos for c in alt}))
                            bad.append(f"`{var}.{attr}` (L{node.stmt.lineno}): not defined by {names}, the class the guard establishes")
                        continue
                    excluded = [c for alt in neg for c in alt]
                    if universe is not None:
                        exk = set()
                        for d in excluded:
                            exk.add(d.key)
                            exk.update(s.key for s in ix.subclasses(d))
                        lack = [c for c in universe if c.key not in exk and _defines(ix, c, attr) is False]
                        if lack:
                            bad.append(f"`{var}.{attr}` (L{node.stmt.lineno}): {lack[0].name} is admitted by the guard and has no such attribute")
                        continue
                    w = _lacking_witness(ix, excluded, attr) if excluded else None
                    if w is not None:
                        names = " / ".join(sorted({c.name for c in excluded}))
                        bad.append(f"`{var}.{attr}` (L{node.stmt.lineno}): the guard only excludes {names}; e.g. {w.name} passes it "
                                   f"and has no attribute `{attr}`")
            kind = "whitelist" if not inst_pol else "blacklist"
            ctx.check(not bad, key,
                      f"the {kind} guard `{unparse(ifnode.test)}` -> {raised_name(ifnode.body[-1] if raise_pol else ifnode.orelse[-1])} does not establish "
                      f"the attributes used after it: " + "; ".join(bad) + " -- such a construct reaches the attribute access and "
                      "compile() fails with AttributeError instead of the documented error",
                      f"{kind} guard on {' / '.join(c.name for c in classes)}; {n_reads} attribute read(s) on `{var}` after it all established",
                      loc)


# ------------------------------------------------------------------------------------------ R6
PRECOND_BASES = ("SQLCompiler", "DDLCompiler", "GenericTypeCompiler")


def _path_of(expr, env):
    parts = []
    cur = expr
    while isinstance(cur, ast.Attribute):
        parts.append(cur.attr)
        cur = cur.value
    if isinstance(cur, ast.Name) and cur.id in env:
        return ".".join([env[cur.id]] + parts[::-1])
    return None


def _local_env(fn, env0):
    """(env, bindings): env maps parameter names and locals bound exactly once to an attribute chain of a
    parameter onto a normalised path (`arg0.element.name`); bindings = every local binding."""
    env = dict(env0)
    bindings = {}
    for nm, v, st in name_stores(fn, into_nested=False):
        bindings.setdefault(nm, []).append((v, st))
    changed = True
    while changed:
        changed = False
        for nm, bs in bindings.items():
            if nm in env or len(bs) != 1 or bs[0][0] is None:
                continue
            pth = _path_of(bs[0][0], env)
            if pth:
                env[nm] = pth
                changed = True
    return env, bindings


class _Norm(ast.NodeTransformer):
    def __init__(self, env):
        self.env = env

    def visit_Attribute(self, node):
        pth = _path_of(node, self.env)
        if pth:
            return ast.Name(id=pth, ctx=ast.Load())
        return self.generic_visit(node)

    def visit_Name(self, node):
        if node.id in self.env:
            return ast.Name(id=self.env[node.id], ctx=ast.Load())
        return node


def _norm_text(expr, env):
    import copy
    return unparse(_Norm(env).visit(copy.deepcopy(expr)))


def _chains(expr, env):
    out = set()

    def rec(n):
        pth = _path_of(n, env) if isinstance(n, (ast.Attribute, ast.Name)) else None
        if pth:
            out.add(pth)
            return
        for c in ast.iter_child_nodes(n):
            rec(c)
    rec(expr)
    return out


def _paths(expr, env, bindings, pm):
    """Element paths a test depends on: chains it mentions, plus (one level) the chains in the values and branch
    conditions of the bindings of every other local it mentions."""
    out = _chains(expr, env)
    for n in ast.walk(expr):
        if isinstance(n, ast.Name) and n.id not in env and n.id in bindings:
            for v, st in bindings[n.id]:
                if v is not None:
                    out |= _chains(v, env)
                for t, _ in lexical_guards(pm, st):
                    out |= _chains(t, env)
    return {x for x in out if "." in x}


def _guards_of(ctx, cls, fn, env0, depth, top_only=False, pure_helpers_only=False, seen=None):
    """[(atoms {(normalised text, polarity)}, paths, where)] for documented-raise guards of `fn` and of the helpers it
    calls as `self.h(...)` / `self.preparer.h(...)` (arguments mapped onto the helper's parameters)."""
    ix = ctx.index
    seen = seen or set()
    env, bindings = _local_env(fn, env0)
    pm = parent_map(fn)
    out = []
    stmts = list(fn.body) if top_only else [n for n in walk_local(fn, into_nested=False) if isinstance(n, ast.stmt)]
    for st in stmts:
        if isinstance(st, ast.If):
            for arm, pol in ((st.body, True), (st.orelse, False)):
                if _ends_in_documented_raise(arm):
                    atoms = {(_norm_text(a, env), p2) for a, p2 in _atoms_ast(st.test, pol)}
                    out.append((atoms, _paths(st.test, env, bindings, pm), f"{fn.name}:L{st.lineno}",
                                (unparse(st.test) if pol else f"not ({unparse(st.test)})")))
    if depth <= 0:
        return out
    prep = ix.cls(f"{COMP}::IdentifierPreparer")
    calls = []
    for st in stmts:
        if top_only and not (isinstance(st, ast.Expr) and isinstance(st.value, ast.Call)):
            continue
        from ..astutil import own_exprs
        for part in (own_exprs(st) if not isinstance(st, (ast.FunctionDef, ast.AsyncFunctionDef, ast.ClassDef)) else []):
            calls.extend(calls_in(part))
    for c in calls:
        nm = call_name(c) or ""
        target = None
        if nm.startswith("self.preparer.") and nm.count(".") == 2:
            target = ix.resolve_method(prep, nm.rsplit(".", 1)[1])
        elif nm.startswith("self.") and nm.count(".") == 1 and cls is not None:
            target = ix.resolve_method(cls, nm[5:])
        if target is None or target.key in seen or target.node is fn:
            continue
        if pure_helpers_only:
            body = [x for x in target.node.body if not (isinstance(x, ast.Expr) and isinstance(x.value, ast.Constant))]
            if not body or not all(isinstance(x, ast.If) and _ends_in_documented_raise(x.body) and not x.orelse for x in body):
                continue
        a = target.node.args
        names = [x.arg for x in a.posonlyargs + a.args][1:]
        env2 = {}
        for i, arg in enumerate(c.args):
            if i < len(names):
                pth = _path_of(arg, env)
                if pth:
                    env2[names[i]] = pth
        for k in c.keywords:
            if k.arg in names:
                pth = _path_of(k.value, env)
                if pth:
                    env2[k.arg] = pth
        if not env2:
            continue
        ctx.functions_analysed.add(target.key)
        out.extend(_guards_of(ctx, target.cls if nm.startswith("self.preparer.") else cls, target.node, env2, depth - 1,
                              seen=seen | {target.key}))
    return out


@R.rule("C22-R6", floor=12, template="T-SIBLING",
        desc="a dialect override of a base compiler visitor that does not delegate to super() keeps every unconditional "
             "documented-error precondition of the base visitor (same test on the visited element -> documented raise, "
             "in the override itself or in a self./self.preparer. helper it calls)")
def r6(ctx):
    ix = ctx.index
    for bname in PRECOND_BASES:
        base = ix.cls(f"{COMP}::{bname}")
        subs = sorted(ix.subclasses(base), key=lambda c: c.key)
        for name, bf in sorted(base.methods.items()):
            overrides = [c for c in subs if name in c.methods]
            if not overrides:
                continue
            a = bf.node.args
            bparams = [x.arg for x in a.posonlyargs + a.args][1:]
            if not bparams:
                continue
            pre = _guards_of(ctx, base, bf.node, {p: f"arg{i}" for i, p in enumerate(bparams)}, 1, top_only=True,
                             pure_helpers_only=True)
            pre = [x for x in pre if x[1]]
            if not pre:
                continue
            ctx.functions_analysed.add(bf.key)
            for c in overrides:
                of = c.methods[name]
                ctx.functions_analysed.add(of.key)
                delegates = any((call_name(x) or "") == f"super().{name}" for x in calls_in(of.node))
                oa = of.node.args
                oparams = [x.arg for x in oa.posonlyargs + oa.args][1:]
                have = None
                for atoms, paths, where, shown in pre:
                    simple = all(_is_simple(t) for t, _ in atoms)
                    label = (" and ".join(sorted(("" if pol else "not ") + txt for txt, pol in atoms)) if simple
                             else "test over " + ", ".join(sorted(paths)))
                    key = f"{of.key}:precondition:{label}"
                    if delegates:
                        ctx.ok(key, "delegates to super()")
                        continue
                    if have is None:
                        have = _guards_of(ctx, c, of.node, {p: f"arg{i}" for i, p in enumerate(oparams)}, 2)
                    # same atom, or -- when either side tests a derived local -- a documented guard over the same element path
                    hit = [w for at2, p2, w, _ in have
                           if (atoms & at2) or ((paths & p2) and not (simple and all(_is_simple(t) for t, _ in at2)))]
                    ctx.check(bool(hit), key,
                              f"{bf.qualname} raises a documented error when `{shown}` ({where}); the override {of.qualname} does "
                              f"not call super() and has no such check (itself or in the self./self.preparer. helpers it calls): "
                              f"the construct reaches the name/table formatting and compile() fails with an internal error "
                              f"(AssertionError / AttributeError) on this dialect",
                              f"checked at {hit[0] if hit else ''}", of.loc)


def _is_simple(txt: str) -> bool:
    """`argN.a.b is None`-style atom: a single path compared with a constant."""
    head = txt.split(" ", 1)[0]
    return head.startswith("arg") and all(part.isidentifier() for part in head.split("."))


# ------------------------------------------------------------------------------------------ R7
STACK_ENTRY = f"{COMP}::_CompilerStackEntry"


def _typeddict_keys(ci: ClassInfo):
    return [st.target.id for st in ci.node.body if isinstance(st, ast.AnnAssign) and isinstance(st.target, ast.Name)]


def _handler_converts(ctx, hnd) -> bool:
    """The handler ends every KeyError in a documented error: a documented `raise`, or a call of a NoReturn helper."""
    for x in ast.walk(hnd):
        if isinstance(x, ast.Raise) and (raised_name(x) or "").rsplit(".", 1)[-1] in DOCUMENTED:
            return True
    last = hnd.body[-1] if hnd.body else None
    if isinstance(last, ast.Expr) and isinstance(last.value, ast.Call):
        return (call_name(last.value) or "").rsplit(".", 1)[-1] in ctx.noreturn_names()
    return False


def _mentions(expr, name) -> bool:
    return any(isinstance(x, ast.Name) and x.id == name for x in ast.walk(expr))


@R.rule("C22-R7", floor=7, template="T-GUARD / T-SIBLING",
        desc="reads `<entry>[\"k\"]` of the optional (total=False) keys of the compiler stack entry TypedDict in compiler "
             "classes and crud.py: inside try/except KeyError -> documented error, or dominated by a store of the same "
             "key on the same receiver in the same function, or by a `\"k\" in <entry>` test; or, when the read depends on "
             "a dispatch keyword parameter (compound_index), every visitor taking that parameter writes the key")
def r7(ctx):
    ix = ctx.index
    ent = ix.cls(STACK_ENTRY)
    total_false = any(k.arg == "total" and isinstance(k.value, ast.Constant) and k.value.value is False for k in ent.node.keywords)
    optional = set(_typeddict_keys(ent)) if total_false else set()
    required = {k for b in ent.bases if b is not None for k in _typeddict_keys(b)}
    ctx.require(optional and required and not (optional & required),
                "_CompilerStackEntry is no longer a total=False TypedDict over a required base: optional keys not understood")
    units = _units(ctx)
    protocols = {}
    for f in units:
        if not any(f'"{k}"' in f.module.source for k in optional):
            continue
        pm = None
        idx = {}
        for n in walk_local(f.node, into_nested=True):
            if not (isinstance(n, ast.Subscript) and isinstance(n.ctx, ast.Load) and isinstance(n.slice, ast.Constant)
                    and n.slice.value in optional):
                continue
            k = n.slice.value
            ctx.functions_analysed.add(f.key)
            pm = pm or parent_map(f.node)
            idx[k] = idx.get(k, 0) + 1
            key = f"{f.key}:stack-entry[{k}]" + (f"#{idx[k]}" if idx[k] > 1 else "")
            loc = f"{f.module.path}:{n.lineno}"
            recv = unparse(n.value)
            how = ""
            for tr, part in enclosing_try(pm, n):
                if part == "body" and any(
                        (h.type is None or any(t in unparse(h.type) for t in ("KeyError", "LookupError", "Exception")))
                        and _handler_converts(ctx, h) for h in tr.handlers):
                    how = "try/except KeyError -> documented error"
            if not how:
                g = ctx.cfg(f)
                stores = []
                for x in walk_local(f.node, into_nested=False):
                    if isinstance(x, ast.Subscript) and isinstance(x.ctx, ast.Store) and isinstance(x.slice, ast.Constant) \
                            and x.slice.value == k and unparse(x.value) == recv:
                        stores.extend(g.nodes_containing(x))
                here = g.nodes_containing(n)
                guards = [gd for h in here for gd in g.edge_guards(h)] + lexical_guards(pm, n, stop=f.node)
                if stores and here and all(g.always_preceded(h, stores) is None for h in here):
                    how = "written on every path before the read"
                elif any(pol and txt == f"{k!r} in {recv}" for txt, pol in guard_atoms(guards)):
                    how = "membership test"
                else:
                    own = f.params[1:] if f.cls is not None else f.params
                    for prm in own[1:]:  # not the visited element itself: a keyword of the dispatch protocol
                        if any(_mentions(t, prm) for t, _ in guards) and sum(1 for u in units if prm in u.params) >= 2:
                            protocols.setdefault((k, prm), []).append(f.qualname)
                            how = f"depends on the dispatch parameter `{prm}`: writers judged per visitor taking `{prm}`"
                            break
            ctx.check(bool(how), key,
                      f"`{unparse(n)}` reads the optional stack-entry key {k!r} (declared total=False) with no KeyError guard, no "
                      f"preceding store in this function and no membership test: when the enclosing visitor did not set it, "
                      f"compile() fails with a bare KeyError", how, loc)
    # protocol keys: every compile unit that takes the parameter writes the key under a test of it, itself or through a
    # self.helper to which it passes the parameter
    for (k, prm), readers in sorted(protocols.items()):
        parts = [u for u in units if prm in u.params]
        ctx.require(len(parts) >= 2, f"no visitors take `{prm}`: protocol of stack-entry key {k!r} not understood")

        def writes(u):
            pm = parent_map(u.node)
            for x in walk_local(u.node, into_nested=False):
                if isinstance(x, ast.Subscript) and isinstance(x.ctx, ast.Store) and isinstance(x.slice, ast.Constant) \
                        and x.slice.value == k and any(_mentions(t, prm) for t, _ in lexical_guards(pm, x, stop=u.node)):
                    return True
            return False
        direct = {u.key for u in parts if writes(u)}
        for u in sorted(parts, key=lambda u: u.key):
            ctx.functions_analysed.add(u.key)
            via = None
            if u.key not in direct and u.cls is not None:
                for c in calls_in(u.node):
                    nm = call_name(c) or ""
                    if nm.startswith("self.") and nm.count(".") == 1 and (
                            any(isinstance(a, ast.Name) and a.id == prm for a in c.args)
                            or any(kw.arg == prm and _mentions(kw.value, prm) for kw in c.keywords)):
                        h = ix.resolve_method(u.cls, nm[5:])
                        if h is not None and h.key in direct:
                            via = h.qualname
            ctx.check(u.key in direct or via is not None, f"{u.key}:stack-entry[{k}]:written-under-{prm}",
                      f"{u.qualname} takes the dispatch parameter `{prm}` but never stores the stack-entry key {k!r} under a test of it "
                      f"(nor through a helper it passes `{prm}` to), while {', '.join(sorted(set(readers)))} reads `[{k!r}]` unguarded for the "
                      f"following members: when this visitor handles member 0 the next member fails with a bare KeyError({k!r})",
                      f"stores {k!r} under a test of `{prm}`" + (f" via {via}" if via else ""), u.loc)


# ------------------------------------------------------------------------------------------ R8 / R9 (round 2, str2-i)
# Two members of the "typed value reaches a use that needs a narrower type" family.  Both start from what a construct's
# CONSTRUCTOR accepts (a role coercion whose implementation hands strings through and otherwise keeps the expression:
# coercions._ReturnsStringKey) and follow the value into the compiler:
#   R8  members of a column-collection constraint (UNIQUE / PRIMARY KEY / ...) are *named column expressions* --
#       `column("x")` is accepted -- so an attribute read on a member must be defined by every class the dominating
#       isinstance() outcomes leave, unless the constraint class proves at attach time that its members are Columns;
#   R9  keys / elements of clause attributes filled with such a coercion are `str | ClauseElement`; an identifier-preparer
#       method whose parameter is annotated `str` receives them only under a positive isinstance(x, str) outcome.
SCHEMA = "sql/schema.py"
ELEMENTS = "sql/elements.py"
COERCIONS = "sql/coercions.py"
MEMBER_COLLECTIONS = ("columns", "c", "_columns", "columns_autoinc_first")   # API of ColumnCollectionMixin / PrimaryKeyConstraint
_SEQ_COPIES = {"list", "tuple", "sorted", "iter", "reversed", "set", "frozenset"}


def _strkey_roles(ctx):
    """names of the roles whose coercion implementation derives from coercions._ReturnsStringKey: a str argument is
    returned as is, anything else stays the (resolved) expression object."""
    ix = ctx.index
    base = ix.cls(f"{COERCIONS}::_ReturnsStringKey")
    out = {c.name[:-len("Impl")] + "Role" for c in ix.subclasses(base) if c.name.endswith("Impl")}
    ctx.require(out, "no coercion implementation derives from _ReturnsStringKey")
    rm = ix.module("sql/roles.py")
    missing = sorted(r for r in out if r not in rm.classes)
    ctx.require(not missing, f"coercion impl(s) without a role of the same name: {missing}")
    return out


def _strkey_coercion(call, roles_):
    """role name if `call` is coercions.expect(roles.<R>, x) with R a string-or-expression role and no as_key=True."""
    if not isinstance(call, ast.Call):
        return None
    nm = call_name(call) or ""
    if nm.rsplit(".", 1)[-1] != "expect" or not call.args:
        return None
    r = (dotted(call.args[0]) or "").rsplit(".", 1)[-1]
    if r not in roles_:
        return None
    for k in call.keywords:
        if k.arg == "as_key" and not (isinstance(k.value, ast.Constant) and k.value.value is False):
            return None
    return r


def _guards_at(ctx, f, pm, n):
    """[(atom expr, polarity)] of every branch outcome that dominates the evaluation of `n`: enclosing if / ternary /
    and-or operands / comprehension conditions, and CFG edge guards (early exits)."""
    guards = list(lexical_guards(pm, n, stop=f.node))
    for gen, _ in _comp_scopes(pm, n, f.node):
        guards.extend((t, True) for t in gen.ifs)
    g = ctx.cfg(f)
    for node in g.nodes_containing(n):
        guards.extend(g.edge_guards(node))
    out = []

    def add(t, pol, depth=0):
        for a, p2 in _atoms_ast(t, pol):
            v = _single_binding(f.node, a.id) if isinstance(a, ast.Name) and depth < 3 else None
            if isinstance(v, (ast.Call, ast.Compare, ast.BoolOp, ast.UnaryOp)):
                add(v, p2, depth + 1)        # a boolean local bound once: `is_name = isinstance(k, str)`
            else:
                out.append((a, p2))
    for t, pol in guards:
        add(t, pol)
    return out


def _isinstance_of(ix, module, fnode, atom):
    """(normalised text of the tested expression, [ClassInfo | builtin name]) for `isinstance(<expr>, C | (C1, ..))`."""
    from ._helpers_rob_c1 import inline_locals
    if not (isinstance(atom, ast.Call) and isinstance(atom.func, ast.Name) and atom.func.id == "isinstance" and len(atom.args) == 2):
        return None
    exprs = atom.args[1].elts if isinstance(atom.args[1], ast.Tuple) else [atom.args[1]]
    classes = []
    for e in exprs:
        d = dotted(e)
        c = ix.resolve(module, d) if d else None
        if isinstance(c, ClassInfo):
            classes.append(c)
        elif d in ("str", "int", "bytes", "tuple", "list", "dict"):
            classes.append(d)
        else:
            return None
    return unparse(inline_locals(fnode, atom.args[0])), classes


# ------------------------------------------------------------------------------------------ R8
def _comparator_attrs(ctx):
    """attribute names defined by any type Comparator class (ColumnElement.__getattr__ forwards to self.comparator)."""
    cache = ctx.__dict__.get("_c22_comparator_attrs")
    if cache is None:
        ix = ctx.index
        cache = set()

        def rec(ci):
            if ci.name.endswith("Comparator") or ci.name in ("ColumnOperators", "Operators"):
                for k in ix.mro(ci):
                    cache.update(_own_attrs(k))
            for n in ci.nested.values():
                rec(n)
        for c in ix.all_classes():
            rec(c)
        ctx.__dict__["_c22_comparator_attrs"] = cache
    return cache


def _member_defines(ctx, ci: ClassInfo, attr: str):
    """_defines() for column expressions: ColumnElement.__getattr__ is not an open-ended protocol, it forwards to the type's
    Comparator and raises AttributeError for everything that one lacks.  True / False / None (cannot tell)."""
    ix = ctx.index
    unknown = deleg = False
    for k in ix.mro(ci):
        own = _own_attrs(k)
        if attr in own:
            return True
        ga = k.methods.get("__getattr__")
        if ga is not None:
            fwd = [c for c in calls_in(ga.node) if call_name(c) == "getattr" and c.args and dotted(c.args[0]) == "self.comparator"]
            if k.key == f"{ELEMENTS}::ColumnElement" and fwd:
                deleg = True
            else:
                unknown = True
        if "__getattribute__" in own:
            unknown = True
        for b, e in zip(k.bases, k.base_exprs):
            if b is None and e.rsplit(".", 1)[-1].split("[")[0] not in _HARMLESS_BASES:
                unknown = True
    if unknown:
        return None
    if deleg and attr in _comparator_attrs(ctx):
        return None
    return False


def _members_are_columns(ctx, k, named, column) -> str:
    """Proof (as text) that every member of an attached constraint of class `k` is a Column: its `_set_parent` (attach is
    part of construction: Table(..., K(...)) / append_constraint) runs a top-level loop over the member collection that
    unconditionally READS an attribute only Column defines -- another member class fails there, before any compile()."""
    ix = ctx.index
    for cls in ix.mro(k):
        m = cls.methods.get("_set_parent")
        if m is None:
            continue
        for st in m.node.body:
            if not (isinstance(st, ast.For) and isinstance(st.target, ast.Name)):
                continue
            it = st.iter
            if not (isinstance(it, ast.Attribute) and isinstance(it.value, ast.Name) and it.value.id == "self"
                    and it.attr in MEMBER_COLLECTIONS) and not (isinstance(it, ast.Name) and it.id == "self"):
                continue
            from ..astutil import own_exprs
            for inner in st.body:
                if any(isinstance(x, (ast.Continue, ast.Break, ast.Return)) for x in ast.walk(inner)):
                    break
                for part in own_exprs(inner):
                    for x in ast.walk(part):
                        if isinstance(x, ast.Attribute) and isinstance(x.ctx, ast.Load) and isinstance(x.value, ast.Name) \
                                and x.value.id == st.target.id and _member_defines(ctx, named, x.attr) is False \
                                and _member_defines(ctx, column, x.attr) is True:
                            ctx.functions_analysed.add(m.key)
                            return f"{m.qualname} reads `{st.target.id}.{x.attr}` on every member"
    return ""


def _collection_expr(fnode, e, cvars, depth=0) -> bool:
    """`e` denotes the member collection of one of the constraint variables `cvars`."""
    if depth > 4:
        return False
    if isinstance(e, ast.Name):
        if e.id in cvars:
            return True       # iterating the constraint itself
        v = _single_binding(fnode, e.id)
        return v is not None and _collection_expr(fnode, v, cvars, depth + 1)
    if isinstance(e, ast.Attribute):
        return isinstance(e.value, ast.Name) and e.value.id in cvars and e.attr in MEMBER_COLLECTIONS
    if isinstance(e, ast.Call) and isinstance(e.func, ast.Name) and e.func.id in _SEQ_COPIES and len(e.args) == 1:
        return _collection_expr(fnode, e.args[0], cvars, depth + 1)
    if isinstance(e, ast.IfExp):
        return _collection_expr(fnode, e.body, cvars, depth + 1) and _collection_expr(fnode, e.orelse, cvars, depth + 1)
    return False


def _member_expr(fnode, e, cvars, mvars, depth=0) -> bool:
    """`e` denotes one member of such a collection: an indexed / first element, a loop variable, a local bound to one."""
    if depth > 4:
        return False
    if isinstance(e, ast.Name):
        if e.id in mvars:
            return True
        v = _single_binding(fnode, e.id)
        return v is not None and _member_expr(fnode, v, cvars, mvars, depth + 1)
    if isinstance(e, ast.Subscript) and not isinstance(e.slice, ast.Slice):
        idx = e.slice.operand if isinstance(e.slice, ast.UnaryOp) else e.slice
        return isinstance(idx, ast.Constant) and isinstance(idx.value, int) and _collection_expr(fnode, e.value, cvars)
    if isinstance(e, ast.Call) and isinstance(e.func, ast.Name) and e.func.id == "next" and e.args:
        return _collection_expr(fnode, e.args[0], cvars)
    return False


def _loop_members(fnode, cvars):
    out = set()
    for n in walk_local(fnode, into_nested=True):
        if isinstance(n, (ast.For, ast.comprehension)) and isinstance(n.target, ast.Name) and _collection_expr(fnode, n.iter, cvars):
            out.add(n.target.id)
    return out


@R.rule("C22-R8", floor=8, template="T-GUARD",
        desc="DDL compilers: an attribute read on a MEMBER of the visited column-collection constraint (indexed / iterated "
             "element of the constraint or of its .columns) is defined by every named-column class that the dominating "
             "isinstance() outcomes leave possible -- the constructor accepts any named column expression, e.g. "
             "column('x') -- unless the constraint class itself proves at attach time that its members are Columns")
def r8(ctx):
    from ._helpers_rob_c1 import inline_locals
    ix = ctx.index
    mixin = ix.cls(f"{SCHEMA}::ColumnCollectionMixin")
    named = ix.cls(f"{ELEMENTS}::NamedColumn")
    column = ix.cls(f"{SCHEMA}::Column")
    roles_ = _strkey_roles(ctx)
    init = mixin.methods.get("__init__")
    accepted = sorted({r for c in calls_in(init.node) for r in [_strkey_coercion(c, roles_)] if r}) if init is not None else []
    ctx.functions_analysed.add(init.key if init is not None else mixin.key)
    ctx.require(accepted, f"{mixin.key}.__init__ no longer coerces its members with a string-or-expression role: what a "
                          f"constraint member can be is not understood")
    role = ix.cls(f"sql/roles.py::{accepted[0]}")
    ctx.require(ix.is_subclass(named, role) and ix.is_subclass(column, named),
                f"NamedColumn / Column no longer carry {accepted[0]}: member universe not understood")
    universe = [named] + [c for c in ix.subclasses(named)]
    ddl = ix.cls(f"{COMP}::DDLCompiler")
    proofs = {}

    def judge(f, cvars, mvars, label, column_only, depth):
        """attribute reads on members inside `f`; cvars: names bound to the constraint, mvars: names bound to a member."""
        pm = None
        mv = set(mvars) | _loop_members(f.node, cvars)
        seen_attr = {}
        for n in walk_local(f.node, into_nested=True):
            if isinstance(n, ast.Attribute) and isinstance(n.ctx, ast.Load) and _member_expr(f.node, n.value, cvars, mv):
                pm = pm or parent_map(f.node)
                ctx.functions_analysed.add(f.key)
                who = unparse(inline_locals(f.node, n.value))
                pos, neg = [], []
                probed = False
                for atom, pol in _guards_at(ctx, f, pm, n):
                    if pol and isinstance(atom, ast.Call) and isinstance(atom.func, ast.Name) and atom.func.id == "hasattr" \
                            and len(atom.args) == 2 and isinstance(atom.args[1], ast.Constant) and atom.args[1].value == n.attr \
                            and unparse(inline_locals(f.node, atom.args[0])) == who:
                        probed = True       # hasattr(<member>, "<attr>") is the same test asked directly
                    ia = _isinstance_of(ix, f.module, f.node, atom)
                    if ia is not None and ia[0] == who:
                        alt = [c for c in ia[1] if isinstance(c, ClassInfo)]
                        if alt not in (pos if pol else neg):
                            (pos if pol else neg).append(alt)
                left = [c for c in universe
                        if all(any(ix.is_subclass(c, a) or c is a for a in alt) for alt in pos)
                        and not any(ix.is_subclass(c, a) or c is a for alt in neg for a in alt)
                        and (not column_only or c is column or ix.is_subclass(c, column))]
                lack = [] if probed else [c for c in left if _member_defines(ctx, c, n.attr) is False]
                lack.sort(key=lambda c: (c.name != "ColumnClause", len(ix.mro(c)), c.key))
                seen_attr[n.attr] = seen_attr.get(n.attr, 0) + 1
                key = f"{f.key}:member.{n.attr}" + (f"#{seen_attr[n.attr]}" if seen_attr[n.attr] > 1 else "")
                why = "under hasattr()" if probed else ("members proven to be Column objects: " + column_only) if column_only else \
                    ("under " + " and ".join("isinstance(.., " + "/".join(c.name for c in alt) + ")" for alt in pos) if pos
                     else "defined by every named column expression")
                ctx.check(not lack, key,
                          f"`{unparse(n)}` reads `.{n.attr}` on a member of the {label} (`{who}`) "
                          + ("with no class test" if not pos else "under " + " and ".join("isinstance(.., " + "/".join(c.name for c in alt) + ")" for alt in pos))
                          + f": the constructor coerces members with roles.{accepted[0]}, which keeps any named column expression, and "
                          f"{lack[0].name if lack else ''} (e.g. `column('x')` in UniqueConstraint(column('x'))) has no attribute `{n.attr}` -- compile() / "
                          f"create_all() on this dialect raises AttributeError instead of emitting the constraint; read it under "
                          f"isinstance(<member>, Column / SchemaItem)",
                          f"`.{n.attr}`: {why}", f"{f.module.path}:{n.lineno}")
            elif depth < 1 and isinstance(n, ast.Call) and isinstance(n.func, ast.Attribute) and isinstance(n.func.value, ast.Name) \
                    and n.func.value.id == "self" and f.cls is not None:
                # a member / the constraint handed to a helper method of the same compiler
                tgt = ix.resolve_method(f.cls, n.func.attr)
                if tgt is None or tgt.node is f.node:
                    continue
                params = [p for p in tgt.params if p not in ("self", "cls")]
                c2, m2 = set(), set()
                for p_, arg in list(zip(params, n.args)) + [(k.arg, k.value) for k in n.keywords if k.arg in params]:
                    if isinstance(arg, ast.Starred):
                        break
                    if _member_expr(f.node, arg, cvars, mv):
                        m2.add(p_)
                    elif isinstance(arg, ast.Name) and arg.id in cvars:
                        c2.add(p_)
                if (m2 or c2) and tgt.name != f.name and not tgt.name.startswith("visit_") and \
                        not any(_universe(ctx, tgt, p_) is not None for p_ in c2):
                    judge(tgt, c2, m2, label, column_only, depth + 1)

    done = set()
    for cls in [ddl] + sorted(ix.subclasses(ddl), key=lambda c: c.key):
        for name, f in sorted(cls.methods.items()):
            if f.key in done:
                continue
            done.add(f.key)
            own = [p for p in f.params if p not in ("self", "cls")]
            for p_ in own[:2]:
                uni = _universe(ctx, f, p_)
                if not uni or not all(ix.is_subclass(c, mixin) for c in uni):
                    continue
                if not all(ix.is_subclass(c, ix.cls(f"{SCHEMA}::Constraint")) for c in uni):
                    continue        # Index: its members are judged as expressions, not as constraint members
                roots = [c for c in uni if not any(ix.is_subclass(c, o) for o in uni if o is not c)]
                proof = ""
                if roots:
                    ps = []
                    for r_ in roots:
                        if r_.key not in proofs:
                            proofs[r_.key] = _members_are_columns(ctx, r_, named, column)
                        ps.append(proofs[r_.key])
                    proof = ps[0] if all(ps) else ""
                judge(f, {p_}, set(), "/".join(sorted(r_.name for r_ in roots)) + " being compiled", proof, 0)


# ------------------------------------------------------------------------------------------ R9
def _dual_attrs(ctx, roles_):
    """{attribute name: {('keys'|'values'|'elems'|'pair0', role, class key)}} for `self.<attr> = <container built from
    coercions.expect(roles.<R>, x)>` anywhere in the package (R a string-or-expression role, no as_key=True)."""
    cache = ctx.__dict__.setdefault("_c22_dual_attrs", None)
    if cache is not None:
        return cache
    out = {}
    for mod in ctx.index.all_modules():
        if "coercions.expect" not in mod.source or not any(r in mod.source for r in roles_):
            continue
        for cls in mod.classes.values():
            for f in cls.methods.values():
                for st in walk_local(f.node, into_nested=False):
                    if not isinstance(st, (ast.Assign, ast.AnnAssign)) or st.value is None:
                        continue
                    tgts = st.targets if isinstance(st, ast.Assign) else [st.target]
                    attrs = [t.attr for t in tgts if isinstance(t, ast.Attribute) and isinstance(t.value, ast.Name) and t.value.id == "self"]
                    if not attrs:
                        continue
                    v = st.value
                    found = []
                    if isinstance(v, ast.DictComp):
                        found += [("keys", _strkey_coercion(v.key, roles_)), ("values", _strkey_coercion(v.value, roles_))]
                    elif isinstance(v, (ast.ListComp, ast.SetComp, ast.GeneratorExp)):
                        found.append(("elems", _strkey_coercion(v.elt, roles_)))
                        if isinstance(v.elt, ast.Tuple) and v.elt.elts:
                            found.append(("pair0", _strkey_coercion(v.elt.elts[0], roles_)))
                    elif isinstance(v, (ast.List, ast.Tuple)):
                        found += [("elems", _strkey_coercion(e, roles_)) for e in v.elts]
                    for kind, role in found:
                        if role:
                            ctx.functions_analysed.add(f.key)
                            for a in attrs:
                                out.setdefault(a, set()).add((kind, role, cls.key))
    ctx.__dict__["_c22_dual_attrs"] = out
    return out


def _str_sinks(ctx):
    """{method name: parameter name} for IdentifierPreparer methods whose first parameter is annotated `str`."""
    prep = ctx.index.cls(f"{COMP}::IdentifierPreparer")
    out = {}
    for name, m in prep.methods.items():
        a = m.node.args
        ps = (a.posonlyargs + a.args)[1:]
        if ps and ps[0].annotation is not None and unparse(ps[0].annotation).strip("'\"") == "str":
            out[name] = ps[0].arg
    return out


class _DualFlow:
    """which local names of a function hold a `str | ClauseElement` value that comes from a dual attribute"""

    def __init__(self, fnode, dual, seeds=None):
        self.fnode, self.dual = fnode, dual
        self.vals = dict(seeds or {})          # name -> origin label
        changed, rounds = True, 0
        while changed and rounds < 4:
            changed, rounds = False, rounds + 1
            for n in walk_local(fnode, into_nested=True):
                if isinstance(n, (ast.For, ast.comprehension)):
                    for nm, lab in self._bind_loop(n.target, n.iter):
                        if nm not in self.vals:
                            self.vals[nm] = lab
                            changed = True
                elif isinstance(n, ast.Assign) and len(n.targets) == 1 and isinstance(n.targets[0], ast.Name):
                    lab = self.value(n.value)
                    if lab and n.targets[0].id not in self.vals and _single_binding(fnode, n.targets[0].id) is not None:
                        self.vals[n.targets[0].id] = lab
                        changed = True

    def container(self, e, depth=0):
        """(attr, kinds) when `e` is a container whose keys / elements are dual values."""
        if depth > 5:
            return None
        if isinstance(e, ast.Attribute) and e.attr in self.dual:
            return e.attr, {k for k, _r, _c in self.dual[e.attr]}, "direct"
        if isinstance(e, ast.Name):
            v = _single_binding(self.fnode, e.id)
            return self.container(v, depth + 1) if v is not None else None
        if isinstance(e, ast.Call):
            if isinstance(e.func, ast.Name) and e.func.id in _SEQ_COPIES | {"dict", "OrderedDict"} and len(e.args) == 1:
                return self.container(e.args[0], depth + 1)
            if isinstance(e.func, ast.Attribute) and e.func.attr in ("copy", "items", "keys", "values") and not e.args:
                c = self.container(e.func.value, depth + 1)
                if c is None:
                    return None
                return c[0], c[1], (e.func.attr if e.func.attr != "copy" else c[2])
        return None

    def _bind_loop(self, target, it):
        c = self.container(it)
        if c is None:
            return []
        attr, kinds, view = c
        out = []
        if isinstance(target, ast.Name):
            if (view in ("direct", "keys") and kinds & {"keys", "elems"}) or (view == "values" and "values" in kinds):
                out.append((target.id, f"{attr}:{'key' if 'keys' in kinds and view != 'values' else 'element'}"))
        elif isinstance(target, (ast.Tuple, ast.List)) and target.elts:
            first, rest = target.elts[0], target.elts[1:]
            if isinstance(first, ast.Name) and ((view == "items" and "keys" in kinds) or (view == "direct" and "pair0" in kinds)):
                out.append((first.id, f"{attr}:key"))
            if view == "items" and "values" in kinds and rest and isinstance(rest[0], ast.Name):
                out.append((rest[0].id, f"{attr}:value"))
        return out

    def value(self, e):
        if isinstance(e, ast.Name):
            return self.vals.get(e.id)
        return None


@R.rule("C22-R9", floor=4, template="T-GUARD",
        desc="compile units: a key / element of a clause attribute that the construct fills with a string-or-expression "
             "role coercion (coercions._ReturnsStringKey: DMLColumnRole, DDLConstraintColumnRole, ...) is `str | "
             "ClauseElement`; it is passed to an IdentifierPreparer method whose parameter is annotated `str` (quote, "
             "quote_identifier, ...) only under a dominating positive isinstance(x, str) outcome")
def r9(ctx):
    from ._helpers_rob_c1 import inline_locals
    ix = ctx.index
    roles_ = _strkey_roles(ctx)
    dual = _dual_attrs(ctx, roles_)
    ctx.require(dual, "no construct attribute is filled from a string-or-expression role coercion: anchor moved")
    sinks = _str_sinks(ctx)
    ctx.require("quote" in sinks, "IdentifierPreparer.quote(ident: str) not found")
    prep = ix.cls(f"{COMP}::IdentifierPreparer")
    clause_element = ix.cls(f"{ELEMENTS}::ClauseElement")

    def sink_of(f, c):
        if not (isinstance(c.func, ast.Attribute) and c.func.attr in sinks and c.args):
            # `quote = self.preparer.quote; quote(k)`
            if isinstance(c.func, ast.Name) and c.args:
                v = _single_binding(f.node, c.func.id)
                if isinstance(v, ast.Attribute) and v.attr in sinks and (dotted(v.value) or "").endswith("preparer"):
                    return v.attr
            return None
        recv = dotted(inline_locals(f.node, c.func.value)) or ""
        if recv.endswith("preparer") or (recv == "self" and f.cls is not None and (f.cls is prep or ix.is_subclass(f.cls, prep))):
            return c.func.attr
        return None

    def judge(f, seeds, depth):
        flow = _DualFlow(f.node, dual, seeds)
        if not flow.vals:
            return
        pm = None
        count = {}
        for c in calls_in(f.node, into_nested=True):
            sk = sink_of(f, c)
            if sk is not None:
                lab = flow.value(c.args[0])
                if lab is None:
                    continue
                pm = pm or parent_map(f.node)
                ctx.functions_analysed.add(f.key)
                who = unparse(inline_locals(f.node, c.args[0]))
                ok = False
                for atom, pol in _guards_at(ctx, f, pm, c):
                    ia = _isinstance_of(ix, f.module, f.node, atom)
                    if ia is None or ia[0] != who:
                        continue
                    strlike = [c == "str" or (isinstance(c, ClassInfo) and any("str" in k.base_exprs for k in ix.mro(c))) for c in ia[1]]
                    if pol and all(strlike):
                        ok = True       # str, or a str subclass such as quoted_name
                    elif not pol and any(isinstance(c, ClassInfo) and (c is clause_element or ix.is_subclass(clause_element, c)) for c in ia[1]):
                        ok = True       # what is left of `str | ClauseElement` when every ClauseElement is excluded
                    # any other outcome (a narrower class excluded, an element class established, str excluded) leaves a
                    # ClauseElement possible at the call
                shown = f"{sk}({lab})"
                count[shown] = count.get(shown, 0) + 1
                key = f"{f.key}:{shown}" + (f"#{count[shown]}" if count[shown] > 1 else "")
                attr, what = lab.split(":")[0], lab.split(":")[1]
                src = sorted(dual.get(attr, []))
                ctx.check(ok, key,
                          f"`{unparse(c)}` passes the {what} of `.{attr}` to IdentifierPreparer.{sk}({sinks[sk]}: str) with no "
                          f"dominating isinstance({who}, str): the construct fills `.{attr}` with coercions.expect(roles.{src[0][1] if src else '?'}, ..), "
                          f"which keeps column objects as they are (only strings stay strings), so a column object that is not "
                          f"resolved earlier reaches str-only code and compile() raises AttributeError ('... has no attribute "
                          f"lower') instead of rendering it with self.process()",
                          f"under isinstance({who}, str)", f"{f.module.path}:{c.lineno}")
            elif depth < 2 and isinstance(c.func, ast.Attribute) and isinstance(c.func.value, ast.Name) and c.func.value.id == "self" \
                    and f.cls is not None:
                tgt = ix.resolve_method(f.cls, c.func.attr)
                if tgt is None or tgt.node is f.node or c.func.attr in ("process",):
                    continue
                params = [p for p in tgt.params if p not in ("self", "cls")]
                s2 = {}
                for p_, arg in list(zip(params, c.args)) + [(k.arg, k.value) for k in c.keywords if k.arg in params]:
                    lab = flow.value(arg) if not isinstance(arg, ast.Starred) else None
                    if lab:
                        s2[p_] = lab
                if s2:
                    judge(tgt, s2, depth + 1)

    names = tuple(dual)
    for f in _units(ctx):
        if not any(a in f.module.source for a in names):
            continue
        if not any(isinstance(n, ast.Attribute) and n.attr in dual for n in ast.walk(f.node)):
            continue
        judge(f, {}, 0)


# ------------------------------------------------------------------------------------------ self test
R.mutant("r1-raises-keyerror", COMP,
         sub('            raise exc.CompileError(\n                "Unary expression has no operator or modifier"\n            )',
             '            raise KeyError(\n                "Unary expression has no operator or modifier"\n            )'), "C22-R1")
R.mutant("r1-crud-raises-typeerror", CRUD,
         sub("def _as_dml_column(c: ColumnElement[Any]) -> ColumnClause[Any]:\n    if not isinstance(c, ColumnClause):\n        raise exc.CompileError(",
             "def _as_dml_column(c: ColumnElement[Any]) -> ColumnClause[Any]:\n    if not isinstance(c, ColumnClause):\n        raise TypeError("), "C22-R1")
R.mutant("r1-oracle-loses-sequence-support", "dialects/oracle/base.py",
         sub("    def visit_sequence(self, seq, **kw):\n        return self.preparer.format_sequence(seq) + \".nextval\"\n", ""), "C22-R1")
R.mutant("r1-mssql-loses-delete-from", "dialects/mssql/base.py",
         sub("    def delete_extra_from_clause(\n        self, delete_stmt, from_table, extra_froms, from_hints, **kw\n    ):", "    def _delete_extra_from_clause(\n        self, delete_stmt, from_table, extra_froms, from_hints, **kw\n    ):"), "C22-R1")
R.mutant("r2-binary-guard-removed", COMP,
         sub("            try:\n                opstring = OPERATORS[operator_]\n            except KeyError as err:\n                raise exc.UnsupportedCompilationError(self, operator_) from err\n            else:\n                return self._generate_generic_binary(\n                    binary,\n                    opstring,\n                    from_linter=from_linter,\n                    lateral_from_linter=lateral_from_linter,\n                    **kw,\n                )\n",
             "            opstring = OPERATORS[operator_]\n            return self._generate_generic_binary(\n                binary,\n                opstring,\n                from_linter=from_linter,\n                lateral_from_linter=lateral_from_linter,\n                **kw,\n            )\n"), "C22-R2")
R.mutant("r2-sqlite-extract-unguarded", "dialects/sqlite/base.py",
         sub("        except KeyError as err:\n            raise exc.CompileError(\n                \"%s is not a valid extract argument.\" % extract.field\n            ) from err\n",
             "        except ValueError as err:\n            raise exc.CompileError(\n                \"%s is not a valid extract argument.\" % extract.field\n            ) from err\n"), "C22-R2")
R.mutant("r2-compound-keyword-row-removed", COMP, sub('    selectable._CompoundSelectKeyword.EXCEPT_ALL: "EXCEPT ALL",\n', ""), "C22-R2")
R.mutant("r3-pg-visitor-without-kw", "dialects/postgresql/base.py",
         sub("    def visit_ilike_op_binary(self, binary, operator, **kw):\n        escape = binary.modifiers.get(\"escape\", None)\n\n        return \"%s ILIKE %s\"",
             "    def visit_ilike_op_binary(self, binary, operator):\n        kw = {}\n        escape = binary.modifiers.get(\"escape\", None)\n\n        return \"%s ILIKE %s\""), "C22-R3")
R.mutant("r3-sqlite-visitor-typo", "dialects/sqlite/base.py",
         sub("    def visit_regexp_match_op_binary(self, binary, operator, **kw):\n        return self._generate_generic_binary(binary, \" REGEXP \", **kw)",
             "    def visit_regex_match_op_binary(self, binary, operator, **kw):\n        return self._generate_generic_binary(binary, \" REGEXP \", **kw)"), "C22-R3")
# benign
R.mutant("benign-message-change", COMP,
         sub('"Unary expression has no operator or modifier"', '"Unary expression has neither operator nor modifier"'), None)
R.mutant("benign-extra-documented-raise", "dialects/sqlite/base.py",
         sub("    def visit_empty_set_op_expr(self, type_, expand_op, **kw):\n", "    def visit_empty_set_op_expr(self, type_, expand_op, **kw):\n        if type_ is None:\n            raise exc.CompileError(\"no type\")\n"), None)
R.mutant("benign-visitor-extra-default-arg", "dialects/sqlite/base.py",
         sub("    def visit_regexp_match_op_binary(self, binary, operator, **kw):\n        return self._generate_generic_binary(binary, \" REGEXP \", **kw)",
             "    def visit_regexp_match_op_binary(self, binary, operator, _sep=\" REGEXP \", **kw):\n        return self._generate_generic_binary(binary, _sep, **kw)"), None)

# --- round 2 (seeds, observations): R4 .. R7
from ..report import chain  # noqa: E402

MY = "dialects/mysql/base.py"
ODKU_OLD = ("            cols = [\n                statement.table.c[key]\n                for key in parameter_ordering\n"
            "                if key in statement.table.c\n            ] + [c for c in statement.table.c if c.key not in ordered_keys]\n")
R.mutant("seed1-odku-ordered-keys-unfiltered", MY,
         sub(ODKU_OLD, "            cols = [statement.table.c[key] for key in parameter_ordering] + [\n"
                       "                c for c in statement.table.c if c.key not in ordered_keys\n            ]\n"), "C22-R4")
R.mutant("r4-scan-cols-membership-dropped", CRUD,
         sub("            if isinstance(key, str) and key in stmt.table.c\n", "            if isinstance(key, str)\n"), "C22-R4")
R.mutant("r4-odku-membership-on-other-collection", MY,
         sub("                if key in statement.table.c\n", "                if key in ordered_keys\n"), "C22-R4")
R.mutant("benign-odku-collection-hoisted", MY,
         sub(ODKU_OLD, "            tc = statement.table.c\n            cols = [tc[key] for key in parameter_ordering if key in tc] + [\n"
                       "                c for c in tc if c.key not in ordered_keys\n            ]\n"), None)
R.mutant("benign-odku-keys-prefiltered", MY,
         sub(ODKU_OLD, "            known = [k for k in parameter_ordering if k in statement.table.c]\n"
                       "            cols = [statement.table.columns[key] for key in known] + [\n"
                       "                c for c in statement.table.c if c.key not in ordered_keys\n            ]\n"), None)
R.mutant("seed2-from-select-guard-becomes-blacklist", CRUD,
         chain(sub("from .selectable import Select\n", "from .selectable import CompoundSelect\n"),
               sub("        if not isinstance(ins_from_select, Select):\n", "        if isinstance(ins_from_select, CompoundSelect):\n")), "C22-R5")
R.mutant("r5-from-select-guard-widened-to-selectbase", CRUD,
         chain(sub("from .selectable import Select\n", "from .selectable import SelectBase\n"),
               sub("        if not isinstance(ins_from_select, Select):\n", "        if not isinstance(ins_from_select, SelectBase):\n")), "C22-R5")
R.mutant("benign-from-select-local-renamed", CRUD, sub("ins_from_select", "sel_stmt", count=7), None)
R.mutant("benign-from-select-guard-as-else-branch", CRUD,
         chain(sub("        if not isinstance(ins_from_select, Select):\n            raise exc.CompileError(",
                   "        if isinstance(ins_from_select, Select):\n            pass\n        else:\n            raise exc.CompileError(")), None)
R.mutant("r6-pg-create-index-drops-table-check", "dialects/postgresql/base.py",
         sub("        index = create.element\n        self._verify_index_table(index)\n        text = \"CREATE \"\n",
             "        index = create.element\n        text = \"CREATE \"\n"), "C22-R6")
R.mutant("r6-mssql-create-index-drops-table-check", "dialects/mssql/base.py",
         sub("        index = create.element\n        self._verify_index_table(index)\n        preparer = self.preparer\n",
             "        index = create.element\n        preparer = self.preparer\n"), "C22-R6")
R.mutant("benign-pg-create-index-inline-table-check", "dialects/postgresql/base.py",
         sub("        index = create.element\n        self._verify_index_table(index)\n        text = \"CREATE \"\n",
             "        index = create.element\n        if index.table is None:\n            raise exc.CompileError(\"Index is not associated with any table.\")\n        text = \"CREATE \"\n"), None)
R.mutant("r7-label-reference-keyerror-guard-lost", COMP,
         sub("            except KeyError as ke:\n                raise exc.CompileError(\n                    \"Can't resolve label reference for ORDER BY / \"\n                    \"GROUP BY / DISTINCT etc.\"\n                ) from ke\n\n            (\n",
             "            except ValueError as ke:\n                raise exc.CompileError(\n                    \"Can't resolve label reference for ORDER BY / \"\n                    \"GROUP BY / DISTINCT etc.\"\n                ) from ke\n\n            (\n"), "C22-R7")
R.mutant("r7-from-select-entry-store-conditional", CRUD,
         sub("    compiler.stack[-1][\"insert_from_select\"] = stmt.select\n",
             "    if stmt.include_insert_from_select_defaults:\n        compiler.stack[-1][\"insert_from_select\"] = stmt.select\n"), "C22-R7")
R.mutant("benign-label-reference-handler-var-renamed", COMP,
         sub("            except KeyError as ke:\n                raise exc.CompileError(\n                    \"Can't resolve label reference for ORDER BY / \"\n                    \"GROUP BY / DISTINCT etc.\"\n                ) from ke\n\n            (\n",
             "            except KeyError as err:\n                raise exc.CompileError(\n                    \"Can't resolve label reference for ORDER BY / \"\n                    \"GROUP BY / DISTINCT etc.\"\n                ) from err\n\n            (\n"), None)

# --- robustify round (rob-C1): R2 follows lookup helpers, membership guards, .get(), locals bound once
_ECL = ("        try:\n            opstring = OPERATORS[operator_]\n        except KeyError as err:\n"
        "            raise exc.UnsupportedCompilationError(self, operator_) from err\n        else:\n"
        "            kw[\"_in_operator_expression\"] = True\n")
_ECL_HEAD = "    def visit_expression_clauselist(self, clauselist, **kw):\n"
_GUARDED_HELPER = ("    def _generic_opstring(self, op):\n        try:\n            return OPERATORS[op]\n        except KeyError as err:\n"
                   "            raise exc.UnsupportedCompilationError(self, op) from err\n\n")
_BARE_HELPER = "    def _generic_opstring(self, op):\n        return OPERATORS[op]\n\n"
_CL = ("            try:\n                sep = OPERATORS[clauselist.operator]\n            except KeyError as err:\n"
       "                raise exc.UnsupportedCompilationError(\n                    self, clauselist.operator\n                ) from err\n")
# family "extracted helper": the helper performs lookup + conversion, the callers just call it (rfC_3)
R.mutant("benign-r2-guarded-lookup-helper", COMP,
         chain(sub(_ECL_HEAD, _GUARDED_HELPER + _ECL_HEAD),
               sub(_ECL, "        opstring = self._generic_opstring(operator_)\n        if True:\n            kw[\"_in_operator_expression\"] = True\n"),
               sub(_CL, "            sep = self._generic_opstring(clauselist.operator)\n")), None)
# the helper only looks up; every caller converts the KeyError
R.mutant("benign-r2-bare-lookup-helper-guarded-by-callers", COMP,
         chain(sub(_ECL_HEAD, _BARE_HELPER + _ECL_HEAD),
               sub(_ECL, "        try:\n            opstring = self._generic_opstring(operator_)\n        except KeyError as err:\n"
                         "            raise exc.UnsupportedCompilationError(self, operator_) from err\n        else:\n"
                         "            kw[\"_in_operator_expression\"] = True\n")), None)
R.mutant("r2-bare-lookup-helper-one-caller-unguarded", COMP,
         chain(sub(_ECL_HEAD, _BARE_HELPER + _ECL_HEAD),
               sub(_ECL, "        try:\n            opstring = self._generic_opstring(operator_)\n        except KeyError as err:\n"
                         "            raise exc.UnsupportedCompilationError(self, operator_) from err\n        else:\n"
                         "            kw[\"_in_operator_expression\"] = True\n"),
               sub(_CL, "            sep = self._generic_opstring(clauselist.operator)\n")), "C22-R2")
R.mutant("r2-lookup-helper-loses-guard", COMP,
         chain(sub(_ECL_HEAD, _BARE_HELPER + _ECL_HEAD),
               sub(_ECL, "        opstring = self._generic_opstring(operator_)\n        if True:\n            kw[\"_in_operator_expression\"] = True\n")), "C22-R2")
R.mutant("benign-r2-membership-test-early-raise", COMP,
         sub(_ECL, "        if operator_ not in OPERATORS:\n            raise exc.UnsupportedCompilationError(self, operator_)\n"
                   "        opstring = OPERATORS[operator_]\n        if True:\n            kw[\"_in_operator_expression\"] = True\n"), None)
R.mutant("r2-membership-test-on-other-table", COMP,
         sub(_ECL, "        if operator_ not in FUNCTIONS:\n            raise exc.UnsupportedCompilationError(self, operator_)\n"
                   "        opstring = OPERATORS[operator_]\n        if True:\n            kw[\"_in_operator_expression\"] = True\n"), "C22-R2")
R.mutant("benign-r2-get-then-documented-raise", COMP,
         sub(_ECL, "        opstring = OPERATORS.get(operator_)\n        if opstring is None:\n"
                   "            raise exc.UnsupportedCompilationError(self, operator_)\n        else:\n"
                   "            kw[\"_in_operator_expression\"] = True\n"), None)
R.mutant("benign-r2-handler-catches-lookuperror", COMP,
         sub(_CL, "            try:\n                sep = OPERATORS[clauselist.operator]\n            except LookupError as err:\n"
                  "                raise exc.UnsupportedCompilationError(\n                    self, clauselist.operator\n                ) from err\n"), None)
R.mutant("benign-r2-constant-key-through-local", COMP,
         sub("            separator = OPERATORS[operators.and_]\n", "            and_op = operators.and_\n            separator = OPERATORS[and_op]\n"), None)

# --- round-2 seeds (str2-i): R8 constraint members, R9 str-or-expression values at str-only preparer methods
SQLITE = "dialects/sqlite/base.py"
PG = "dialects/postgresql/base.py"
_UQ_MEMBER = ('            col1 = list(constraint)[0]\n            if isinstance(col1, schema.SchemaItem):\n'
              '                on_conflict_clause = list(constraint)[0].dialect_options[\n                    "sqlite"\n'
              '                ]["on_conflict_unique"]\n')
R.mutant("r8-seed3-unique-member-guard-dropped", SQLITE,
         sub(_UQ_MEMBER, '            col1 = list(constraint)[0]\n            on_conflict_clause = col1.dialect_options["sqlite"][\n'
                         '                "on_conflict_unique"\n            ]\n'), "C22-R8")
R.mutant("r8-unique-member-guard-names-class-without-the-attribute", SQLITE,
         sub("            if isinstance(col1, schema.SchemaItem):\n", "            if isinstance(col1, elements.ColumnClause):\n"), "C22-R8")
R.mutant("r8-unique-body-reads-column-only-attribute", COMP,
         sub('            ", ".join(self.preparer.quote(c.name) for c in constraint),\n',
             '            ", ".join(\n                self.preparer.quote(c.name) for c in constraint if not c.system\n            ),\n'), "C22-R8")
R.mutant("r8-primary-key-attach-skips-non-columns", SCHEMA,
         sub("        for c in self._columns:\n            c.primary_key = True\n            if c._user_defined_nullable is NULL_UNSPECIFIED:\n",
             "        for c in self._columns:\n            if not isinstance(c, Column):\n                continue\n"
             "            c.primary_key = True\n            if c._user_defined_nullable is NULL_UNSPECIFIED:\n"), "C22-R8")
R.mutant("benign-r8-unique-member-guard-inverted-alias-reused", SQLITE,
         sub(_UQ_MEMBER, '            col1 = list(constraint)[0]\n            if not isinstance(col1, schema.SchemaItem):\n                pass\n'
                         '            else:\n                on_conflict_clause = col1.dialect_options["sqlite"][\n'
                         '                    "on_conflict_unique"\n                ]\n'), None)
R.mutant("benign-r8-unique-member-option-through-helper", SQLITE,
         chain(sub(_UQ_MEMBER, '            on_conflict_clause = self._member_option(\n                list(constraint)[0], "on_conflict_unique"\n            )\n'),
               sub("    def visit_unique_constraint(self, constraint, **kw):\n",
                   "    def _member_option(self, col, key):\n        if isinstance(col, schema.SchemaItem):\n"
                   "            return col.dialect_options[\"sqlite\"][key]\n        return None\n\n"
                   "    def visit_unique_constraint(self, constraint, **kw):\n")), None)
R.mutant("benign-r8-unique-member-guard-in-the-condition", SQLITE,
         sub("        if on_conflict_clause is None and len(constraint.columns) == 1:\n" + _UQ_MEMBER,
             "        if (\n            on_conflict_clause is None\n            and len(constraint.columns) == 1\n"
             "            and isinstance(list(constraint)[0], sa_schema.Column)\n        ):\n"
             "            on_conflict_clause = list(constraint)[0].dialect_options[\n                \"sqlite\"\n"
             "            ][\"on_conflict_unique\"]\n"), None)

_PG_KEY = ("                key_text = (\n                    self.preparer.quote(k)\n                    if isinstance(k, str)\n"
           "                    else self.process(k, use_schema=False)\n                )\n")
_SQLITE_KEY = ("                key_text = (\n                    self.preparer.quote(k)\n                    if isinstance(k, str)\n"
               "                    else self.process(k, **set_kw)\n                )\n")
R.mutant("r9-seed4-pg-extra-set-key-quoted-unconditionally", PG,
         sub(_PG_KEY, "                key_text = self.preparer.quote(k)\n"), "C22-R9")
R.mutant("r9-sqlite-extra-set-key-quoted-unconditionally", SQLITE,
         sub(_SQLITE_KEY, "                key_text = self.preparer.quote(k)\n"), "C22-R9")
R.mutant("r9-pg-target-element-test-inverted", PG,
         sub("                    self.preparer.quote(c)\n                    if isinstance(c, str)\n",
             "                    self.preparer.quote(c)\n                    if not isinstance(c, str)\n"), "C22-R9")
R.mutant("r9-pg-set-key-quoted-through-bound-method", PG,
         sub(_PG_KEY, "                quote = self.preparer.quote\n                key_text = quote(k)\n"), "C22-R9")
R.mutant("benign-r9-pg-set-key-ternary-inverted", PG,
         sub(_PG_KEY, "                key_text = (\n                    self.process(k, use_schema=False)\n"
                      "                    if not isinstance(k, str)\n                    else self.preparer.quote(k)\n                )\n"), None)
R.mutant("benign-r9-pg-set-key-flag-and-statement-branch", PG,
         sub(_PG_KEY, "                is_name = isinstance(k, str)\n                if is_name:\n"
                      "                    key_text = self.preparer.quote(k)\n                else:\n"
                      "                    key_text = self.process(k, use_schema=False)\n"), None)
R.mutant("benign-r9-pg-set-key-through-helper", PG,
         chain(sub(_PG_KEY, "                key_text = self._render_set_key(k)\n"),
               sub("    def visit_on_conflict_do_update(self, on_conflict, **kw):\n",
                   "    def _render_set_key(self, key):\n        if isinstance(key, str):\n            return self.preparer.quote(key)\n"
                   "        return self.process(key, use_schema=False)\n\n"
                   "    def visit_on_conflict_do_update(self, on_conflict, **kw):\n")), None)
R.mutant("r9-pg-set-key-helper-without-the-test", PG,
         chain(sub(_PG_KEY, "                key_text = self._render_set_key(k)\n"),
               sub("    def visit_on_conflict_do_update(self, on_conflict, **kw):\n",
                   "    def _render_set_key(self, key):\n        return self.preparer.quote(key)\n\n"
                   "    def visit_on_conflict_do_update(self, on_conflict, **kw):\n")), "C22-R9")
R.mutant("benign-r8-unique-member-probed-with-hasattr", SQLITE,
         sub("            if isinstance(col1, schema.SchemaItem):\n", "            if hasattr(col1, \"dialect_options\"):\n"), None)
R.mutant("benign-r9-pg-set-key-elements-excluded", PG,
         sub(_PG_KEY, "                if isinstance(k, elements.ClauseElement):\n                    key_text = self.process(k, use_schema=False)\n"
                      "                else:\n                    key_text = self.preparer.quote(k)\n"), None)
R.mutant("r9-pg-set-key-only-columnclause-excluded", PG,
         sub(_PG_KEY, "                if isinstance(k, schema.Column):\n                    key_text = self.process(k, use_schema=False)\n"
                      "                else:\n                    key_text = self.preparer.quote(k)\n"), "C22-R9")
