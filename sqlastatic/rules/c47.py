"""C47 -- With autoflush on, queries see pending changes (autoflush call-site agreement)."""

from __future__ import annotations

import ast
from typing import Dict, List, Set

from ..astutil import calls_in, const_str, dotted, name_stores, own_exprs, raises_of, unparse, walk_local, walk_stmts
from ..report import Registry, sub
from ._helpers_rules_d import call_nodes, callee_is, const_is, guard_atom_set, qualname

R = Registry(
    "C47",
    title="With autoflush on, queries see all pending changes",
    decides=(
        "every concrete orm_pre_session_exec accepts the `autoflush` execution option and calls session._autoflush() "
        "exactly under `not is_pre_event and <options>._autoflush`; Session._execute_internal autoflushes Core "
        "statements unconditionally and ORM statements through the real (is_pre_event=False) pre-exec call before a "
        "connection is obtained; refresh / merge(load) / merge_result autoflush before loading; Session._autoflush "
        "flushes iff autoflush is on and no flush is running, annotating statement errors; the _autoflush load option "
        "defaults to True and is switched off only by the enumerated owners; primary-key and lazy loads go through "
        "session.execute()."
    ),
    not_decided="equivalence of query results with an explicit flush; events that re-enter the session during flush.",
)

SESSION = "orm/session.py"
CONTEXT = "orm/context.py"
BULK = "orm/bulk_persistence.py"
LOADING = "orm/loading.py"
STRAT = "orm/strategies.py"
QUERY = "orm/query.py"


def _is_abstract(f) -> bool:
    body = [s for s in f.node.body if not (isinstance(s, ast.Expr) and isinstance(s.value, ast.Constant))]
    return len(body) == 1 and isinstance(body[0], ast.Raise) and "NotImplementedError" in unparse(body[0])


def _pre_exec_impls(ctx):
    out = []
    for m in ctx.index.all_modules():
        if not m.relpath.startswith("orm/") or "orm_pre_session_exec" not in m.source:
            continue
        for c in ctx.index._all_classes(m):
            f = c.methods.get("orm_pre_session_exec")
            if f is not None and not _is_abstract(f):
                out.append(f)
    return sorted(out, key=lambda f: f.key)


@R.rule("C47-R1", floor=15, template="T-SIBLING/T-PATH",
        desc="every concrete orm_pre_session_exec honours the `autoflush` option and autoflushes exactly under "
             "`not is_pre_event and opts._autoflush`; _execute_internal autoflushes before obtaining a connection "
             "(Core: unconditionally; ORM: real pre-exec call); refresh/merge/merge_result autoflush before loading")
def r1(ctx):
    impls = _pre_exec_impls(ctx)
    ctx.require(len(impls) >= 4, f"only {len(impls)} concrete orm_pre_session_exec implementations found")
    for f in impls:
        g = ctx.cfg(f)
        # the options object produced by from_execution_options(...)
        opts: Set[str] = set()
        accepts = False
        for st in walk_stmts(f.node.body):
            if isinstance(st, ast.Assign) and isinstance(st.value, ast.Call) and callee_is(st.value, "from_execution_options"):
                for t in st.targets:
                    if isinstance(t, ast.Tuple) and t.elts and isinstance(t.elts[0], ast.Name):
                        opts.add(t.elts[0].id)
                for a in st.value.args:
                    if isinstance(a, (ast.Set, ast.List, ast.Tuple)) and any(const_str(e) == "autoflush" for e in a.elts):
                        accepts = True
        ctx.check(accepts and bool(opts), f"{f.key}:accepts-autoflush-option", "the `autoflush` execution option is not among the keys consumed by from_execution_options()",
                  "execution_options(autoflush=...) is consumed", f.loc)
        flushes = call_nodes(g, lambda c: callee_is(c, "session._autoflush"))
        pre = f.params[-1] if f.params and "pre_event" in f.params[-1] else "is_pre_event"
        good = len(flushes) >= 1
        seen = []
        for n in flushes:
            atoms = guard_atom_set(g, n)
            seen.append(sorted(atoms))
            want_any = [{(pre, False), (f"{o}._autoflush", True)} for o in opts]
            good = good and any(atoms == w for w in want_any)
        ctx.check(good, f"{f.key}:autoflush-guard",
                  f"session._autoflush() is not called exactly under `not {pre} and <options>._autoflush` (guards found: {seen})",
                  f"guarded by not {pre} and options._autoflush only", f.loc)
    # --- Session._execute_internal
    f = ctx.func(f"{SESSION}::Session._execute_internal")
    g = ctx.cfg(f)
    core = call_nodes(g, lambda c: callee_is(c, "self._autoflush"))
    real = call_nodes(g, lambda c: callee_is(c, "orm_pre_session_exec") and c.args and const_is(c.args[-1], False))
    conn = call_nodes(g, lambda c: callee_is(c, "self._connection_for_bind") or callee_is(c, "self.connection"))
    ctx.require(conn, "_execute_internal never obtains a connection")
    # the only condition a Core autoflush may depend on: "no ORM compile-state plugin", spelled in any way
    def _core_guard(n):
        return {("compile_state_cls is None", True) if a == ("compile_state_cls", False) else a for a in guard_atom_set(g, n)}
    good = bool(core) and all(_core_guard(n) <= {("compile_state_cls is None", True)} for n in core)
    ctx.check(good, f"{f.key}:core-autoflush", "Core statements are not autoflushed unconditionally (only condition allowed: no ORM compile-state plugin)",
              "self._autoflush() guarded by nothing but `compile_state_cls is None`", f.loc)
    w = g.always_preceded(conn[0], core + real)
    ctx.check(w is None and bool(real), f"{f.key}:autoflush-before-connection",
              "a connection can be obtained / the statement executed without autoflush (neither self._autoflush() nor orm_pre_session_exec(..., False) on the path)",
              "every path to the connection passes autoflush or the real pre-exec call", f.loc, w)
    # every way the statement is handed to the database is dominated by an autoflush: one instance per execution exit
    # (a method of the connection obtained above, or the compile state's orm_execute_statement)
    conn_names = {nm for nm, v, st in name_stores(f.node) if isinstance(v, ast.Call) and (callee_is(v, "self._connection_for_bind") or callee_is(v, "self.connection"))}
    ctx.require(conn_names, "_execute_internal does not bind the connection to a local")
    exits: Dict[str, List[int]] = {}
    for n in g.nodes:
        if n.stmt is None or n.kind in ("with_exit", "handler", "join") or not isinstance(n.stmt, ast.stmt):
            continue
        for part in own_exprs(n.stmt):
            for c in calls_in(part):
                if isinstance(c.func, ast.Attribute) and isinstance(c.func.value, ast.Name) and c.func.value.id in conn_names:
                    exits.setdefault(f"conn.{c.func.attr}", []).append(n.id)
                elif callee_is(c, "orm_execute_statement"):
                    exits.setdefault("orm_execute_statement", []).append(n.id)
    ctx.require(len(exits) >= 2, f"_execute_internal: statement execution exits not understood ({sorted(exits)})")
    for nm, nodes in sorted(exits.items()):
        w = None
        for nid in nodes:
            w = w or g.always_preceded(nid, core + real)
        ctx.check(w is None, f"{f.key}:autoflush-before[{nm}]",
                  f"the statement can reach {nm}(...) on a path that passed neither self._autoflush() nor the real "
                  f"orm_pre_session_exec(..., False) call: pending changes are not flushed before this query runs",
                  f"autoflush / real pre-exec dominates {nm}()", f.loc, w)
    # --- refresh
    f = ctx.func(f"{SESSION}::Session.refresh")
    g = ctx.cfg(f)
    af = call_nodes(g, lambda c: callee_is(c, "self._autoflush"))
    ld = call_nodes(g, lambda c: callee_is(c, "_load_on_ident"))
    ctx.require(ld, "refresh() does not load")
    w = g.always_preceded(ld[0], af)
    ctx.check(w is None and bool(af), f"{f.key}:autoflush-before-load", "refresh() can load without autoflushing first", "autoflush dominates _load_on_ident", f.loc, w)
    # --- merge family
    for key, target in ((f"{SESSION}::Session.merge", "_merge"), (f"{SESSION}::Session.merge_all", "_merge"),
                        (f"{LOADING}::merge_frozen_result", None), (f"{LOADING}::merge_result", None)):
        f = ctx.func(key)
        g = ctx.cfg(f)
        af = call_nodes(g, lambda c: callee_is(c, "_autoflush"))
        good = bool(af) and all(guard_atom_set(g, n) == {("load", True)} for n in af)
        if good and target:
            tg = call_nodes(g, lambda c, target=target: callee_is(c, target))
            # with load=True the merge is preceded by the autoflush
            tests = [t.id for t in g.nodes if t.kind == "test" and unparse(t.stmt.test) == "load"]
            for t in tests:
                trues = [b for b, lab in g.succ[t] if lab == "true"]
                if tg and g.witness(trues, tg, avoid=af) is not None and not (set(trues) & set(af)):
                    good = False
        ctx.check(good, f"{f.key}:autoflush-when-load", "does not autoflush exactly when load=True, before merging", "if load: _autoflush()", f.loc)


@R.rule("C47-R2", floor=2, template="T-GUARD",
        desc="Session._autoflush flushes iff `self.autoflush and not self._flushing` and re-raises statement errors with the autoflush note")
def r2(ctx):
    f = ctx.func(f"{SESSION}::Session._autoflush")
    g = ctx.cfg(f)
    fl = call_nodes(g, lambda c: callee_is(c, "self.flush"))
    ctx.require(fl, "_autoflush never flushes")
    good = all(guard_atom_set(g, n) == {("self.autoflush", True), ("self._flushing", False)} for n in fl)
    ctx.check(good, f"{f.key}:guard", "flush() is not called exactly under `self.autoflush and not self._flushing`", "autoflush and not _flushing", f.loc)
    ok_h = False
    for n in walk_local(f.node):
        if isinstance(n, ast.ExceptHandler):
            has_note = any(callee_is(c, "add_detail") and c.args and "autoflush" in (unparse(c.args[0])) for s in n.body for c in calls_in(s))
            reraises = any(isinstance(s, ast.Raise) for s in n.body)
            ok_h = ok_h or (has_note and reraises)
    swallow = [n for n in walk_local(f.node) if isinstance(n, ast.ExceptHandler) and not any(isinstance(s, ast.Raise) for s in walk_stmts(n.body))]
    ctx.check(ok_h and not swallow, f"{f.key}:error-note", "flush errors raised by autoflush are swallowed or not annotated with the autoflush note",
              "StatementError annotated and re-raised", f.loc)


# who may switch the per-statement autoflush option off
AUTOFLUSH_OPTION_OWNERS = {
    f"{QUERY}::Query.autoflush": "documented API Query.autoflush(setting)",
    f"{LOADING}::_load_on_pk_identity": "no_autoflush=True: the caller (Session.refresh) has just autoflushed; lazy loads with PASSIVE NO_AUTOFLUSH",
    f"{STRAT}::_LazyLoader._emit_lazyload": "documented: no autoflush for a lazy load on a pending object or under NO_AUTOFLUSH",
}


@R.rule("C47-R3", floor=6, template="T-FLOW/T-OWN",
        desc="the _autoflush option of the three ORM option classes defaults to True; it is set through "
             "`{'_autoflush': ..}` / execution option `autoflush` only by the enumerated owners")
def r3(ctx):
    for rel, cls_key, inner in ((CONTEXT, "QueryContext", "default_load_options"), (BULK, "_BulkUDCompileState", "default_update_options"), (BULK, "_BulkORMInsert", "default_insert_options")):
        c = ctx.index.cls(f"{rel}::{cls_key}")
        inner_cls = None
        for n in c.node.body:
            if isinstance(n, ast.ClassDef) and n.name == inner:
                inner_cls = n
        ctx.require(inner_cls is not None, f"{cls_key}.{inner} not found")
        val = None
        for st in inner_cls.body:
            if isinstance(st, ast.Assign) and any(isinstance(t, ast.Name) and t.id == "_autoflush" for t in st.targets):
                val = st.value
            if isinstance(st, ast.AnnAssign) and isinstance(st.target, ast.Name) and st.target.id == "_autoflush":
                val = st.value
        ctx.check(val is not None and const_is(val, True), f"{rel}::{cls_key}.{inner}:_autoflush-default",
                  f"{inner}._autoflush does not default to True", "_autoflush = True", c.loc)
    found: Dict[str, str] = {}
    for m in ctx.index.all_modules():
        if not m.relpath.startswith("orm/") and not m.relpath.startswith("ext/"):
            continue
        if "autoflush" not in m.source:
            continue
        pm = None
        for n in ast.walk(m.tree):
            if isinstance(n, ast.Dict):
                for k, v in zip(n.keys, n.values):
                    ks = const_str(k) if k is not None else None
                    if ks == "_autoflush" or (ks == "autoflush" and const_is(v, False)):
                        pm = pm or m.parents()
                        found[f"{m.relpath}::{qualname(pm, n)}"] = f"{m.path}:{n.lineno}"
    for fk, loc in sorted(found.items()):
        ctx.check(fk in AUTOFLUSH_OPTION_OWNERS, f"{fk}:sets-autoflush-option", "the per-statement autoflush option is switched by a function that is not an enumerated owner",
                  AUTOFLUSH_OPTION_OWNERS.get(fk, ""), loc)


@R.rule("C47-R4", floor=3, template="T-PATH",
        desc="primary-key loads (Session.get) and lazy loads execute through session.execute(), i.e. through the "
             "autoflushing pre-exec hook, not through a private connection path")
def r4(ctx):
    f = ctx.func(f"{LOADING}::_load_on_pk_identity")
    ex = [c for c in calls_in(f.node) if callee_is(c, "session.execute")]
    direct = [unparse(c.func) for c in calls_in(f.node) if isinstance(c.func, ast.Attribute) and c.func.attr in ("connection", "_connection_for_bind", "exec_driver_sql")]
    ctx.check(bool(ex) and not direct, f"{f.key}:through-session-execute", f"_load_on_pk_identity does not load through session.execute() (direct paths: {direct})", "session.execute(q, ...)", f.loc)
    g = ctx.func(f"{SESSION}::Session.get")
    passes = any(callee_is(c, "self._get_impl") and any(dotted(a) == "loading._load_on_pk_identity" for a in list(c.args) + [k.value for k in c.keywords]) for c in calls_in(g.node))
    ctx.check(passes, f"{g.key}:uses-pk-loader", "Session.get does not hand loading._load_on_pk_identity to _get_impl", "db_load_fn=loading._load_on_pk_identity", g.loc)
    lz = ctx.func(f"{STRAT}::_LazyLoader._emit_lazyload")
    ex = [c for c in calls_in(lz.node) if callee_is(c, "session.execute")]
    direct = [unparse(c.func) for c in calls_in(lz.node) if isinstance(c.func, ast.Attribute) and c.func.attr in ("connection", "_connection_for_bind", "exec_driver_sql")]
    ctx.check(bool(ex) and not direct, f"{lz.key}:through-session-execute", f"the lazy loader does not load through session.execute() (direct paths: {direct})", "session.execute(stmt, ...)", lz.loc)


# ---------------------------------------------------------------------- self-test battery
R.mutant("select-autoflush-during-pre-event", CONTEXT, sub("        if not is_pre_event and load_options._autoflush:\n            session._autoflush()\n\n        return statement, execution_options, params\n", "        if load_options._autoflush:\n            session._autoflush()\n\n        return statement, execution_options, params\n", count=2), "C47-R1")
R.mutant("bulk-insert-never-autoflushes", BULK, sub("        if not is_pre_event and insert_options._autoflush:\n            session._autoflush()\n", "        if is_pre_event and insert_options._autoflush:\n            session._autoflush()\n"), "C47-R1")
R.mutant("bulk-ud-ignores-autoflush-option", BULK, sub("                \"synchronize_session\",\n                \"autoflush\",\n                \"populate_existing\",\n                \"identity_token\",", "                \"synchronize_session\",\n                \"populate_existing\",\n                \"identity_token\","), "C47-R1")
R.mutant("core-autoflush-conditional", SESSION, sub("            # Issue #9809: unconditionally autoflush for Core statements\n            self._autoflush()\n", "            # Issue #9809: unconditionally autoflush for Core statements\n            if params:\n                self._autoflush()\n"), "C47-R1")
R.mutant("orm-real-pre-exec-marked-pre-event", SESSION, sub("                combined_execution_options,\n                bind_arguments,\n                False,\n            )\n        else:", "                combined_execution_options,\n                bind_arguments,\n                True,\n            )\n        else:"), "C47-R1")
R.mutant("refresh-autoflush-after-load", SESSION, sub("        # load_on_ident.\n        self._autoflush()\n\n        if with_for_update == {}:", "        # load_on_ident.\n\n        if with_for_update == {}:"), "C47-R1")
R.mutant("merge-autoflush-when-not-load", SESSION, sub("            self._flush_warning(\"Session.merge()\")\n\n        if load:\n", "            self._flush_warning(\"Session.merge()\")\n\n        if not load:\n"), "C47-R1")
R.mutant("autoflush-ignores-setting", SESSION, sub("        if self.autoflush and not self._flushing:\n            try:\n                self.flush()", "        if not self._flushing:\n            try:\n                self.flush()"), "C47-R2")
R.mutant("autoflush-swallows-error", SESSION, sub("                raise e.with_traceback(sys.exc_info()[2])\n\n    def refresh(", "                pass\n\n    def refresh("), "C47-R2")
R.mutant("autoflush-default-off", CONTEXT, sub("        _autoflush = True\n", "        _autoflush = False\n"), "C47-R3")
R.mutant("selectin-disables-autoflush", STRAT, sub("            result = context.session.execute(\n", "            q = q.execution_options(**{\"autoflush\": False}) if False else q\n            _o = {\"autoflush\": False}\n            result = context.session.execute(\n", count=2), "C47-R3")
R.mutant("pk-load-through-connection", LOADING, sub("        session.execute(\n            q,\n", "        session.connection().execute(\n            q,\n"), "C47-R4")
R.mutant("get-uses-other-loader", SESSION, sub("            loading._load_on_pk_identity,\n", "            loading._load_on_ident,\n", count=1), "C47-R4")
# benign
R.mutant("benign-rename-load-options", CONTEXT, sub("        if not is_pre_event and load_options._autoflush:\n            session._autoflush()\n\n        return statement, execution_options, params\n", "        if load_options._autoflush and not is_pre_event:\n            session._autoflush()\n\n        return statement, execution_options, params\n", count=2), None)
R.mutant("benign-autoflush-log", SESSION, sub("        if self.autoflush and not self._flushing:\n            try:\n                self.flush()", "        if self.autoflush and not self._flushing:\n            try:\n                _n = len(self._new)\n                self.flush()"), None)
