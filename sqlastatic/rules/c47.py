"""C47 -- With autoflush on, queries see pending changes (autoflush call-site agreement)."""

from __future__ import annotations

import ast
from typing import Dict, List, Set

from ..astutil import calls_in, const_str, dotted, lexical_guards, name_stores, own_exprs, raises_of, unparse, walk_local, walk_stmts
from ..report import Registry, chain, sub
from ._helpers_rules_d import call_nodes, callee_is, const_is, guard_atom_set, qualname
from ._helpers_rob_g2 import calls_of_name, normal_form, owners_through_helpers, single_defs

R = Registry(
    "C47",
    title="With autoflush on, queries see all pending changes",
    decides=(
        "every concrete orm_pre_session_exec accepts the `autoflush` execution option and calls session._autoflush() "
        "exactly under `not is_pre_event and <options>._autoflush`; Session._execute_internal autoflushes Core "
        "statements unconditionally and ORM statements through the real (is_pre_event=False) pre-exec call before a "
        "connection is obtained; refresh / merge(load) / merge_result autoflush before loading; Session._autoflush "
        "flushes iff autoflush is on and no flush is running, annotating statement errors; the _autoflush load option "
        "defaults to True and is switched off only by the enumerated owners; primary-key and lazy loads go through "
        "session.execute(); every execution exit of Session._execute_internal (conn.execute / conn.scalar / "
        "orm_execute_statement) is dominated by the autoflush of its world (Core / ORM); every site that runs a statement "
        "with autoflush switched off does so under a condition that implies a whitelisted reason (pending parent, "
        "NO_AUTOFLUSH passive flag, caller's no_autoflush request, autoflush just performed); Session.autoflush is "
        "switched off only temporarily (saved, restored on every exit); loaders that key their SELECT on the state of an "
        "in-session instance autoflush before reading that state."
    ),
    not_decided="equivalence of query results with an explicit flush; events that re-enter the session during flush.",
)

SESSION = "orm/session.py"
CONTEXT = "orm/context.py"
BULK = "orm/bulk_persistence.py"
LOADING = "orm/loading.py"
STRAT = "orm/strategies.py"
QUERY = "orm/query.py"


# calls the rules recognise by name: never inlined by the normal form
VOCAB = ("_autoflush", "flush", "from_execution_options", "orm_pre_session_exec", "_connection_for_bind", "connection",
         "_get_plugin_class_for_plugin", "orm_execute_statement", "execute", "scalar", "get_bind", "_merge", "_load_on_ident",
         "_load_on_pk_identity", "_emit_lazyload", "add_detail", "_flush_warning")


def _nf(ctx, f, inline=True):
    """normal form: extracted helpers inlined (except the rules' vocabulary), call-free single-assignment locals
    (`do_flush = not is_pre_event and load_options._autoflush`) resolved"""
    return normal_form(ctx, f, keep=VOCAB, alias="all", inline=inline, foreign=False)


def _is_abstract(f) -> bool:
    body = [s for s in f.node.body if not (isinstance(s, ast.Expr) and isinstance(s.value, ast.Constant))]
    return len(body) == 1 and isinstance(body[0], ast.Raise) and "NotImplementedError" in unparse(body[0])


def _pre_exec_impls(ctx):
    out = []
    for m in ctx.index.all_modules():
        if not m.relpath.startswith("orm/") or "orm_pre_session_exec" not in m.source:
            continue
        for c in ctx.index._all_classes(m):
            f = c.methods.get("orm_pre_session_exec")
            if f is not None and not _is_abstract(f):
                out.append(f)
    return sorted(out, key=lambda f: f.key)


@R.rule("C47-R1", floor=15, template="T-SIBLING/T-PATH",
        desc="every concrete orm_pre_session_exec honours the `autoflush` option and autoflushes exactly under "
             "`not is_pre_event and opts._autoflush`; in _execute_internal every execution exit (conn.execute, conn.scalar, "
             "orm_execute_statement) is dominated by self._autoflush() (Core: unconditionally) / the real pre-exec call "
             "(ORM, also before the connection is obtained); refresh/merge/merge_result autoflush before loading")
def r1(ctx):
    impls = _pre_exec_impls(ctx)
    ctx.require(len(impls) >= 4, f"only {len(impls)} concrete orm_pre_session_exec implementations found")
    for f in impls:
        f = _nf(ctx, f)
        g = ctx.cfg(f)
        # the options object produced by from_execution_options(...)
        opts: Set[str] = set()
        accepts = False
        for st in walk_stmts(f.node.body):
            if isinstance(st, ast.Assign) and isinstance(st.value, ast.Call) and callee_is(st.value, "from_execution_options"):
                for t in st.targets:
                    if isinstance(t, ast.Tuple) and t.elts and isinstance(t.elts[0], ast.Name):
                        opts.add(t.elts[0].id)
                for a in st.value.args:
                    if isinstance(a, (ast.Set, ast.List, ast.Tuple)) and any(const_str(e) == "autoflush" for e in a.elts):
                        accepts = True
        ctx.check(accepts and bool(opts), f"{f.key}:accepts-autoflush-option", "the `autoflush` execution option is not among the keys consumed by from_execution_options()",
                  "execution_options(autoflush=...) is consumed", f.loc)
        flushes = call_nodes(g, lambda c: callee_is(c, "session._autoflush"))
        pre = f.params[-1] if f.params and "pre_event" in f.params[-1] else "is_pre_event"
        good = len(flushes) >= 1
        seen = []
        for n in flushes:
            atoms = guard_atom_set(g, n)
            seen.append(sorted(atoms))
            want_any = [{(pre, False), (f"{o}._autoflush", True)} for o in opts]
            good = good and any(atoms == w for w in want_any)
        ctx.check(good, f"{f.key}:autoflush-guard",
                  f"session._autoflush() is not called exactly under `not {pre} and <options>._autoflush` (guards found: {seen})",
                  f"guarded by not {pre} and options._autoflush only", f.loc)
    # --- Session._execute_internal
    f = _nf(ctx, ctx.func(f"{SESSION}::Session._execute_internal"))
    g = ctx.cfg(f)
    core = call_nodes(g, lambda c: callee_is(c, "self._autoflush"))
    real = call_nodes(g, lambda c: callee_is(c, "orm_pre_session_exec") and c.args and const_is(c.args[-1], False))
    conn = call_nodes(g, lambda c: callee_is(c, "self._connection_for_bind") or callee_is(c, "self.connection"))
    ctx.require(conn, "_execute_internal never obtains a connection")
    # The function branches several times on "does the statement have the ORM compile-state plugin".  The CFG does not
    # correlate those tests, so dominance is decided once per world: Core (plugin class is None: the autoflush is the
    # direct self._autoflush() call) and ORM (plugin class present: the autoflush is the real pre-exec call).
    plug = {nm for nm, v, st in name_stores(f.node) if isinstance(v, ast.Call) and callee_is(v, "_get_plugin_class_for_plugin")}
    ctx.require(len(plug) == 1, "_execute_internal: the local holding the ORM compile-state plugin class was not found")
    plug = next(iter(plug))

    def truth(e, is_none):
        """three-valued value of a test when `plug is None` == is_none (None = unknown)"""
        if isinstance(e, ast.Name) and e.id == plug:
            return not is_none
        if isinstance(e, ast.UnaryOp) and isinstance(e.op, ast.Not):
            v = truth(e.operand, is_none)
            return None if v is None else not v
        if isinstance(e, ast.Compare) and len(e.ops) == 1 and isinstance(e.left, ast.Name) and e.left.id == plug \
                and isinstance(e.comparators[0], ast.Constant) and e.comparators[0].value is None:
            if isinstance(e.ops[0], ast.Is):
                return is_none
            if isinstance(e.ops[0], ast.IsNot):
                return not is_none
        if isinstance(e, ast.BoolOp):
            vs = [truth(v, is_none) for v in e.values]
            if isinstance(e.op, ast.And):
                return False if any(v is False for v in vs) else (True if all(v is True for v in vs) else None)
            return True if any(v is True for v in vs) else (False if all(v is False for v in vs) else None)
        return None

    def world(is_none):
        def ok(a, b, lab):
            n = g.nodes[a]
            if n.kind == "test" and lab in ("true", "false") and isinstance(n.stmt, (ast.If, ast.While)):
                v = truth(n.stmt.test, is_none)
                if v is not None and v != (lab == "true"):
                    return False
            return True
        return ok

    worlds = (("Core", world(True), core), ("ORM", world(False), real))

    def undominated(nid):
        """(world name, witness) of a path to nid that passes no autoflush of that world; None if none; 'dead' if unreachable"""
        alive = False
        for wn, ok, by in worlds:
            if nid not in g.reachable([g.entry], edge_ok=ok):
                continue
            alive = True
            w = g.always_preceded(nid, by, edge_ok=ok)
            if w is not None:
                return wn, w
        return None if alive else "dead"

    r = undominated(conn[0])
    ctx.require(r != "dead", "_execute_internal: the connection is unreachable")
    # ORM: the real pre-exec call also rewrites statement / bind_arguments that get_bind() consumes, so it must precede
    # the connection.  (Core: only the order relative to the execution matters, see the per-exit instances below.)
    ctx.check(bool(real) and not (r and r[0] == "ORM"), f"{f.key}:autoflush-before-connection",
              "for an ORM statement a connection can be obtained without the real orm_pre_session_exec(..., False) call (which autoflushes) on the path",
              "with the ORM plugin every path to the connection passes the real pre-exec call", f.loc, r[1] if r else None)
    # every way the statement is handed to the database is dominated by an autoflush: one instance per execution exit
    # (a method of the connection obtained above, or the compile state's orm_execute_statement)
    conn_names = {nm for nm, v, st in name_stores(f.node) if isinstance(v, ast.Call) and (callee_is(v, "self._connection_for_bind") or callee_is(v, "self.connection"))}
    ctx.require(conn_names, "_execute_internal does not bind the connection to a local")
    exits: Dict[str, List[int]] = {}
    for n in g.nodes:
        if n.stmt is None or n.kind in ("with_exit", "handler", "join") or not isinstance(n.stmt, ast.stmt):
            continue
        for part in own_exprs(n.stmt):
            for c in calls_in(part):
                recv = c.func.value if isinstance(c.func, ast.Attribute) else None
                if isinstance(recv, ast.Name) and recv.id in conn_names:
                    exits.setdefault(f"conn.{c.func.attr}", []).append(n.id)
                elif isinstance(recv, ast.Call) and (callee_is(recv, "self._connection_for_bind") or callee_is(recv, "self.connection")):
                    exits.setdefault(f"{unparse(recv.func)}().{c.func.attr}", []).append(n.id)
                elif callee_is(c, "orm_execute_statement"):
                    exits.setdefault("orm_execute_statement", []).append(n.id)
    ctx.require(len(exits) >= 2, f"_execute_internal: statement execution exits not understood ({sorted(exits)})")
    core_bad = None
    for nm, nodes in sorted(exits.items()):
        bad = None
        for nid in nodes:
            r = undominated(nid)
            ctx.require(r != "dead", f"_execute_internal: {nm}() is unreachable")
            bad = bad or r
            if r and r[0] == "Core":
                core_bad = core_bad or (nm, r[1])
        ctx.check(bad is None, f"{f.key}:autoflush-before[{nm}]",
                  f"a {bad[0] if bad else ''} statement can reach {nm}(...) on a path that passed neither self._autoflush() nor the real "
                  f"orm_pre_session_exec(..., False) call: pending changes are not flushed before this query runs",
                  f"autoflush / real pre-exec dominates {nm}()", f.loc, bad[1] if bad else None)
    ctx.check(bool(core) and core_bad is None, f"{f.key}:core-autoflush",
              "Core statements (no ORM compile-state plugin) are not autoflushed unconditionally (issue #9809)"
              + (f": {core_bad[0]}() is reachable without self._autoflush()" if core_bad else ""),
              "without the ORM plugin every path to an execution passes self._autoflush()", f.loc, core_bad[1] if core_bad else None)
    # --- refresh
    f = _nf(ctx, ctx.func(f"{SESSION}::Session.refresh"))
    g = ctx.cfg(f)
    af = call_nodes(g, lambda c: callee_is(c, "self._autoflush"))
    ld = call_nodes(g, lambda c: callee_is(c, "_load_on_ident"))
    ctx.require(ld, "refresh() does not load")
    w = g.always_preceded(ld[0], af)
    ctx.check(w is None and bool(af), f"{f.key}:autoflush-before-load", "refresh() can load without autoflushing first", "autoflush dominates _load_on_ident", f.loc, w)
    # --- merge family
    for key, target in ((f"{SESSION}::Session.merge", "_merge"), (f"{SESSION}::Session.merge_all", "_merge"),
                        (f"{LOADING}::merge_frozen_result", None), (f"{LOADING}::merge_result", None)):
        f = _nf(ctx, ctx.func(key))
        g = ctx.cfg(f)
        af = call_nodes(g, lambda c: callee_is(c, "_autoflush"))
        good = bool(af) and all(guard_atom_set(g, n) == {("load", True)} for n in af)
        if good and target:
            tg = call_nodes(g, lambda c, target=target: callee_is(c, target))
            # with load=True the merge is preceded by the autoflush
            tests = [t.id for t in g.nodes if t.kind == "test" and unparse(t.stmt.test) == "load"]
            for t in tests:
                trues = [b for b, lab in g.succ[t] if lab == "true"]
                if tg and g.witness(trues, tg, avoid=af) is not None and not (set(trues) & set(af)):
                    good = False
        ctx.check(good, f"{f.key}:autoflush-when-load", "does not autoflush exactly when load=True, before merging", "if load: _autoflush()", f.loc)


@R.rule("C47-R2", floor=2, template="T-GUARD",
        desc="Session._autoflush flushes iff `self.autoflush and not self._flushing` and re-raises statement errors with the autoflush note")
def r2(ctx):
    f = _nf(ctx, ctx.func(f"{SESSION}::Session._autoflush"))
    g = ctx.cfg(f)
    fl = call_nodes(g, lambda c: callee_is(c, "self.flush"))
    ctx.require(fl, "_autoflush never flushes")
    good = all(guard_atom_set(g, n) == {("self.autoflush", True), ("self._flushing", False)} for n in fl)
    ctx.check(good, f"{f.key}:guard", "flush() is not called exactly under `self.autoflush and not self._flushing`", "autoflush and not _flushing", f.loc)
    ok_h = False
    for n in walk_local(f.node):
        if isinstance(n, ast.ExceptHandler):
            has_note = any(callee_is(c, "add_detail") and c.args and "autoflush" in (unparse(c.args[0])) for s in n.body for c in calls_in(s))
            reraises = any(isinstance(s, ast.Raise) for s in n.body)
            ok_h = ok_h or (has_note and reraises)
    swallow = [n for n in walk_local(f.node) if isinstance(n, ast.ExceptHandler) and not any(isinstance(s, ast.Raise) for s in walk_stmts(n.body))]
    ctx.check(ok_h and not swallow, f"{f.key}:error-note", "flush errors raised by autoflush are swallowed or not annotated with the autoflush note",
              "StatementError annotated and re-raised", f.loc)


# who may switch the per-statement autoflush option off
AUTOFLUSH_OPTION_OWNERS = {
    f"{QUERY}::Query.autoflush": "documented API Query.autoflush(setting)",
    f"{LOADING}::_load_on_pk_identity": "no_autoflush=True: the caller (Session.refresh) has just autoflushed; lazy loads with PASSIVE NO_AUTOFLUSH",
    f"{STRAT}::_LazyLoader._emit_lazyload": "documented: no autoflush for a lazy load on a pending object or under NO_AUTOFLUSH",
}


@R.rule("C47-R3", floor=6, template="T-FLOW/T-OWN",
        desc="the _autoflush option of the three ORM option classes defaults to True; it is set through "
             "`{'_autoflush': ..}` / execution option `autoflush` only by the enumerated owners")
def r3(ctx):
    for rel, cls_key, inner in ((CONTEXT, "QueryContext", "default_load_options"), (BULK, "_BulkUDCompileState", "default_update_options"), (BULK, "_BulkORMInsert", "default_insert_options")):
        c = ctx.index.cls(f"{rel}::{cls_key}")
        inner_cls = None
        for n in c.node.body:
            if isinstance(n, ast.ClassDef) and n.name == inner:
                inner_cls = n
        ctx.require(inner_cls is not None, f"{cls_key}.{inner} not found")
        val = None
        for st in inner_cls.body:
            if isinstance(st, ast.Assign) and any(isinstance(t, ast.Name) and t.id == "_autoflush" for t in st.targets):
                val = st.value
            if isinstance(st, ast.AnnAssign) and isinstance(st.target, ast.Name) and st.target.id == "_autoflush":
                val = st.value
        ctx.check(val is not None and const_is(val, True), f"{rel}::{cls_key}.{inner}:_autoflush-default",
                  f"{inner}._autoflush does not default to True", "_autoflush = True", c.loc)
    found: Dict[str, str] = {}
    for m in ctx.index.all_modules():
        if not m.relpath.startswith("orm/") and not m.relpath.startswith("ext/"):
            continue
        if "autoflush" not in m.source:
            continue
        pm = None
        for n in ast.walk(m.tree):
            if isinstance(n, ast.Dict):
                for k, v in zip(n.keys, n.values):
                    ks = const_str(k) if k is not None else None
                    if ks == "_autoflush" or (ks == "autoflush" and const_is(v, False)):
                        pm = pm or m.parents()
                        found[f"{m.relpath}::{qualname(pm, n)}"] = f"{m.path}:{n.lineno}"
    for fk, loc in sorted(found.items()):
        # (a private helper all of whose call sites lie in enumerated owners acts for them)
        acts_for = owners_through_helpers(ctx.index, fk, AUTOFLUSH_OPTION_OWNERS)
        ctx.check(bool(acts_for), f"{fk}:sets-autoflush-option", "the per-statement autoflush option is switched by a function that is not an enumerated owner",
                  AUTOFLUSH_OPTION_OWNERS.get(fk, "") or ("helper of " + ", ".join(a.split("::")[1] for a in acts_for or ())), loc)


@R.rule("C47-R4", floor=3, template="T-PATH",
        desc="primary-key loads (Session.get) and lazy loads execute through session.execute(), i.e. through the "
             "autoflushing pre-exec hook, not through a private connection path")
def r4(ctx):
    f = ctx.func(f"{LOADING}::_load_on_pk_identity")
    ex = [c for c in calls_in(f.node) if callee_is(c, "session.execute")]
    direct = [unparse(c.func) for c in calls_in(f.node) if isinstance(c.func, ast.Attribute) and c.func.attr in ("connection", "_connection_for_bind", "exec_driver_sql")]
    ctx.check(bool(ex) and not direct, f"{f.key}:through-session-execute", f"_load_on_pk_identity does not load through session.execute() (direct paths: {direct})", "session.execute(q, ...)", f.loc)
    g = ctx.func(f"{SESSION}::Session.get")
    passes = any(callee_is(c, "self._get_impl") and any(dotted(a) == "loading._load_on_pk_identity" for a in list(c.args) + [k.value for k in c.keywords]) for c in calls_in(g.node))
    ctx.check(passes, f"{g.key}:uses-pk-loader", "Session.get does not hand loading._load_on_pk_identity to _get_impl", "db_load_fn=loading._load_on_pk_identity", g.loc)
    lz = ctx.func(f"{STRAT}::_LazyLoader._emit_lazyload")
    ex = [c for c in calls_in(lz.node) if callee_is(c, "session.execute")]
    direct = [unparse(c.func) for c in calls_in(lz.node) if isinstance(c.func, ast.Attribute) and c.func.attr in ("connection", "_connection_for_bind", "exec_driver_sql")]
    ctx.check(bool(ex) and not direct, f"{lz.key}:through-session-execute", f"the lazy loader does not load through session.execute() (direct paths: {direct})", "session.execute(stmt, ...)", lz.loc)


# ---------------------------------------------------------------------- R5: why a loader may switch autoflush off
# The only reasons for which library code may run a statement with the autoflush step switched off.  A site whose
# condition does not imply one of them widens "no autoflush" to loads that the property says must see pending changes.
OFF_REASONS = {
    "pending-parent": "the parent object is pending (no identity key): `not <state>.key`",
    "no-autoflush-flag": "the caller passed the PASSIVE flag NO_AUTOFLUSH: `passive & NO_AUTOFLUSH`",
    "caller-request": "the function's own `no_autoflush` parameter (every call site passing it is itself an instance of this rule)",
    "just-autoflushed": "an _autoflush() call dominates the site in the same function",
    "committed-value-load": "the same flag set carries LOAD_AGAINST_COMMITTED: the load fetches the previous (committed) value of an "
                            "attribute that is being changed, for its history -- it is not a view of pending changes "
                            "(only for sites that add the NO_AUTOFLUSH passive flag)",
}
FOLLOWED_PARAMS = {"no_autoflush"}
# sites that are not loads on behalf of the application
OFF_EXEMPT = {
    "orm/dynamic.py::DynamicCollectionHistory.__init__": "history of a dynamic collection, computed for the unit of work / "
                                                         "get_history(); it must not start a flush itself",
}


def _enclosing_function(pm, node):
    cur = pm.get(node)
    while cur is not None and not isinstance(cur, (ast.FunctionDef, ast.AsyncFunctionDef)):
        cur = pm.get(cur)
    return cur


def _resolve_local(fn, e, depth=0):
    """replace a local name that is bound exactly once (and is not a parameter) by the bound expression"""
    if isinstance(e, ast.Name) and depth < 3:
        a = fn.args
        params = {x.arg for x in a.posonlyargs + a.args + a.kwonlyargs}
        if e.id in params:
            return e
        vals = [v for nm, v, st in name_stores(fn) if nm == e.id]
        if len(vals) == 1 and vals[0] is not None:
            return _resolve_local(fn, vals[0], depth + 1)
    return e


def _local_values(fn, name):
    a = fn.args
    if name in {x.arg for x in a.posonlyargs + a.args + a.kwonlyargs}:
        return None
    return [(v, st) for nm, v, st in name_stores(fn) if nm == name]


def _off_reason(fn, e, pol, g=None):
    """classify one atom of a condition; None when it is not a whitelisted reason"""
    e = _resolve_local(fn, e)
    if isinstance(e, ast.Name) and pol and g is not None:
        # a flag assigned in several places: every assigned value must be a whitelisted reason; a constant True only
        # where an _autoflush() call dominates the assignment ("just autoflushed")
        vals = _local_values(fn, e.id)
        if vals and len(vals) > 1 and all(v is not None for v, st in vals):
            af = call_nodes(g, lambda c: callee_is(c, "_autoflush"))
            got = set()
            for v, st in vals:
                if const_is(v, False):
                    continue
                if const_is(v, True):
                    ns = g.nodes_for(st)
                    if af and ns and all(g.always_preceded(n, af) is None for n in ns):
                        got.add("just-autoflushed")
                        continue
                    return None
                r = _implied_reasons(fn, v, True)
                if r is None:
                    return None
                got |= r
            if got:
                return "+".join(sorted(got))
            return None
    if isinstance(e, ast.UnaryOp) and isinstance(e.op, ast.Not):
        return _off_reason(fn, e.operand, not pol)
    if isinstance(e, ast.Call) and isinstance(e.func, ast.Name) and e.func.id == "bool" and len(e.args) == 1:
        return _off_reason(fn, e.args[0], pol)
    if isinstance(e, ast.Attribute) and e.attr == "key" and isinstance(e.value, ast.Name) and not pol:
        return "pending-parent"
    if isinstance(e, ast.Compare) and len(e.ops) == 1 and isinstance(e.left, ast.Attribute) and e.left.attr == "key" \
            and isinstance(e.comparators[0], ast.Constant) and e.comparators[0].value is None:
        if (isinstance(e.ops[0], ast.Is) and pol) or (isinstance(e.ops[0], ast.IsNot) and not pol):
            return "pending-parent"
    if isinstance(e, ast.BinOp) and isinstance(e.op, ast.BitAnd) and pol:
        for side in (e.left, e.right):
            if (dotted(side) or "").rsplit(".", 1)[-1] == "NO_AUTOFLUSH":
                return "no-autoflush-flag"
    if isinstance(e, ast.Name) and pol and e.id in FOLLOWED_PARAMS:
        a = fn.args
        if e.id in {x.arg for x in a.posonlyargs + a.args + a.kwonlyargs}:
            return "caller-request"
    return None


def _implied_reasons(fn, test, pol, g=None):
    """set of whitelisted reasons such that (test == pol) implies their disjunction; None if it implies none"""
    t = _resolve_local(fn, test)
    if isinstance(t, ast.UnaryOp) and isinstance(t.op, ast.Not):
        return _implied_reasons(fn, t.operand, not pol, g)
    if isinstance(t, ast.BoolOp):
        disj = (isinstance(t.op, ast.Or) and pol) or (isinstance(t.op, ast.And) and not pol)
        parts = [_implied_reasons(fn, v, pol, g) for v in t.values]
        if disj:                                  # every alternative must be a whitelisted reason
            if all(p is not None for p in parts):
                return set().union(*parts)
            return None
        got = [p for p in parts if p is not None]  # a conjunction: one whitelisted conjunct suffices
        return set().union(*got) if got else None
    r = _off_reason(fn, t, pol, g)
    return set(r.split("+")) if r else None


def _autoflush_off_sites(ctx):
    """[(module, function node, site node, kind, value-condition or None)] for every place in orm/ and ext/ that runs
    or prepares a statement with the autoflush step switched off"""
    out = []
    for m in ctx.index.all_modules():
        if not (m.relpath.startswith("orm/") or m.relpath.startswith("ext/")) or "autoflush" not in m.source:
            continue
        pm = m.parents()
        for n in ast.walk(m.tree):
            kind, cond = None, None
            if isinstance(n, ast.Dict):
                for k, v in zip(n.keys, n.values):
                    if k is not None and const_str(k) in ("autoflush", "_autoflush") and const_is(v, False):
                        kind = f"{{'{const_str(k)}': False}}"
            elif isinstance(n, ast.Call):
                if isinstance(n.func, ast.Attribute) and n.func.attr == "autoflush" and len(n.args) == 1 and const_is(n.args[0], False):
                    kind = ".autoflush(False)"
                for k in n.keywords:
                    if k.arg == "autoflush" and const_is(k.value, False) and isinstance(n.func, ast.Attribute) \
                            and n.func.attr in ("execution_options", "_execution_options", "update_execution_options"):
                        kind = "execution_options(autoflush=False)"
                    if k.arg in FOLLOWED_PARAMS and not const_is(k.value, False):
                        kind = f"{k.arg}="
                        cond = None if const_is(k.value, True) else k.value
            if kind is None:
                continue
            fn = _enclosing_function(pm, n)
            if fn is None:
                continue
            out.append((m, pm, fn, n, kind, cond))
    return out


# ---- sites that *manufacture* the NO_AUTOFLUSH reason: the passive flag added to a flag set
BASE = "orm/base.py"
FLAG_OFF = "NO_AUTOFLUSH"
FLAG_COMMITTED = "LOAD_AGAINST_COMMITTED"
FLAG_KIND = "passive|NO_AUTOFLUSH"


def _terminal(e):
    return e.id if isinstance(e, ast.Name) else (e.attr if isinstance(e, ast.Attribute) else None)


def _flag_leaves(e, defs, depth=0, via_xor=False):
    """[(terminal name of a leaf, reached through `^`)] of the flag expression `e` (a tree of `|` / `^`), looking
    through the once-bound names of `defs`"""
    if isinstance(e, ast.BinOp) and isinstance(e.op, (ast.BitOr, ast.BitXor)):
        x = via_xor or isinstance(e.op, ast.BitXor)
        return _flag_leaves(e.left, defs, depth, x) + _flag_leaves(e.right, defs, depth, x)
    if isinstance(e, ast.Name) and e.id in defs and depth < 4:
        return _flag_leaves(defs[e.id], defs, depth + 1, via_xor)
    return [(_terminal(e), via_xor)]


def _flag_carriers(ctx) -> Set[str]:
    """NO_AUTOFLUSH and every pre-packaged PassiveFlag member whose definition includes it"""
    cls = ctx.index.cls(f"{BASE}::PassiveFlag")
    defs = {}
    for st in cls.node.body:
        if isinstance(st, ast.Assign) and len(st.targets) == 1 and isinstance(st.targets[0], ast.Name):
            defs[st.targets[0].id] = st.value
    ctx.require(FLAG_OFF in defs and FLAG_COMMITTED in defs, "PassiveFlag lacks NO_AUTOFLUSH / LOAD_AGAINST_COMMITTED")
    carriers = {FLAG_OFF}
    changed = True
    while changed:
        changed = False
        for nm, v in defs.items():
            if nm not in carriers and isinstance(v, ast.BinOp) and any(leaf in carriers for leaf, _ in _flag_leaves(v, {})):
                carriers.add(nm)
                changed = True
    return carriers


def _module_defs(m) -> Dict[str, ast.expr]:
    return {nm: vs[0] for nm, vs in m.assigns.items() if len(vs) == 1}


def _flag_off_sites(ctx):
    """[(module, pm, function node | None, occurrence, maximal flag expression, definition stmt of the local it is read
    through | None)] for every place in orm/ and ext/ that puts NO_AUTOFLUSH INTO a passive value: the flag (or a local /
    constant that carries it) used as a value -- not as the mask of an `&` test, not inverted, not compared"""
    carriers = _flag_carriers(ctx)
    out = []
    for m in ctx.index.all_modules():
        if not (m.relpath.startswith("orm/") or m.relpath.startswith("ext/")) or not any(c in m.source for c in carriers):
            continue
        pm = m.parents()
        mdefs = _module_defs(m)
        # a module constant that carries the flag WITH its justification (LOAD_AGAINST_COMMITTED in the same set) is read
        # like a once-bound local: judged where it is used.  (One without is reported where it is defined: its uses in
        # other modules cannot be enumerated.)
        mod_c = {nm: v for nm, v in mdefs.items() if any(leaf in carriers for leaf, _ in _flag_leaves(v, mdefs)) and _flag_site_reason(m, None, v)}
        local_cache: Dict[int, Dict[str, ast.expr]] = {}

        def local_carriers(fn):
            """{once-bound local of fn (or justified module constant not shadowed in fn): its value} for names whose value
            carries the flag"""
            if fn is None:
                return {}
            hit = local_cache.get(id(fn))
            if hit is None:
                defs = single_defs(fn)
                hit = {nm: v for nm, v in defs.items() if any(leaf in carriers for leaf, _ in _flag_leaves(v, defs))}
                if mod_c:
                    shadow = {x.arg for x in fn.args.posonlyargs + fn.args.args + fn.args.kwonlyargs} | {nm for nm, _, _ in name_stores(fn)}
                    hit = dict({nm: v for nm, v in mod_c.items() if nm not in shadow}, **hit)
                local_cache[id(fn)] = hit
            return hit

        # functions that mention a carrier at all (only they can have locals that carry the flag)
        hot = set()
        for n in ast.walk(m.tree):
            if isinstance(n, (ast.Name, ast.Attribute)) and (_terminal(n) in carriers or _terminal(n) in mod_c):
                fn = _enclosing_function(pm, n)
                if fn is not None:
                    hot.add(id(fn))
        for n in ast.walk(m.tree):
            if not isinstance(n, (ast.Name, ast.Attribute)) or not isinstance(n.ctx, ast.Load):
                continue
            if _terminal(n) not in carriers and not isinstance(n, ast.Name):
                continue
            fn = _enclosing_function(pm, n)
            loc_c = local_carriers(fn) if fn is not None and id(fn) in hot else {}
            is_local = isinstance(n, ast.Name) and n.id in loc_c
            if _terminal(n) not in carriers and not is_local:
                continue
            if isinstance(pm.get(n), ast.Attribute):
                continue    # `<carrier>.something`: not the flag value itself
            # the definitions inside the flag class are not uses
            anc = pm.get(n)
            in_flag_class = False
            while anc is not None:
                if isinstance(anc, ast.ClassDef) and anc.name == "PassiveFlag" and m.relpath == BASE:
                    in_flag_class = True
                anc = pm.get(anc)
            if in_flag_class:
                continue
            top = n
            while isinstance(pm.get(top), ast.BinOp) and isinstance(pm.get(top).op, (ast.BitOr, ast.BitXor)):
                top = pm.get(top)
            par = pm.get(top)
            if (isinstance(par, ast.BinOp) and isinstance(par.op, ast.BitAnd)) or isinstance(par, ast.Compare) \
                    or (isinstance(par, ast.UnaryOp) and isinstance(par.op, (ast.Invert, ast.Not))):
                continue    # a test / a mask / the flag being taken out
            # the binding of a once-bound local that carries the flag is judged where the local is used
            if isinstance(par, (ast.Assign, ast.AnnAssign)) and par.value is top:
                tg = par.targets if isinstance(par, ast.Assign) else [par.target]
                if len(tg) == 1 and isinstance(tg[0], ast.Name) and tg[0].id in loc_c and loc_c[tg[0].id] is par.value:
                    continue
            via = None
            if is_local:
                via = pm.get(loc_c[n.id])
                while via is not None and not isinstance(via, ast.stmt):
                    via = pm.get(via)
            out.append((m, pm, fn, n, top, via))
    return out


def _flag_site_reason(m, fn, top) -> bool:
    """the flag set that NO_AUTOFLUSH is added to also carries LOAD_AGAINST_COMMITTED (as an `|` operand)"""
    defs = dict(_module_defs(m))
    if fn is not None:
        defs.update(single_defs(fn))
    return any(nm == FLAG_COMMITTED and not x for nm, x in _flag_leaves(top, defs))


def _site_reasons(ctx, pm, fn, site, cond):
    """whitelisted reasons implied by the conditions under which `site` (a node inside function `fn`) is reached"""
    g = ctx.cfg(fn)
    st = site
    while st is not None and not isinstance(st, ast.stmt):
        st = pm.get(st)
    nodes = g.nodes_for(st) if st is not None else []
    if not nodes:
        return None
    guards = list(g.edge_guards(nodes[0])) + list(lexical_guards(pm, site, stop=st))
    if cond is not None:
        guards.append((cond, True))
    reasons = set()
    for t, pol in guards:
        r = _implied_reasons(fn, t, pol, g)
        if r:
            reasons |= r
    if not reasons:
        af = call_nodes(g, lambda c: callee_is(c, "_autoflush"))
        if af and g.always_preceded(nodes[0], af) is None:
            reasons.add("just-autoflushed")
    return reasons


@R.rule("C47-R5", floor=8, template="T-GUARD",
        desc="every site that runs or prepares a statement with autoflush switched off ({'autoflush'|'_autoflush': False}, "
             ".autoflush(False), execution_options(autoflush=False), no_autoflush=<x>, or the passive flag NO_AUTOFLUSH put INTO "
             "a flag set: `<flags> | NO_AUTOFLUSH`, `|=`, a local / constant carrying it used as a value) does so under a condition "
             "that implies one of the whitelisted reasons: pending parent, NO_AUTOFLUSH passive flag already given by the caller, "
             "the caller's own no_autoflush request, an autoflush that was just performed, or (flag sites only) the same flag set "
             "carries LOAD_AGAINST_COMMITTED (old-value load for history)")
def r5(ctx):
    seen: Dict[str, int] = {}
    sites = [(m, pm, fn, site, kind, cond, None, None) for m, pm, fn, site, kind, cond in _autoflush_off_sites(ctx)]
    sites += [(m, pm, fn, site, FLAG_KIND, None, top, via) for m, pm, fn, site, top, via in _flag_off_sites(ctx)]
    n_flag = 0
    for m, pm, fn, site, kind, cond, top, via in sorted(sites, key=lambda t: (t[0].relpath, t[3].lineno, t[3].col_offset)):
        fk = f"{m.relpath}::{qualname(pm, site)}" if qualname(pm, site) else f"{m.relpath}::<module>"
        seen[(fk, kind)] = seen.get((fk, kind), 0) + 1
        key = f"{fk}:autoflush-off[{kind}]" + (f"#{seen[(fk, kind)]}" if seen[(fk, kind)] > 1 else "")
        loc = f"{m.path}:{site.lineno}"
        if fk in OFF_EXEMPT:
            ctx.ok(key, "exempt: " + OFF_EXEMPT[fk])
            continue
        reasons = set()
        if top is not None:
            n_flag += 1
            if _flag_site_reason(m, fn, top):
                ctx.ok(key, "reason: committed-value-load")
                continue
            if fn is None:
                ctx.violation(key, f"the passive flag NO_AUTOFLUSH is put into the constant `{unparse(top)}` that does not also carry "
                                   f"LOAD_AGAINST_COMMITTED: every load run with it skips the autoflush and no longer sees pending changes", loc)
                continue
        g = ctx.cfg(fn)
        st = site
        while st is not None and not isinstance(st, ast.stmt):
            st = pm.get(st)
        if st is fn:
            nodes, guards = [g.entry], []      # a parameter default / decorator argument: unconditional
        else:
            nodes = g.nodes_for(st) if st is not None else []
            ctx.require(nodes, f"{key}: statement not found in the CFG")
            guards = list(g.edge_guards(nodes[0])) + list(lexical_guards(pm, site, stop=st))
        if via is not None and via is not st:
            # the flag is read through a once-bound local: the conditions under which that local was bound count too
            vn = g.nodes_for(via)
            if vn:
                guards += list(g.edge_guards(vn[0]))
        if cond is not None:
            guards.append((cond, True))
        for t, pol in guards:
            r = _implied_reasons(fn, t, pol, g)
            if r:
                reasons |= r
        if not reasons:
            af = call_nodes(g, lambda c: callee_is(c, "_autoflush"))
            if af and g.always_preceded(nodes[0], af) is None:
                reasons.add("just-autoflushed")
        if not reasons:
            # an extracted helper that only builds the option (`return opts + {"_autoflush": False}`): the reason is the
            # condition under which it is called -- every call site must have one
            sites = calls_of_name(ctx.index, fn.name) if fn.name.startswith("_") and not fn.name.endswith("__") else None
            via = set()
            for ok_, cm, call in sites or ():
                cpm = cm.parents()
                cfn = _enclosing_function(cpm, call)
                r = _site_reasons(ctx, cpm, cfn, call, None) if cfn is not None and cfn is not fn else None
                if not r:
                    via = set()
                    break
                via |= r
            reasons = via
        shown = " and ".join(("" if pol else "not ") + "(" + unparse(_resolve_local(fn, t)) + ")" for t, pol in guards) or "unconditionally"
        what = "autoflush is switched off for this statement" if top is None else \
            f"the passive flag NO_AUTOFLUSH is added to the flags of a load (`{unparse(top)}`, no LOAD_AGAINST_COMMITTED in the same flag set)"
        ctx.check(bool(reasons), key,
                  f"{what} under `{shown}`, which does not imply any whitelisted reason "
                  f"({', '.join(sorted(OFF_REASONS))}): loads on this path no longer see pending changes",
                  "reason: " + ", ".join(sorted(reasons)), loc)
    # (floor: 7 option sites + at least one flag site -- today 3, but a shared helper / constant may merge them)
    ctx.require(n_flag >= 1, f"only {n_flag} site(s) that add the NO_AUTOFLUSH passive flag found (expected the old-value loads of "
                             f"the scalar-object attribute implementation)")


# ---------------------------------------------------------------------- R6: Session.autoflush is switched off only temporarily
@R.rule("C47-R6", floor=6, template="T-OWN/T-PATH",
        desc="every assignment to <session>.autoflush either passes a parameter through (constructor / proxy setter) or is a "
             "temporary switch: the previous value is saved first and re-assigned on every normal and exceptional exit "
             "(in a `finally` around the `yield` for generator-based context managers)")
def r6(ctx):
    session_cls = ctx.index.cls(f"{SESSION}::Session")
    for m in ctx.index.all_modules():
        if not (m.relpath.startswith("orm/") or m.relpath.startswith("ext/")) or ".autoflush = " not in m.source:
            continue
        pm = m.parents()
        per_fn: Dict[int, list] = {}
        for n in ast.walk(m.tree):
            if isinstance(n, ast.Assign) and len(n.targets) == 1 and isinstance(n.targets[0], ast.Attribute) and n.targets[0].attr == "autoflush":
                fn = _enclosing_function(pm, n)
                if fn is None:
                    continue
                if dotted(n.targets[0].value) == "self":
                    # `self.autoflush` is the session's setting only inside Session (and subclasses)
                    c = pm.get(fn)
                    ci = ctx.index.cls(f"{m.relpath}::{c.name}") if isinstance(c, ast.ClassDef) and ctx.index.has(f"{m.relpath}::{c.name}") else None
                    if ci is None or not ctx.index.is_subclass(ci, session_cls):
                        continue
                per_fn.setdefault(id(fn), [fn]).append(n)
        for _, (fn, *stores) in sorted(per_fn.items(), key=lambda kv: kv[1][0].lineno):
            fk = f"{m.relpath}::{qualname(pm, stores[0])}"
            loc = f"{m.path}:{stores[0].lineno}"
            a = fn.args
            params = {x.arg for x in a.posonlyargs + a.args + a.kwonlyargs}
            # locals that hold the saved setting:  v = <x>.autoflush
            saved = {nm: dotted(v.value) for nm, v, st in name_stores(fn) if isinstance(v, ast.Attribute) and v.attr == "autoflush"}
            offs, restores, passthrough, other = [], [], [], []
            for st in stores:
                recv = dotted(st.targets[0].value)
                v = st.value
                if isinstance(v, ast.Name) and v.id in saved and saved[v.id] == recv:
                    restores.append(st)
                elif isinstance(v, ast.Name) and v.id in params:
                    passthrough.append(st)
                elif isinstance(v, ast.Constant) and v.value is True:
                    passthrough.append(st)          # forcing autoflush on cannot hide pending changes
                elif const_is(v, False):
                    offs.append(st)
                else:
                    other.append(st)
            key = f"{fk}:session-autoflush-write"
            if other:
                ctx.violation(key, f"<session>.autoflush is assigned `{unparse(other[0].value)}`: neither a parameter, nor a saved "
                                   f"previous value, nor a paired temporary False", loc)
                continue
            if not offs:
                ctx.ok(key, "passes a parameter / restores a saved value")
                continue
            g = ctx.cfg(fn)
            probs, wit = [], None
            rn = [i for st in restores for i in g.nodes_for(st)]
            for off in offs:
                recv = dotted(off.targets[0].value)
                if not any(r == recv for r in saved.values()):
                    probs.append(f"{recv}.autoflush is set to False without saving the previous value")
                    continue
                on = g.nodes_for(off)
                sv = [i for nm, v, st in name_stores(fn) if nm in saved and saved[nm] == recv and isinstance(v, ast.Attribute) for i in g.nodes_for(st)]
                if g.always_preceded(on[0], sv) is not None:
                    probs.append("the previous value is not saved on every path before the switch")
                w = g.must_pass(on, [g.exit, g.raise_exit], rn)
                if w is not None:
                    probs.append("an exit is reachable after the switch without restoring the saved value")
                    wit = w
                # generator-based context manager: an exception thrown into the `yield` must restore too
                ys = [y for y in walk_local(fn) if isinstance(y, (ast.Yield, ast.YieldFrom)) and y.lineno >= off.lineno]
                for y in ys:
                    protected = False
                    for anc in _ancestors(pm, y, fn):
                        if isinstance(anc, ast.Try) and any(_inside(pm, y, b, fn) for b in anc.body) \
                                and any(r2 in list(walk_stmts(anc.finalbody)) for r2 in restores):
                            protected = True
                    if not protected:
                        probs.append("the `yield` of the context manager is not inside a try whose `finally` restores the saved value "
                                     "(an exception in the with-block leaves autoflush off for the rest of the session)")
            ctx.check(not probs, key, "; ".join(probs), "saved, switched off, restored on every exit", loc, wit)


def _ancestors(pm, node, stop):
    cur = pm.get(node)
    while cur is not None and cur is not stop:
        yield cur
        cur = pm.get(cur)


def _inside(pm, node, container, stop):
    cur = node
    while cur is not None and cur is not stop:
        if cur is container:
            return True
        cur = pm.get(cur)
    return False


# ---------------------------------------------------------------------- R7: autoflush before the instance state that keys a load is read
# callees through which a row is loaded FOR an instance that is already in the session
LOAD_CALLEES = ("_load_on_ident", "_load_on_pk_identity", "_emit_lazyload")
# calls that read the instance's current attribute values / identity to build the criteria of that load
STATE_READERS = ("_generate_lazy_clause", "_get_ident_for_use_get", "_identity_key_from_state", "_optimized_get_statement")
STATE_KEYED_EXEMPT = {
    "orm/persistence.py::_finalize_insert_update_commands": "runs inside flush(): Session._autoflush is a no-op while _flushing",
}


def _state_reader_nodes(g, fn):
    """CFG nodes that read the in-session state which keys the load: calls of STATE_READERS, or `<state>.key` used as a
    value (assigned / passed), not merely tested for presence"""
    out = []
    for n in g.nodes:
        if n.stmt is None or n.kind in ("with_exit", "handler", "join") or not isinstance(n.stmt, ast.stmt):
            continue
        hit = False
        for part in own_exprs(n.stmt):
            for c in calls_in(part):
                if callee_is(c, *STATE_READERS):
                    hit = True
            pm = {ch: p for p in ast.walk(part) for ch in ast.iter_child_nodes(p)}
            for x in ast.walk(part):
                if isinstance(x, ast.Attribute) and x.attr == "key" and isinstance(x.ctx, ast.Load) \
                        and isinstance(x.value, ast.Name) and "state" in x.value.id:
                    par = pm.get(x)
                    if par is None and n.kind == "test":
                        continue
                    tested = isinstance(par, (ast.UnaryOp, ast.BoolOp, ast.IfExp, ast.Compare, ast.Subscript)) or (
                        isinstance(par, ast.Call) and isinstance(par.func, ast.Name) and par.func.id == "bool")
                    if not tested:
                        hit = True
        if hit:
            out.append(n.id)
    return out


@R.rule("C47-R7", floor=5, template="T-PATH/T-SIBLING",
        desc="every function that loads a row FOR an instance already in the session (refresh, expired-attribute load, lazy "
             "load) performs the autoflush BEFORE it reads the instance state that keys the SELECT (identity key, foreign-key "
             "values of the lazy clause), as Session.refresh does since #8703; otherwise the flush inside execute() changes "
             "that state after the parameters were bound")
def r7(ctx):
    members = []
    for rel in (SESSION, LOADING, STRAT, "orm/persistence.py", "orm/mapper.py", "orm/state.py"):
        m = ctx.index.module(rel)
        for fi in ctx.index.all_functions(m):
            if any(callee_is(c, *LOAD_CALLEES) or (callee_is(c, "session.execute") and rel == STRAT) for c in calls_in(fi.node)):
                members.append(fi)
    ctx.require(len(members) >= 4, "fewer than 4 functions load through _load_on_ident/_load_on_pk_identity/_emit_lazyload")

    def no_sql(e, pol):
        return (not pol and isinstance(e, ast.BinOp) and isinstance(e.op, ast.BitAnd)
                and any((dotted(x) or "").rsplit(".", 1)[-1] == "SQL_OK" for x in (e.left, e.right)))

    def excused(fn, g, t, pol):
        """the branch outcome means: autoflush is legitimately off, or no SQL may be emitted at all"""
        t = _resolve_local(fn, t)
        if isinstance(t, ast.UnaryOp) and isinstance(t.op, ast.Not):
            return excused(fn, g, t.operand, not pol)
        if isinstance(t, ast.BoolOp):
            disj = (isinstance(t.op, ast.Or) and pol) or (isinstance(t.op, ast.And) and not pol)
            parts = [excused(fn, g, v, pol) for v in t.values]
            return all(parts) if disj else any(parts)
        return no_sql(t, pol) or _off_reason(fn, t, pol, g) is not None

    def dominated(fi, nodes, depth=0):
        g = ctx.cfg(fi)
        af = call_nodes(g, lambda c: callee_is(c, "_autoflush"))
        if af:
            # paths that skip the autoflush through a branch outcome that switches autoflush off for a whitelisted
            # reason (R5) or forbids SQL altogether are not paths on which pending changes must be seen
            for t in g.nodes:
                if t.kind == "test" and isinstance(t.stmt, (ast.If, ast.While)):
                    for b, lab in g.succ[t.id]:
                        if lab in ("true", "false") and b not in af and excused(fi.node, g, t.stmt.test, lab == "true"):
                            af = af + [b]
        bad = None
        for nid in nodes:
            w = g.always_preceded(nid, af) if af else ["no _autoflush() call in " + fi.key]
            if w is not None:
                bad = w
        if bad is None:
            return None
        # the caller(s) may have autoflushed before calling this helper
        if depth < 2:
            callers = []
            for fj in ctx.index.all_functions(fi.module):
                if fj is fi:
                    continue
                gj = None
                for c in calls_in(fj.node):
                    if callee_is(c, fi.name):
                        gj = gj or ctx.cfg(fj)
                        callers.append((fj, [n for n in call_nodes(gj, lambda c2: callee_is(c2, fi.name))]))
                        break
            if callers and all(dominated(fj, ns, depth + 1) is None for fj, ns in callers):
                return None
        return bad

    for fi in sorted(members, key=lambda f: f.key):
        g = ctx.cfg(fi)
        readers = _state_reader_nodes(g, fi.node)
        if not readers:
            continue
        key = f"{fi.key}:autoflush-before-state-read"
        ctx.functions_analysed.add(fi.key)
        if fi.key in STATE_KEYED_EXEMPT:
            ctx.ok(key, "exempt: " + STATE_KEYED_EXEMPT[fi.key])
            continue
        w = dominated(fi, readers)
        what = sorted({g.nodes[r].describe() for r in readers})
        ctx.check(w is None, key,
                  "the instance state that keys the SELECT is read before any autoflush (" + "; ".join(what)[:300] + "): the autoflush "
                  "that runs inside the load can change it (foreign key synchronised by flush, primary key switch), so the "
                  "query is run with values an explicit flush() would have replaced",
                  "autoflush dominates the state read", fi.loc, w)


# ---------------------------------------------------------------------- self-test battery
R.mutant("select-autoflush-during-pre-event", CONTEXT, sub("        if not is_pre_event and load_options._autoflush:\n            session._autoflush()\n\n        return statement, execution_options, params\n", "        if load_options._autoflush:\n            session._autoflush()\n\n        return statement, execution_options, params\n", count=2), "C47-R1")
R.mutant("bulk-insert-never-autoflushes", BULK, sub("        if not is_pre_event and insert_options._autoflush:\n            session._autoflush()\n", "        if is_pre_event and insert_options._autoflush:\n            session._autoflush()\n"), "C47-R1")
R.mutant("bulk-ud-ignores-autoflush-option", BULK, sub("                \"synchronize_session\",\n                \"autoflush\",\n                \"populate_existing\",\n                \"identity_token\",", "                \"synchronize_session\",\n                \"populate_existing\",\n                \"identity_token\","), "C47-R1")
R.mutant("core-autoflush-conditional", SESSION, sub("            # Issue #9809: unconditionally autoflush for Core statements\n            self._autoflush()\n", "            # Issue #9809: unconditionally autoflush for Core statements\n            if params:\n                self._autoflush()\n"), "C47-R1")
R.mutant("orm-real-pre-exec-marked-pre-event", SESSION, sub("                combined_execution_options,\n                bind_arguments,\n                False,\n            )\n        else:", "                combined_execution_options,\n                bind_arguments,\n                True,\n            )\n        else:"), "C47-R1")
R.mutant("refresh-autoflush-after-load", SESSION, sub("        # load_on_ident.\n        self._autoflush()\n\n        if with_for_update == {}:", "        # load_on_ident.\n\n        if with_for_update == {}:"), "C47-R1")
R.mutant("merge-autoflush-when-not-load", SESSION, sub("            self._flush_warning(\"Session.merge()\")\n\n        if load:\n", "            self._flush_warning(\"Session.merge()\")\n\n        if not load:\n"), "C47-R1")
R.mutant("autoflush-ignores-setting", SESSION, sub("        if self.autoflush and not self._flushing:\n            try:\n                self.flush()", "        if not self._flushing:\n            try:\n                self.flush()"), "C47-R2")
R.mutant("autoflush-swallows-error", SESSION, sub("                raise e.with_traceback(sys.exc_info()[2])\n\n    def refresh(", "                pass\n\n    def refresh("), "C47-R2")
R.mutant("autoflush-default-off", CONTEXT, sub("        _autoflush = True\n", "        _autoflush = False\n"), "C47-R3")
R.mutant("selectin-disables-autoflush", STRAT, sub("            result = context.session.execute(\n", "            q = q.execution_options(**{\"autoflush\": False}) if False else q\n            _o = {\"autoflush\": False}\n            result = context.session.execute(\n", count=2), "C47-R3")
R.mutant("pk-load-through-connection", LOADING, sub("        session.execute(\n            q,\n", "        session.connection().execute(\n            q,\n"), "C47-R4")
R.mutant("get-uses-other-loader", SESSION, sub("            loading._load_on_pk_identity,\n", "            loading._load_on_ident,\n", count=1), "C47-R4")
# benign
R.mutant("benign-rename-load-options", CONTEXT, sub("        if not is_pre_event and load_options._autoflush:\n            session._autoflush()\n\n        return statement, execution_options, params\n", "        if load_options._autoflush and not is_pre_event:\n            session._autoflush()\n\n        return statement, execution_options, params\n", count=2), None)
R.mutant("benign-autoflush-log", SESSION, sub("        if self.autoflush and not self._flushing:\n            try:\n                self.flush()", "        if self.autoflush and not self._flushing:\n            try:\n                _n = len(self._new)\n                self.flush()"), None)

# ---- round 3 (str-q): seeds C47_1 / C47_2 and the families they belong to
_CORE_ELSE = "        else:\n            # Issue #9809: unconditionally autoflush for Core statements\n            self._autoflush()\n\n        bind = self.get_bind(**bind_arguments)\n"
_CORE_EXEC = "        else:\n            result = conn.execute(\n                statement, params, execution_options=combined_execution_options\n            )\n"
_CORE_SCALAR = "            return conn.scalar(\n                statement,\n                params or {},\n"
R.mutant("seed-core-autoflush-moved-past-scalar-return", SESSION,
         chain(sub(_CORE_ELSE, "\n        bind = self.get_bind(**bind_arguments)\n"),
               sub(_CORE_EXEC, "        else:\n            # Issue #9809: unconditionally autoflush for Core statements\n            self._autoflush()\n            result = conn.execute(\n                statement, params, execution_options=combined_execution_options\n            )\n")),
         "C47-R1")
R.mutant("core-scalar-path-returns-before-autoflush", SESSION,
         sub("        if (\n            statement._propagate_attrs.get(\"compile_state_plugin\", None)\n            == \"orm\"\n        ):\n            compile_state_cls = CompileState._get_plugin_class_for_plugin(",
             "        if _scalar_result and not self._new and not self._deleted:\n            return self.connection(bind_arguments).scalar(statement, params or {})\n        if (\n            statement._propagate_attrs.get(\"compile_state_plugin\", None)\n            == \"orm\"\n        ):\n            compile_state_cls = CompileState._get_plugin_class_for_plugin("),
         "C47-R1")
R.mutant("benign-core-autoflush-at-each-execution", SESSION,
         chain(sub(_CORE_ELSE, "\n        bind = self.get_bind(**bind_arguments)\n"),
               sub(_CORE_SCALAR, "            self._autoflush()\n" + _CORE_SCALAR),
               sub(_CORE_EXEC, "        else:\n            self._autoflush()\n            result = conn.execute(\n                statement, params, execution_options=combined_execution_options\n            )\n")),
         None)
R.mutant("benign-core-autoflush-own-if", SESSION,
         sub(_CORE_ELSE, "        if not compile_state_cls:\n            # Issue #9809: unconditionally autoflush for Core statements\n            self._autoflush()\n\n        bind = self.get_bind(**bind_arguments)\n"),
         None)
_LAZY_OFF = "        pending = not state.key\n\n        # don't autoflush on pending\n        if pending or passive & attributes.NO_AUTOFLUSH:\n            stmt._execution_options = util.immutabledict({\"autoflush\": False})\n"
R.mutant("seed-lazyload-no-autoflush-for-viewonly", STRAT,
         sub(_LAZY_OFF, "        pending = not state.key\n\n        if (\n            pending\n            or passive & attributes.NO_AUTOFLUSH\n            or self.parent_property.viewonly\n        ):\n            stmt._execution_options = util.immutabledict({\"autoflush\": False})\n"),
         "C47-R5")
R.mutant("lazyload-never-autoflushes", STRAT,
         sub(_LAZY_OFF, "        pending = not state.key\n\n        stmt._execution_options = util.immutabledict({\"autoflush\": False})\n"),
         "C47-R5")
R.mutant("pk-load-no-autoflush-when-refreshing", LOADING,
         sub("    if no_autoflush:\n        load_options += {\"_autoflush\": False}\n", "    if no_autoflush or refresh_state is not None:\n        load_options += {\"_autoflush\": False}\n"),
         "C47-R5")
R.mutant("expired-attribute-load-never-autoflushes", LOADING,
         sub("    no_autoflush = bool(passive & attributes.NO_AUTOFLUSH)\n", "    no_autoflush = True\n"), "C47-R5")
R.mutant("selectin-load-without-autoflush-option", STRAT,
         sub("            result = context.session.execute(\n", "            q = q.execution_options(autoflush=False)\n            result = context.session.execute(\n", count=2),
         "C47-R5")
R.mutant("benign-lazyload-pending-inlined", STRAT,
         sub("        if pending or passive & attributes.NO_AUTOFLUSH:\n            stmt._execution_options = util.immutabledict({\"autoflush\": False})\n",
             "        if not state.key or bool(passive & attributes.NO_AUTOFLUSH):\n            stmt._execution_options = util.immutabledict({\"autoflush\": False})\n"),
         None)
R.mutant("benign-lazyload-off-condition-via-local", STRAT,
         sub("        if pending or passive & attributes.NO_AUTOFLUSH:\n            stmt._execution_options = util.immutabledict({\"autoflush\": False})\n",
             "        skip_flush = pending or passive & attributes.NO_AUTOFLUSH\n        if skip_flush:\n            stmt._execution_options = util.immutabledict({\"autoflush\": False})\n"),
         None)
_CM = "        autoflush = self.autoflush\n        self.autoflush = False\n        try:\n            yield self\n        finally:\n            self.autoflush = autoflush\n"
R.mutant("no-autoflush-block-restores-only-on-success", SESSION,
         sub(_CM, "        autoflush = self.autoflush\n        self.autoflush = False\n        yield self\n        self.autoflush = autoflush\n"), "C47-R6")
R.mutant("no-autoflush-block-restores-true", SESSION,
         sub(_CM, "        self.autoflush = False\n        try:\n            yield self\n        finally:\n            self.autoflush = not self.autoflush\n"), "C47-R6")
R.mutant("merge-result-leaves-autoflush-off", LOADING,
         sub("    finally:\n        session.autoflush = autoflush\n\n\ndef get_from_identity", "    finally:\n        pass\n\n\ndef get_from_identity"), "C47-R6")
R.mutant("loader-switches-session-autoflush-off", LOADING,
         sub("    if no_autoflush:\n        load_options += {\"_autoflush\": False}\n", "    if no_autoflush:\n        load_options += {\"_autoflush\": False}\n        session.autoflush = False\n"), "C47-R6")
R.mutant("benign-no-autoflush-block-renamed-local", SESSION,
         sub(_CM, "        previous = self.autoflush\n        self.autoflush = False\n        try:\n            yield self\n        finally:\n            self.autoflush = previous\n"), None)
R.mutant("refresh-reads-identity-before-autoflush", SESSION,
         chain(sub("        self._expire_state(state, attribute_names)\n\n        # this autoflush previously", "        self._expire_state(state, attribute_names)\n        ident_key = state.key\n\n        # this autoflush previously"),
               sub("                stmt,\n                state.key,\n                refresh_state=state,\n                with_for_update=with_for_update,", "                stmt,\n                ident_key,\n                refresh_state=state,\n                with_for_update=with_for_update,")),
         "C47-R7")
R.mutant("refresh-autoflush-only-for-attribute-names", SESSION,
         sub("        # load_on_ident.\n        self._autoflush()\n\n        if with_for_update == {}:", "        # load_on_ident.\n        if attribute_names:\n            self._autoflush()\n\n        if with_for_update == {}:"),
         "C47-R7")
# the repair of the R7 finding in the expired-attribute loader (mirror of Session.refresh) must not raise anything new
R.mutant("fix-expired-attribute-load-autoflushes-up-front", LOADING,
         sub("    no_autoflush = bool(passive & attributes.NO_AUTOFLUSH)\n", "    no_autoflush = bool(passive & attributes.NO_AUTOFLUSH)\n    if not no_autoflush:\n        session._autoflush()\n        no_autoflush = True\n"),
         None)

# ---- rob-G2: benign refactoring families (stored diffs rfG_7..9 and neighbours) with their breaking twins
_PRE_GUARD = "        if not is_pre_event and load_options._autoflush:\n            session._autoflush()\n\n        return statement, execution_options, params\n"
R.mutant("benign-pre-exec-guard-through-flag-local", CONTEXT, sub(
    _PRE_GUARD, "        do_autoflush = not is_pre_event and load_options._autoflush\n        if do_autoflush:\n            session._autoflush()\n\n"
                "        return statement, execution_options, params\n", count=2), None)
R.mutant("benign-pre-exec-guard-early-return", CONTEXT, sub(
    _PRE_GUARD, "        if is_pre_event:\n            return statement, execution_options, params\n        if load_options._autoflush:\n            session._autoflush()\n\n"
                "        return statement, execution_options, params\n", count=2), None)
R.mutant("pre-exec-flag-local-inverted", CONTEXT, sub(
    _PRE_GUARD, "        do_autoflush = is_pre_event and load_options._autoflush\n        if do_autoflush:\n            session._autoflush()\n\n"
                "        return statement, execution_options, params\n", count=2), "C47-R1")
_INS_GUARD = "        if not is_pre_event and insert_options._autoflush:\n            session._autoflush()\n"
_INS_HELPER_AT = "    select_statement: Optional[FromStatement] = None\n\n"
R.mutant("benign-bulk-insert-autoflush-through-classmethod-helper", BULK, chain(
    sub(_INS_GUARD, "        cls._autoflush_unless_pre_event(session, insert_options, is_pre_event)\n"),
    sub(_INS_HELPER_AT, _INS_HELPER_AT + "    @classmethod\n    def _autoflush_unless_pre_event(cls, session, options, is_pre_event):\n"
                                         "        if is_pre_event:\n            return\n        if options._autoflush:\n            session._autoflush()\n\n"),
), None)
R.mutant("bulk-insert-autoflush-helper-ignores-option", BULK, chain(
    sub(_INS_GUARD, "        cls._autoflush_unless_pre_event(session, insert_options, is_pre_event)\n"),
    sub(_INS_HELPER_AT, _INS_HELPER_AT + "    @classmethod\n    def _autoflush_unless_pre_event(cls, session, options, is_pre_event):\n"
                                         "        if is_pre_event:\n            return\n        session._autoflush()\n\n"),
), "C47-R1")
_AF_DEF = "    def _autoflush(self) -> None:\n        if self.autoflush and not self._flushing:\n"
R.mutant("benign-autoflush-guard-through-flag-local", SESSION, sub(
    _AF_DEF, "    def _autoflush(self) -> None:\n        should_flush = self.autoflush and not self._flushing\n        if should_flush:\n"), None)
R.mutant("autoflush-guard-flag-local-or", SESSION, sub(
    _AF_DEF, "    def _autoflush(self) -> None:\n        should_flush = self.autoflush or not self._flushing\n        if should_flush:\n"), "C47-R2")
_CORE_AF = "            # Issue #9809: unconditionally autoflush for Core statements\n            self._autoflush()\n"
_EXEC_INTERNAL_DEF = "    def refresh(\n"
R.mutant("benign-core-autoflush-through-helper", SESSION, chain(
    sub(_CORE_AF, "            self._autoflush_for_core_statement()\n"),
    sub(_EXEC_INTERNAL_DEF, "    def _autoflush_for_core_statement(self) -> None:\n        # Issue #9809: unconditionally autoflush for Core statements\n        self._autoflush()\n\n" + _EXEC_INTERNAL_DEF),
), None)
R.mutant("core-autoflush-helper-only-with-pending-objects", SESSION, chain(
    sub(_CORE_AF, "            self._autoflush_for_core_statement()\n"),
    sub(_EXEC_INTERNAL_DEF, "    def _autoflush_for_core_statement(self) -> None:\n        if self._new:\n            self._autoflush()\n\n" + _EXEC_INTERNAL_DEF),
), "C47-R1")
R.mutant("benign-merge-autoflush-inverted-if", SESSION, sub(
    "            self._flush_warning(\"Session.merge()\")\n\n        if load:\n            # flush current contents if we expect to load data\n            self._autoflush()\n",
    "            self._flush_warning(\"Session.merge()\")\n\n        if not load:\n            pass\n        else:\n            self._autoflush()\n"), None)

_PK_OFF = "    if no_autoflush:\n        load_options += {\"_autoflush\": False}\n"
_PK_DEF = "def _load_on_pk_identity(\n"
_OFF_HELPER = "def _without_autoflush(load_options):\n    return load_options + {\"_autoflush\": False}\n\n\n"
R.mutant("benign-pk-load-autoflush-off-through-helper", LOADING, chain(
    sub(_PK_OFF, "    if no_autoflush:\n        load_options = _without_autoflush(load_options)\n"),
    sub(_PK_DEF, _OFF_HELPER + _PK_DEF),
), None)
R.mutant("pk-load-autoflush-off-helper-called-unconditionally", LOADING, chain(
    sub(_PK_OFF, "    load_options = _without_autoflush(load_options)\n"),
    sub(_PK_DEF, _OFF_HELPER + _PK_DEF),
), "C47-R5")

# ---- round 2 (str2-t): seed C47_3 (the lazy loader's identity-map probe given NO_AUTOFLUSH) and its family: sites that
# put the NO_AUTOFLUSH passive flag INTO a flag set (C47-R5 flag sites)
ATTRS = "orm/attributes.py"
_PROBE_ARGS = "                primary_key_identity,\n                passive=passive,\n                lazy_loaded_from=state,\n"
_PROBE_CALL = "            instance = session._identity_lookup(\n                self.entity,\n" + _PROBE_ARGS
R.mutant("seed-lazyload-identity-probe-given-no-autoflush", STRAT, sub(
    _PROBE_ARGS, "                primary_key_identity,\n                passive=passive | PassiveFlag.NO_AUTOFLUSH,\n                lazy_loaded_from=state,\n"), "C47-R5")
R.mutant("lazyload-identity-probe-no-autoflush-through-local", STRAT, sub(
    _PROBE_CALL, "            probe_flags = PassiveFlag.NO_AUTOFLUSH | passive\n"
                 "            instance = session._identity_lookup(\n                self.entity,\n"
                 "                primary_key_identity,\n                passive=probe_flags,\n                lazy_loaded_from=state,\n"), "C47-R5")
R.mutant("lazyload-passive-augmented-with-no-autoflush", STRAT, sub(
    _PROBE_CALL, "            passive |= attributes.NO_AUTOFLUSH\n" + _PROBE_CALL), "C47-R5")
_OLD_VALUE_FLAGS = "                passive=PASSIVE_ONLY_PERSISTENT\n                | NO_AUTOFLUSH\n                | LOAD_AGAINST_COMMITTED,\n"
R.mutant("old-value-load-no-autoflush-against-pending-values", ATTRS, sub(
    _OLD_VALUE_FLAGS, "                passive=PASSIVE_ONLY_PERSISTENT | NO_AUTOFLUSH,\n", count=2), "C47-R5")
R.mutant("prepackaged-merge-flags-carry-no-autoflush", BASE, sub(
    "    PASSIVE_MERGE = PASSIVE_OFF | NO_RAISE\n", "    PASSIVE_MERGE = PASSIVE_OFF | NO_RAISE | NO_AUTOFLUSH\n"), "C47-R5")
R.mutant("attribute-get-loader-callables-never-autoflush", ATTRS, sub(
    "                value = self._fire_loader_callables(state, key, passive)\n",
    "                value = self._fire_loader_callables(\n                    state, key, passive | NO_AUTOFLUSH\n                )\n"), "C47-R5")
# benign: the same flag sets spelled through a local / a module constant / a helper; the probe's flags through an alias
R.mutant("benign-lazyload-identity-probe-passive-alias", STRAT, sub(
    _PROBE_CALL, "            probe_flags = passive\n"
                 "            instance = session._identity_lookup(\n                self.entity,\n"
                 "                primary_key_identity,\n                passive=probe_flags,\n                lazy_loaded_from=state,\n"), None)
R.mutant("benign-old-value-flags-through-local", ATTRS, sub(
    "        if self.dispatch._active_history:\n            old = self.get(\n                state,\n                dict_,\n" + _OLD_VALUE_FLAGS,
    "        if self.dispatch._active_history:\n            committed_only = PASSIVE_ONLY_PERSISTENT | LOAD_AGAINST_COMMITTED\n"
    "            old_value_flags = committed_only | NO_AUTOFLUSH\n"
    "            old = self.get(\n                state,\n                dict_,\n                passive=old_value_flags,\n", count=2), None)
R.mutant("benign-old-value-flags-module-constant", ATTRS, chain(
    sub(_OLD_VALUE_FLAGS, "                passive=_OLD_VALUE_LOAD,\n", count=2),
    sub("class _ScalarObjectAttributeImpl(_ScalarAttributeImpl):\n",
        "_OLD_VALUE_LOAD = PASSIVE_ONLY_PERSISTENT | NO_AUTOFLUSH | LOAD_AGAINST_COMMITTED\n\n\n"
        "class _ScalarObjectAttributeImpl(_ScalarAttributeImpl):\n"),
), None)
R.mutant("benign-old-value-flags-through-helper-inverted-branch", ATTRS, chain(
    sub("    def delete(self, state: InstanceState[Any], dict_: _InstanceDict) -> None:\n        if self.dispatch._active_history:\n            old = self.get(\n                state,\n                dict_,\n" + _OLD_VALUE_FLAGS + "            )\n        else:\n"
        "            old = self.get(\n                state,\n                dict_,\n                passive=PASSIVE_NO_FETCH ^ INIT_OK\n                | LOAD_AGAINST_COMMITTED\n                | NO_RAISE,\n            )\n",
        "    def _old_value_flags(self):\n        return LOAD_AGAINST_COMMITTED | PASSIVE_ONLY_PERSISTENT | NO_AUTOFLUSH\n\n"
        "    def delete(self, state: InstanceState[Any], dict_: _InstanceDict) -> None:\n        if not self.dispatch._active_history:\n"
        "            old = self.get(\n                state,\n                dict_,\n                passive=PASSIVE_NO_FETCH ^ INIT_OK\n                | LOAD_AGAINST_COMMITTED\n                | NO_RAISE,\n            )\n"
        "        else:\n            old = self.get(state, dict_, passive=self._old_value_flags())\n"),
), None)
# seed C47_4 (post-load statements skip the autoflush): the essence, for C47-R1, with a flag-local twin
R.mutant("seed-pre-exec-autoflush-skipped-for-post-load-statements", CONTEXT, sub(
    _PRE_GUARD, "        if (\n            not is_pre_event\n            and load_options._autoflush\n            and load_options._sa_top_level_orm_context is None\n        ):\n"
                "            session._autoflush()\n\n        return statement, execution_options, params\n", count=2), "C47-R1")
R.mutant("pre-exec-autoflush-early-return-for-post-load-statements", CONTEXT, sub(
    _PRE_GUARD, "        if load_options._sa_top_level_orm_context is not None:\n            return statement, execution_options, params\n"
                "        if not is_pre_event and load_options._autoflush:\n            session._autoflush()\n\n"
                "        return statement, execution_options, params\n", count=2), "C47-R1")
R.mutant("module-constant-adds-no-autoflush-without-committed-flag", STRAT, chain(
    sub("from ..sql.selectable import Select\n\nif TYPE_CHECKING:\n",
        "from ..sql.selectable import Select\n\n_PROBE_ONLY = PassiveFlag.PASSIVE_OFF | PassiveFlag.NO_AUTOFLUSH\n\nif TYPE_CHECKING:\n"),
    sub(_PROBE_ARGS, "                primary_key_identity,\n                passive=passive | _PROBE_ONLY,\n                lazy_loaded_from=state,\n"),
), "C47-R5")
