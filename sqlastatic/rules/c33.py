"""C33 -- Session commit/rollback/savepoint consistency (declared-state typestate)."""

from __future__ import annotations

import ast
from typing import Dict, List

from ..astutil import ancestors, calls_in, dotted, enclosing_withs, name_stores, own_exprs, unparse, walk_local, walk_stmts
from ..cfg import no_exc
from ..report import Registry, chain, sub
from ._helpers_rules_d import attr_store_nodes, call_nodes, callee_is, ends_with_name, guard_atom_set, qualname
from .c32 import BOOKKEEPING, _is_tx, _tx_exprs, check_rollback_restores, declared_methods
from ._helpers_rob_B2 import (bind_args, bool_binds, callee_simple_name, expand, guards_imply, helper_key_stores, is_bound_method, key_store_helpers,
                              param_names, resolved_atom_set, resolved_guards, single_binds)

R = Registry(
    "C33",
    title="Session commit/rollback/savepoint keep the session consistent with the database",
    decides=(
        "every SessionTransaction method decorated with declare_states ends in the state it declares (or restores "
        "the state it temporarily left, also on exceptional exits); _state is written only by those methods; "
        "commit() orders connection commits < COMMITTED < _remove_snapshot < close and removes the snapshot only at "
        "a transaction boundary; rollback() restores the snapshot in `finally`; the four bookkeeping maps are bound "
        "fresh at a boundary, merged into the parent on a savepoint release, consumed by rollback, and deleted "
        "objects are detached on a root commit (the merge keeps the first original key of a primary-key switch); "
        "close() re-links the session before announcing the end; re-keying a state is ordered discard-under-the-"
        "current-key < key store < re-registration; the flushes a transaction performs itself (before a savepoint "
        "snapshot, before commit) do not depend on Session configuration such as autoflush and precede the savepoint's "
        "fresh bookkeeping; ending a transaction while inner ones are open consumes the inner snapshots; a state-guarded "
        "transition inside a declared method (rollback's connection-rollback + restore block, commit's prepare) is skipped "
        "only from the state it establishes, for every declared prerequisite state; the partial expire of a savepoint "
        "rollback reaches the states of every bookkeeping map that stay in the session (_dirty, _deleted, _key_switches)."
    ),
    not_decided="attribute values versus the database after each step; two-phase behaviour of the DBAPI.",
)

SESSION = "orm/session.py"
ST = f"{SESSION}::SessionTransaction"
ENUM = f"{SESSION}::SessionTransactionState"


def _short(d):
    return d.rsplit(".", 1)[-1] if d else d


def _state_stores(g, recv="self"):
    """[(node id, state short name)] for `<recv>._state = <X>.<NAME>`."""
    out = []
    for nid in attr_store_nodes(g, "_state", None, recv):
        v = g.node(nid).stmt.value
        d = dotted(v)
        out.append((nid, _short(d) if d else None))
    return out


@R.rule("C33-R1", floor=15, template="T-PATH/T-OWN",
        desc="declared methods end in their declared state (last _state write / delegated call under _expect_state) "
             "or undo a temporary write on every exit; _state written only by declared methods and __init__; "
             "prerequisites are SessionTransactionState members")
def r1(ctx):
    decl = declared_methods(ctx)
    ctx.require(len(decl) >= 7, f"only {len(decl)} declared methods")
    enum = ctx.index.cls(ENUM)
    members = set(enum.assigns)
    pm = ctx.index.module(SESSION).parents()
    for name, (f, pres, to) in sorted(decl.items()):
        g = ctx.cfg(f)
        stores = _state_stores(g)
        S = _short(to)
        if S == "NO_CHANGE":
            if not stores:
                ctx.ok(f"{f.key}:state", "NO_CHANGE: no _state write", nontrivial=False)
                continue
            back = _short(pres[0]) if pres != "ANY" and len(pres) == 1 else None
            ctx.require(back is not None, f"{f.key}: NO_CHANGE method writes _state but has no single prerequisite state to restore")
            restore = [n for n, s in stores if s == back]
            temp = [n for n, s in stores if s != back]
            w = g.must_pass(temp, [g.exit, g.raise_exit], restore)
            ctx.check(w is None, f"{f.key}:state", f"a temporary _state write is not undone (back to {back}) on every exit, including exceptional ones",
                      f"temporary state restored to {back} on every exit", f.loc, w)
            continue
        # delegated: a call to a declared method moving to S, lexically inside `with self._expect_state(S)`
        def delegated(c):
            if not (isinstance(c.func, ast.Attribute) and dotted(c.func.value) == "self" and c.func.attr in decl and _short(decl[c.func.attr][2]) == S):
                return False
            for w_ in enclosing_withs(pm, c):
                for it in w_.items:
                    ce = it.context_expr
                    if isinstance(ce, ast.Call) and callee_is(ce, "self._expect_state") and ce.args and ends_with_name(ce.args[0], S):
                        return True
            return False
        through = [n for n, s in stores if s == S] + call_nodes(g, delegated)
        w = g.must_pass([g.entry], [g.exit], through, edge_ok=no_exc)
        other = [n for n, s in stores if s != S]
        w2 = g.must_pass(other, [g.exit], through, edge_ok=no_exc) if other else None
        ctx.check(w is None and w2 is None and bool(through), f"{f.key}:state",
                  f"a normal exit of {name}() is reachable whose last state is not {S}", f"every normal exit ends in {S}", f.loc, w or w2)
    # ownership of _state
    bad = []
    m = ctx.index.module(SESSION)
    for n in ast.walk(m.tree):
        if isinstance(n, ast.Attribute) and n.attr == "_state" and isinstance(n.ctx, ast.Store):
            st = pm.get(n)
            while st is not None and not isinstance(st, ast.stmt):
                st = pm.get(st)
            val = getattr(st, "value", None)
            d = dotted(val) if val is not None else None
            if not (d and "SessionTransactionState" in d):
                continue
            q = qualname(pm, n)
            cls_, _, meth = q.rpartition(".")
            if not (cls_ == "SessionTransaction" and (meth in decl or meth == "__init__")):
                bad.append(f"{q} ({m.path}:{n.lineno})")
    ctx.check(not bad, f"{ST}:_state-owners", f"_state is written outside the declared state-changing methods: {bad}", "written only by declared methods and __init__")
    for name, (f, pres, to) in sorted(decl.items()):
        names = ([] if pres == "ANY" else list(pres)) + ([to] if not to.endswith("NO_CHANGE") else [])
        wrong = [p for p in names if not (p.startswith("SessionTransactionState.") and _short(p) in members)]
        ctx.check(not wrong, f"{f.key}:declared-states", f"declared states {wrong} are not members of SessionTransactionState",
                  "prerequisites/moves_to are enum members", f.loc, nontrivial=False)


@R.rule("C33-R2", floor=4, template="T-PATH",
        desc="commit(): connection commits precede _state = COMMITTED precede _remove_snapshot() precede close(); "
             "_remove_snapshot only on the boundary arm (_parent is None or nested)")
def r2(ctx):
    f = ctx.func(f"{ST}.commit")
    g = ctx.cfg(f)
    sb = single_binds(f.node)
    loops = [n for n in walk_local(f.node) if isinstance(n, ast.For) and "._connections" in unparse(expand(n.iter, sb))]
    ctx.require(loops, "commit() has no loop over the connections")
    lp = loops[0]
    conn_commit = [nid for nid in call_nodes(g, lambda c: isinstance(c.func, ast.Attribute) and c.func.attr == "commit" and dotted(c.func.value) != "self._parent")
                   if any(s is g.node(nid).stmt for s in walk_stmts(lp.body))]
    ctx.require(conn_commit, "no connection-level commit() in the loop")
    loop_nodes = g.nodes_for(lp)
    committed = [n for n, s in _state_stores(g) if s == "COMMITTED"]
    rm = call_nodes(g, lambda c: callee_is(c, "self._remove_snapshot"))
    close = call_nodes(g, lambda c: callee_is(c, "self.close"))
    ctx.require(committed and rm and close, "commit() lacks COMMITTED store / _remove_snapshot() / close()")
    after_committed = g.reachable(committed, include_starts=False)
    w = g.always_preceded(committed[0], loop_nodes)
    ctx.check(w is None and not (set(conn_commit) & after_committed), f"{f.key}:commits-before-COMMITTED",
              "the state is set to COMMITTED before / while connections are still being committed", "connection commit loop dominates COMMITTED", f.loc, w)
    w = g.always_preceded(rm[0], committed)
    ctx.check(w is None, f"{f.key}:COMMITTED-before-remove-snapshot", "_remove_snapshot() can run before the connections are committed", "dominated by COMMITTED", f.loc, w)
    after_close = g.reachable(close, include_starts=False)
    ctx.check(not (set(rm) | set(conn_commit) | set(committed)) & after_close, f"{f.key}:close-last",
              "close() can run before the connection commits / snapshot removal", "nothing of the commit sequence follows close()", f.loc)
    # the branch outcomes that dominate the call imply `_parent is None or nested` (however the condition is written: named
    # as a local, inverted, split, or through the equivalent property _is_transaction_boundary)
    rg = resolved_guards(g, f.node, rm[0], aliases=True)
    guards = [("" if pol else "not ") + unparse(t) for t, pol in rg]
    P, N_, B = "self._parent is None", "self.nested", "self._is_transaction_boundary"
    good = guards_imply(rg, lambda e: e[P] or e[N_], axioms=lambda e: e[B] == (e[P] or e[N_]) and e["self._parent"] != e[P], extra_leaves=(P, N_, B, "self._parent")) is True
    ctx.check(good, f"{f.key}:remove-snapshot-at-boundary", f"_remove_snapshot() is not restricted to a transaction boundary (guards: {guards})",
              "only when _parent is None or nested", f.loc)


@R.rule("C33-R3", floor=4, template="T-PATH", desc="= C32-R3: rollback() restores the snapshot in `finally`, DEACTIVE on every path")
def r3(ctx):
    check_rollback_restores(ctx)


@R.rule("C33-R4", floor=13, template="T-SIBLING/T-FRESH",
        desc="_new/_deleted/_dirty/_key_switches: fresh WeakKeyDictionary at a transaction boundary (aliasing the "
             "parent only on the non-boundary arm), all four merged into the parent on a savepoint release (helpers called by "
             "_remove_snapshot are followed; map aliases and boolean locals resolved), deleted "
             "objects detached on every root commit, all four consumed by _restore_snapshot")
def r4(ctx):
    ts = ctx.func(f"{ST}._take_snapshot")
    g = ctx.cfg(ts)
    for fld in BOOKKEEPING:
        nodes = attr_store_nodes(g, fld, None, "self")
        fresh, alias, other = [], [], []
        for n in nodes:
            v = g.node(n).stmt.value
            if isinstance(v, ast.Call) and not v.args and not v.keywords and _short(dotted(v.func) or "") in ("WeakKeyDictionary", "dict"):
                fresh.append(n)
            elif isinstance(v, ast.Attribute) and v.attr == fld and dotted(v.value) != "self":
                alias.append(n)
            else:
                other.append(n)
        ok_fresh = bool(fresh) and all(("self._is_transaction_boundary", True) in resolved_atom_set(g, ts.node, n, aliases=True) for n in fresh)
        ok_alias = all(("self._is_transaction_boundary", False) in resolved_atom_set(g, ts.node, n, aliases=True) for n in alias)
        # every normal exit binds the field
        w = g.must_pass([g.entry], [g.exit], nodes, edge_ok=no_exc)
        ctx.check(ok_fresh and ok_alias and not other and w is None, f"{ts.key}:{fld}",
                  f"{fld} is not bound to a fresh map at a transaction boundary (fresh under boundary: {ok_fresh}; parent alias only off-boundary: {ok_alias}; other bindings: {len(other)})",
                  "fresh WeakKeyDictionary() at a boundary; parent's map otherwise", ts.loc, w)
    rs = ctx.func(f"{ST}._remove_snapshot")
    scopes = _snapshot_scopes(ctx, rs)
    composite = _composite_maps(ctx)
    for fld in BOOKKEEPING:
        hits, item_stores, merged_atoms = [], [], []
        for sc in scopes:
            h = call_nodes(sc.g, lambda c, fld=fld, sc=sc: isinstance(c.func, ast.Attribute) and c.func.attr == "update" and sc.map_of(c.func.value) == ("parent", fld)
                           and len(c.args) == 1 and not c.keywords and sc.map_of(c.args[0]) == ("self", fld))
            # `<parent map> |= <own map>`
            h += [n.id for n in sc.g.nodes if n.kind == "stmt" and isinstance(n.stmt, ast.AugAssign) and isinstance(n.stmt.op, ast.BitOr)
                  and sc.map_of(n.stmt.target) == ("parent", fld) and sc.map_of(n.stmt.value) == ("self", fld)]
            hits += [(sc, n) for n in h]
            # item-wise merge: `for k, v in self.<fld>.items(): <parent>.<fld>[k] = ...`
            for lp in [n for n in walk_local(sc.fn) if isinstance(n, ast.For)]:
                if any(sc.map_of(a) == ("self", fld) for a in ast.walk(lp.iter)):
                    for st in walk_stmts(lp.body):
                        if isinstance(st, ast.Assign):
                            for t in st.targets:
                                if isinstance(t, ast.Subscript) and sc.map_of(t.value) == ("parent", fld):
                                    item_stores.append((sc, lp, st))
        merged = [(sc, n) for sc, n in hits] + [(sc, n) for sc, lp, st in item_stores for n in sc.g.nodes_for(st)]
        good = bool(merged) and all(("self.nested", True) in sc.atoms(n) for sc, n in merged)
        ctx.check(good, f"{rs.key}:{fld}", f"releasing a savepoint does not merge self.{fld} into the parent's {fld}", f"parent.{fld} receives self.{fld} when nested", rs.loc)
        if fld in composite:
            key = f"{rs.key}:{fld}:merge-keeps-original"
            if hits:
                sc, n = hits[0]
                ctx.violation(key, f"`{unparse(sc.g.node(n).stmt)}` overwrites the parent's entry: the values of {fld} are {composite[fld]} whose first component is "
                                   f"the state's key at the start of the *parent* scope; when the same object changed its key in both scopes the parent "
                                   f"then restores the intermediate key on rollback instead of the original one", rs.loc)
            elif not item_stores:
                ctx.violation(key, f"self.{fld} is not merged into the parent's {fld} at all", rs.loc)
            else:
                ok_all = all(_keeps_first_component(sc.fn, st, fld, lambda e, sc=sc, fld=fld: sc.map_of(e) == ("parent", fld)) for sc, lp, st in item_stores)
                ctx.check(ok_all, key, f"the item-wise merge of {fld} does not reuse the first component of an entry the parent already holds",
                          "existing parent entry keeps its first component", rs.loc)
    exp = [(sc, n) for sc in scopes for n in call_nodes(sc.g, lambda c: isinstance(c.func, ast.Attribute) and c.func.attr == "_expire")]
    want_exp = {("self.nested", False), ("self.session.expire_on_commit", True)}
    good = bool(exp) and all(want_exp <= sc.atoms(n) for sc, n in exp)
    ctx.check(good, f"{rs.key}:expire-on-root-commit", "identity-map states are not expired exactly on a root commit with expire_on_commit", "expire all when not nested and expire_on_commit", rs.loc)

    def detaches_deleted(c, sc):
        if not (callee_is(c, "_detach_states") and c.args):
            return False
        a0 = expand(c.args[0], sc.binds)  # `gone = list(self._deleted); _detach_states(gone, ...)`
        return any(sc.map_of(n) == ("self", "_deleted") for n in ast.walk(a0))

    det = [(sc, n) for sc in scopes for n in call_nodes(sc.g, lambda c, sc=sc: detaches_deleted(c, sc))]
    reasons = []
    if not det:
        reasons.append("objects deleted in the transaction are never detached")
    for sc, n in det:
        atoms = sc.atoms(n)
        if ("self.nested", False) not in atoms:
            reasons.append("the detach is not restricted to a root (non-nested) commit")
        extra = sorted(a for a, p in atoms if a not in ("self.nested",))
        if extra:
            reasons.append(f"the detach additionally depends on {extra}: with that condition false a deleted object stays attached (state 'deleted') after COMMIT")
    ctx.check(not reasons, f"{rs.key}:detach-deleted-on-root-commit", "; ".join(reasons), "deleted objects detached on every root commit", rs.loc)
    rst = ctx.func(f"{ST}._restore_snapshot")
    read = {n.attr for n in ast.walk(rst.node) if isinstance(n, ast.Attribute) and dotted(n.value) == "self" and n.attr in BOOKKEEPING}
    ctx.check(read == set(BOOKKEEPING), f"{rst.key}:consumes-all-four", f"_restore_snapshot reads only {sorted(read)} of {list(BOOKKEEPING)}", "reads all four maps", rst.loc)
    # writers of composite entries outside the savepoint release keep the first component of an existing entry too
    m = ctx.index.module(SESSION)
    release_fns = {id(sc.fn) for sc in scopes}
    for f in ctx.index.all_functions(m):
        if id(f.node) in release_fns or f.type_only:
            continue
        is_map = _tx_map_pred(f.node)
        for fld in composite:
            stores = [st for st in walk_stmts(f.node.body) if isinstance(st, ast.Assign) and any(isinstance(t, ast.Subscript) and is_map(t.value) == fld for t in st.targets)]
            if not stores:
                continue
            ctx.functions_analysed.add(f.key)
            ok_all = all(_keeps_first_component(f.node, st, fld, lambda e, fld=fld: is_map(e) == fld) for st in stores)
            ctx.check(ok_all, f"{f.key}:{fld}:keeps-original", f"a new {fld} entry replaces an existing one without reusing its first component (the original key)",
                      "first component taken from the existing entry when there is one", f.loc)


class _Scope:
    """`_remove_snapshot` itself or a helper it calls (self method / module function that is handed `self`), with the names
    that denote this transaction / its parent there and the branch outcomes that dominate the call site(s)."""

    def __init__(self, ctx, fn, selfs, parents, outer):
        self.fn = fn
        self.g = ctx.cfg(fn)
        self.binds = single_binds(fn)
        self.outer = set(outer)
        self.selfs = set(selfs)
        self.parents = set(parents)
        # locals bound to `<self>._parent`
        for n, v, st in name_stores(fn):
            if v is not None and isinstance(v, ast.Attribute) and v.attr == "_parent" and dotted(v.value) in self.selfs:
                self.parents.add(n)
        self.parents |= {f"{x}._parent" for x in self.selfs}
        # boolean locals and plain attribute reads held in a local (`sess = self.session`, `expire_all = sess.expire_on_commit`)
        self._bb = bool_binds(fn, aliases=True)

    def map_of(self, e):
        """('self' | 'parent', field) when `e` denotes a bookkeeping map of this transaction / of its parent (directly or
        through a local that is bound once to it)."""
        if isinstance(e, ast.Name) and e.id in self.binds:
            e = self.binds[e.id]
        if isinstance(e, ast.Attribute) and e.attr in BOOKKEEPING:
            d = dotted(e.value)
            if d in self.selfs:
                return ("self", e.attr)
            if d in self.parents:
                return ("parent", e.attr)
        return None

    def atoms(self, n):
        return self.outer | resolved_atom_set(self.g, self.fn, n, binds=self._bb)


def _snapshot_scopes(ctx, rs, depth=2):
    m = ctx.index.module(SESSION)
    pm = m.parents()
    cls = ctx.index.cls(ST)
    out = [_Scope(ctx, rs.node, {"self"}, set(), set())]
    todo = [(out[0], depth)]
    seen = {id(rs.node)}
    while todo:
        sc, d = todo.pop()
        if d <= 0:
            continue
        for nid in call_nodes(sc.g, lambda c: True):
            for part in [sc.g.node(nid).stmt]:
                from ..astutil import own_exprs
                for c in [c for e in own_exprs(part) for c in calls_in(e)]:
                    callee = None
                    if isinstance(c.func, ast.Attribute) and dotted(c.func.value) in sc.selfs and c.func.attr in cls.methods:
                        callee = cls.methods[c.func.attr].node
                    elif isinstance(c.func, ast.Name) and c.func.id in m.functions and any(dotted(a) in sc.selfs for a in c.args):
                        callee = m.functions[c.func.id].node
                    if callee is None or id(callee) in seen:
                        continue
                    b = bind_args(callee, c, is_bound_method(callee, pm))
                    if b is None:
                        continue
                    seen.add(id(callee))
                    selfs = {p_ for p_, a in b.items() if dotted(a) in sc.selfs}
                    parents = {p_ for p_, a in b.items() if (dotted(a) in sc.parents) or (isinstance(a, ast.Name) and a.id in sc.parents)}
                    if not selfs:
                        continue
                    ctx.functions_analysed.add(f"{SESSION}::{qualname(pm, callee) + '.' if qualname(pm, callee) else ''}{callee.name}")
                    nsc = _Scope(ctx, callee, selfs, parents, sc.atoms(nid))
                    out.append(nsc)
                    todo.append((nsc, d - 1))
    return out


def _tx_map_pred(fn_node):
    """e -> field name when `e` is `<transaction>.<bookkeeping field>` or a local bound (only) to such an attribute."""
    al = _tx_exprs(fn_node)

    def direct(e):
        return e.attr if isinstance(e, ast.Attribute) and e.attr in BOOKKEEPING and _is_tx(e.value, al) else None

    names = {}
    for n, v, st in name_stores(fn_node):
        fld = direct(v) if v is not None else None
        names.setdefault(n, set()).add(fld)
    alias = {n: next(iter(v)) for n, v in names.items() if len(v) == 1 and None not in v}

    def is_map(e):
        if isinstance(e, ast.Name):
            return alias.get(e.id)
        return direct(e)

    return is_map


def _composite_maps(ctx):
    """{field: description} for bookkeeping maps whose stored values are not plain constants (so that a later
    entry for the same state is not interchangeable with an earlier one)."""
    m = ctx.index.module(SESSION)
    out = {}
    n_stores = 0
    for f in ctx.index.all_functions(m):
        is_map = _tx_map_pred(f.node)
        for n in walk_stmts(f.node.body):
            if isinstance(n, ast.Assign):
                for t in n.targets:
                    if isinstance(t, ast.Subscript) and is_map(t.value):
                        n_stores += 1
                        if not isinstance(n.value, ast.Constant):
                            out[is_map(t.value)] = f"{'tuples' if isinstance(n.value, ast.Tuple) else 'computed values'} (`{unparse(n.value)}`)"
    ctx.require(n_stores >= 3, f"only {n_stores} stores into the transaction's bookkeeping maps found")
    return out


def _keeps_first_component(fn_node, store: ast.Assign, fld: str, is_fld_map) -> bool:
    """The value stored is a tuple whose first element is (a local bound, on some branch, from) `<map>[<k>][0]` of a
    map of the same field (is_fld_map(expr) -> bool; aliases of the map are the caller's business), that read being
    conditional on `<k> in <map>`."""
    v = store.value
    if not (isinstance(v, ast.Tuple) and v.elts):
        return False
    first = v.elts[0]

    def is_existing_first(e):
        if isinstance(e, ast.Subscript) and isinstance(e.slice, ast.Constant) and e.slice.value == 0 and isinstance(e.value, ast.Subscript):
            return bool(is_fld_map(e.value.value))
        # `<map>.get(k, default)[0]` / `<map>[k][0] if k in <map> else ...` are covered by the candidates below
        return False

    def cands_of(e, depth=0):
        if isinstance(e, ast.IfExp):
            return cands_of(e.body, depth) + cands_of(e.orelse, depth)
        if isinstance(e, ast.Name) and depth < 2:
            out = []
            for n, val, st in name_stores(fn_node):
                if n == e.id:
                    if val is not None:
                        out += cands_of(val, depth + 1)
                    elif isinstance(st, ast.Assign) and isinstance(st.value, ast.Subscript) and any(isinstance(t, (ast.Tuple, ast.List)) for t in st.targets):
                        # `first, _ = <map>[k]`: the first target of an unpacked existing entry
                        t = st.targets[0]
                        if t.elts and isinstance(t.elts[0], ast.Name) and t.elts[0].id == e.id and is_fld_map(st.value.value):
                            out.append(ast.Subscript(value=st.value, slice=ast.Constant(value=0), ctx=ast.Load()))
            # tuple-unpacked loop targets have no value: they are the "no existing entry" arm, fine
            return out
        return [e]

    if not any(is_existing_first(c) for c in cands_of(first)):
        return False
    # the read is conditional on membership in the same field's map
    for n in ast.walk(fn_node):
        if isinstance(n, ast.Compare) and len(n.ops) == 1 and isinstance(n.ops[0], (ast.In, ast.NotIn)):
            if is_fld_map(n.comparators[0]):
                return True
    return False


# ---------------------------------------------------------------------- C33-R6: re-keying order
DISCARDS = ("safe_discard", "discard", "_fast_discard")
REGISTERS = ("replace", "add")


def _imap_call(c: ast.Call, methods, var: str, imaps=()) -> bool:
    if not (isinstance(c.func, ast.Attribute) and c.func.attr in methods):
        return False
    recv = c.func.value
    is_map = (dotted(recv) or "").endswith("identity_map") or (isinstance(recv, ast.Name) and recv.id in imaps)
    return is_map and len(c.args) >= 1 and isinstance(c.args[0], ast.Name) and c.args[0].id == var


@R.rule("C33-R6", floor=2, template="T-PATH",
        desc="the identity map files a state under state.key: wherever orm/session.py assigns a new key to a state that it "
             "also discards from / registers in the identity map, within one pass the discard (which looks the state up "
             "under its current key) precedes the key store and the re-registration follows it (a private helper that assigns the "
             "key of a state handed to it is summarised: its call is the key store of the caller)")
def r6(ctx):
    m = ctx.index.module(SESSION)
    pm = m.parents()
    n_inst = 0

    def imaps_of(fn_node):
        return {n for n, v, st_ in name_stores(fn_node) if v is not None and (dotted(v) or "").endswith("identity_map")}

    # a private helper that assigns the key of a state handed to it: its call is the key store of the caller
    helpers = key_store_helpers(ctx, m, lambda c, v, f_: _imap_call(c, DISCARDS, v, imaps_of(f_)), lambda c, v, f_: _imap_call(c, REGISTERS, v, imaps_of(f_)),
                                lambda g_, f_, n_: guard_atom_set(g_, n_))
    for f in ctx.index.all_functions(m):
        if f.type_only:
            continue
        stores = {}
        for st in walk_stmts(f.node.body):
            if isinstance(st, ast.Assign) and not (isinstance(st.value, ast.Constant) and st.value.value is None):
                for t in st.targets:
                    if isinstance(t, ast.Attribute) and t.attr == "key" and isinstance(t.value, ast.Name):
                        stores.setdefault(t.value.id, []).append(st)
        via_helper = helper_key_stores(f.node, helpers)
        own = helpers.get(f.name)
        own = own if own is not None and own.fn is f.node and own.followed else None
        for var in sorted(set(stores) | set(via_helper)):
            sts = stores.get(var, [])
            imaps = imaps_of(f.node)
            calls = [c for c in calls_in(f.node) if _imap_call(c, DISCARDS + REGISTERS, var, imaps)]
            if not calls and not via_helper.get(var):
                continue
            ctx.functions_analysed.add(f.key)
            g = ctx.cfg(f)
            disc = call_nodes(g, lambda c: _imap_call(c, DISCARDS, var, imaps))
            reg = call_nodes(g, lambda c: _imap_call(c, REGISTERS, var, imaps))
            problems, wit = [], None
            # (statement, node, text, discard is the helper's / the callers' business, registration is the helper's / the callers' business)
            sites = []
            for st in sts:
                for N in g.nodes_for(st):
                    dl = own is not None and var == own.param
                    sites.append((st, N, unparse(st), dl and not own.discards_first, dl and not own.registers_after))
            for _, h, c in via_helper.get(var, []):
                for N in call_nodes(g, lambda x: x is c):
                    sites.append((g.node(N).stmt, N, f"{h.fn.name}({var}, ...) [which assigns {h.param}.key]", h.discards_first, h.registers_after))
            for st, N, txt, disc_elsewhere, reg_elsewhere in sites:
                inner = None
                for a in ancestors(pm, st):
                    if a is f.node:
                        break
                    if isinstance(a, (ast.For, ast.While)):
                        inner = a
                        break
                heads = g.nodes_for(inner) if inner is not None else []
                starts = heads or [g.entry]
                fresh = (f"{var}.key is None", True) in guard_atom_set(g, N)
                if not fresh and not disc_elsewhere:
                    w = g.witness(starts, [N], avoid=disc)
                    if w is not None or not disc:
                        problems.append(f"`{txt}` can run before identity_map.{'/'.join(DISCARDS[:1])}({var}): the entry filed under the state's current key is never removed")
                        wit = wit or (g.describe_path(w) if w else None)
                w = g.witness([N], disc, avoid=heads)
                if w is not None:
                    problems.append(f"identity_map discard of `{var}` runs after `{txt}`: it looks the state up under the NEW key, so the entry under the previous key stays in the identity map")
                    wit = wit or g.describe_path(w)
                if not disc_elsewhere or st in sts:
                    w = g.witness(reg, [N], avoid=heads)
                    if w is not None:
                        problems.append(f"`{var}` is registered in the identity map before `{txt}` (filed under the previous key)")
                        wit = wit or g.describe_path(w)
                if not reg_elsewhere and g.witness([N], reg, avoid=heads) is None:
                    problems.append(f"after `{txt}` the state is never registered again under its new key")
            n_inst += 1
            uniq = []
            for p_ in problems:
                if p_ not in uniq:
                    uniq.append(p_)
            ctx.check(not uniq, f"{f.key}:rekey[{var}]", "; ".join(uniq), f"{len(sites)} key store(s): discard < key store < register", f.loc, wit)
    ctx.require(n_inst >= 1, "no re-keying site found in orm/session.py")


# ---------------------------------------------------------------------- C33-R7: the transaction's own flushes
def _session_config_attrs(ctx):
    init = ctx.func(f"{SESSION}::Session.__init__")
    params = set(init.params)
    out = set()
    for st in walk_stmts(init.node.body):
        if isinstance(st, ast.Assign) and isinstance(st.value, ast.Name) and st.value.id in params:
            for t in st.targets:
                if isinstance(t, ast.Attribute) and dotted(t.value) == "self" and not t.attr.startswith("__"):
                    out.add(t.attr)
    ctx.require(len(out) >= 4, f"Session.__init__ binds only {sorted(out)} from its parameters")
    return out


@R.rule("C33-R7", floor=3, template="T-GUARD/T-PATH",
        desc="the flushes SessionTransaction performs itself (before taking a savepoint snapshot, before commit) are "
             "conditioned only on transaction structure / re-entrancy: no dominating test reads a Session configuration "
             "attribute (one that Session.__init__ binds from a constructor parameter, e.g. autoflush); in _take_snapshot "
             "the flush exists and precedes the binding of the savepoint's fresh bookkeeping maps")
def r7(ctx):
    cfgattrs = _session_config_attrs(ctx)
    cls = ctx.index.cls(ST)
    n_sites = 0
    for name, f in sorted(cls.methods.items()):
        sess = {n for n, v, st in name_stores(f.node) if v is not None and dotted(v) == "self.session"} | {"self.session"}
        if not any(isinstance(c.func, ast.Attribute) and c.func.attr == "flush" and dotted(c.func.value) in sess for c in calls_in(f.node)):
            continue
        g = ctx.cfg(f)
        fl = call_nodes(g, lambda c: isinstance(c.func, ast.Attribute) and c.func.attr == "flush" and dotted(c.func.value) in sess)
        binds = {n: v for n, v, st in name_stores(f.node) if v is not None}

        def config_reads(expr, depth=0):
            out = []
            for a in ast.walk(expr):
                if isinstance(a, ast.Attribute) and a.attr in cfgattrs and dotted(a.value) in sess:
                    out.append(unparse(a))
                elif isinstance(a, ast.Name) and a.id in binds and depth < 2:
                    out.extend(config_reads(binds[a.id], depth + 1))
            return out

        bad = []
        for n in fl:
            for t, pol in g.edge_guards(n):
                for r_ in config_reads(t):
                    txt = f"`{r_}` (in `{unparse(t)}`)"
                    if txt not in bad:
                        bad.append(txt)
        n_sites += 1
        ctx.check(not bad, f"{f.key}:flush-guards",
                  f"the flush that {name}() performs depends on Session configuration {', '.join(bad)}: with that setting off, work done before this point is "
                  f"still unflushed when the transaction scope starts/ends and is attributed to the wrong scope",
                  f"{len(fl)} flush call(s), guards free of Session configuration", f.loc)
    ctx.require(n_sites >= 1, "no SessionTransaction method flushes the session")
    ts = ctx.func(f"{ST}._take_snapshot")
    g = ctx.cfg(ts)
    sess = {n for n, v, st in name_stores(ts.node) if v is not None and dotted(v) == "self.session"} | {"self.session"}
    fl = call_nodes(g, lambda c: isinstance(c.func, ast.Attribute) and c.func.attr == "flush" and dotted(c.func.value) in sess)
    fresh = [n for fld in BOOKKEEPING for n in attr_store_nodes(g, fld, lambda v: isinstance(v, ast.Call), "self")]
    ctx.require(fresh, "_take_snapshot binds no fresh maps")
    if not fl:
        ctx.violation(f"{ts.key}:flush-guards", "_take_snapshot() performs no flush at all", ts.loc)
        ctx.violation(f"{ts.key}:flush-before-fresh-maps", "_take_snapshot() no longer flushes before a savepoint snapshot is taken: pending work done before "
                      "begin_nested() is attributed to the savepoint and lost when it is rolled back", ts.loc)
    else:
        w = g.witness(fresh, fl)
        ctx.check(w is None, f"{ts.key}:flush-before-fresh-maps",
                  "the pre-savepoint flush can run after the savepoint's fresh bookkeeping maps were bound: the flushed objects are recorded as belonging to the savepoint",
                  "flush precedes the fresh maps", ts.loc, g.describe_path(w) if w else None)


# ---------------------------------------------------------------------- C33-R8: inner transactions still open
@R.rule("C33-R8", floor=2, template="T-SIBLING",
        desc="when commit/rollback of a transaction finds inner transactions still open (the walk over "
             "session._transaction._iterate_self_and_parents(upto=self)), each inner one is ended through an operation that "
             "consumes its snapshot (reaches _remove_snapshot or _restore_snapshot): an inner SAVEPOINT owns fresh "
             "bookkeeping maps (C33-R4) that are otherwise dropped")
def r8(ctx):
    cls = ctx.index.cls(ST)
    consumers = {"_restore_snapshot", "_remove_snapshot"}
    for name, f in cls.methods.items():
        if any(isinstance(c.func, ast.Attribute) and c.func.attr in ("_restore_snapshot", "_remove_snapshot") for c in calls_in(f.node)):
            consumers.add(name)
    n = 0
    for name, f in sorted(cls.methods.items()):
        for lp in [x for x in walk_local(f.node) if isinstance(x, ast.For)]:
            it = lp.iter
            if not (isinstance(it, ast.Call) and isinstance(it.func, ast.Attribute) and it.func.attr == "_iterate_self_and_parents"
                    and any(k.arg == "upto" and dotted(k.value) == "self" for k in it.keywords) and isinstance(lp.target, ast.Name)):
                continue
            v = lp.target.id
            called = {c.func.attr for c in calls_in(lp) if isinstance(c.func, ast.Attribute) and isinstance(c.func.value, ast.Name) and c.func.value.id == v}
            # `self._end_inner(inner)`: what the helper calls on the parameter that receives the inner transaction
            for c in calls_in(lp):
                if isinstance(c.func, ast.Attribute) and dotted(c.func.value) == "self" and c.func.attr in cls.methods:
                    h = cls.methods[c.func.attr]
                    b = bind_args(h.node, c, True)
                    for p_, a in (b or {}).items():
                        if isinstance(a, ast.Name) and a.id == v:
                            ctx.functions_analysed.add(h.key)
                            called |= {c2.func.attr for c2 in calls_in(h.node) if isinstance(c2.func, ast.Attribute) and isinstance(c2.func.value, ast.Name) and c2.func.value.id == p_}
            called = sorted(called)
            ctx.require(called, f"{f.key}: the walk over inner transactions calls nothing on `{v}`")
            n += 1
            good = any(c in consumers for c in called)
            ctx.check(good, f"{f.key}:inner-transactions",
                      f"{name}() ends inner open transactions with {'/'.join(called)}() only, which neither restores nor merges their snapshot: objects added/deleted/"
                      f"re-keyed inside a still-open inner SAVEPOINT keep their in-savepoint state (persistent / deleted) after this rollback although the database "
                      f"no longer has the rows",
                      f"inner transactions ended with {'/'.join(called)}()", f.loc)
    ctx.require(n >= 1, "no walk over inner transactions found")


# ---------------------------------------------------------------------- C33-R9: state-guarded transitions cover the declared prerequisites
def _fn_body(fn_node):
    body = list(fn_node.body)
    if body and isinstance(body[0], ast.Expr) and isinstance(body[0].value, ast.Constant) and isinstance(body[0].value.value, str):
        body = body[1:]
    return body


class _StateEval:
    """Three-valued value (True / False / None = not a function of the state) of a condition of a SessionTransaction method
    when `self._state` is a given SessionTransactionState member.  Comparisons of `self._state` with members (is / == / in,
    either polarity, either operand order), not/and/or (Kleene), conditional expressions, and properties / argument-less
    methods of the class whose body is a side-effect free boolean function (guard clauses, boolean locals) are understood."""

    def __init__(self, cls, members):
        self.cls = cls
        self.members = set(members)
        self.touched = False

    def member(self, e):
        d = dotted(e) if isinstance(e, (ast.Name, ast.Attribute)) else None
        m = _short(d) if d else None
        return m if m in self.members else None

    def ev(self, e, s, env=None, depth=0):
        env = env or {}
        if isinstance(e, ast.Constant) and isinstance(e.value, bool):
            return e.value
        if isinstance(e, ast.Name):
            return env.get(e.id)
        if isinstance(e, ast.UnaryOp) and isinstance(e.op, ast.Not):
            v = self.ev(e.operand, s, env, depth)
            return None if v is None else not v
        if isinstance(e, ast.BoolOp):
            vals = [self.ev(v, s, env, depth) for v in e.values]
            dom = not isinstance(e.op, ast.And)  # the dominating value: False for `and`, True for `or`
            if any(v is dom for v in vals):
                return dom
            return None if any(v is None for v in vals) else (not dom)
        if isinstance(e, ast.IfExp):
            t = self.ev(e.test, s, env, depth)
            if t is None:
                a, b = self.ev(e.body, s, env, depth), self.ev(e.orelse, s, env, depth)
                return a if a is b else None
            return self.ev(e.body if t else e.orelse, s, env, depth)
        if isinstance(e, ast.Compare) and len(e.ops) == 1:
            op, l, r = e.ops[0], e.left, e.comparators[0]
            if dotted(r) == "self._state" and isinstance(op, (ast.Is, ast.IsNot, ast.Eq, ast.NotEq)):
                l, r = r, l
            if dotted(l) == "self._state":
                if isinstance(op, (ast.Is, ast.Eq, ast.IsNot, ast.NotEq)):
                    m = self.member(r)
                    if m is None:
                        return None
                    self.touched = True
                    return (s == m) == isinstance(op, (ast.Is, ast.Eq))
                if isinstance(op, (ast.In, ast.NotIn)) and isinstance(r, (ast.Tuple, ast.List, ast.Set)):
                    ms = [self.member(x) for x in r.elts]
                    if any(m is None for m in ms):
                        return None
                    self.touched = True
                    return (s in ms) == isinstance(op, ast.In)
            return None
        # a property / argument-less method of the class that is a boolean function (of the state, possibly)
        name = None
        if isinstance(e, ast.Attribute) and dotted(e.value) == "self":
            f = self.cls.methods.get(e.attr)
            if f is not None and any(d.rsplit(".", 1)[-1] in ("property", "memoized_property", "ro_non_memoized_property") for d in f.decorators):
                name = e.attr
        elif isinstance(e, ast.Call) and not e.args and not e.keywords and isinstance(e.func, ast.Attribute) and dotted(e.func.value) == "self":
            f = self.cls.methods.get(e.func.attr)
            if f is not None and not f.decorators and [p for p in f.params] == ["self"]:
                name = e.func.attr
        if name is not None and depth < 3:
            return self.run(_fn_body(self.cls.methods[name].node), s, depth + 1)
        return None

    def run(self, body, s, depth):
        env = {}

        class _Stop(Exception):
            pass

        def block(stmts):
            for st in stmts:
                if isinstance(st, ast.Pass) or (isinstance(st, ast.Expr) and isinstance(st.value, ast.Constant)):
                    continue
                if isinstance(st, ast.Return):
                    return ("ret", self.ev(st.value, s, env, depth) if st.value is not None else None)
                if isinstance(st, ast.If):
                    t = self.ev(st.test, s, env, depth)
                    if t is None:
                        raise _Stop()
                    r = block(st.body if t else st.orelse)
                    if r is not None:
                        return r
                    continue
                if isinstance(st, (ast.Assign, ast.AnnAssign)):
                    tg = st.targets if isinstance(st, ast.Assign) else [st.target]
                    if len(tg) == 1 and isinstance(tg[0], ast.Name) and st.value is not None:
                        env[tg[0].id] = self.ev(st.value, s, env, depth)
                        continue
                raise _Stop()
            return None

        try:
            r = block(body)
        except _Stop:
            return None
        return r[1] if r is not None else None


@R.rule("C33-R9", floor=2, template="T-GUARD",
        desc="a transition of the state machine that a declared method performs under a test of the transaction's own state "
             "(a `_state` store or a delegated declared call dominated by branch outcomes that are functions of self._state; "
             "properties such as is_active, boolean locals and un-declared helper methods called on self are resolved) is skipped "
             "only when the transaction already is in the state the transition establishes: evaluated for every declared "
             "prerequisite state, e.g. rollback() performs the connection rollback + _restore_snapshot block from ACTIVE "
             "and from PREPARED (a COMMIT that failed), and skips it only from DEACTIVE")
def r9(ctx):
    decl = declared_methods(ctx)
    cls = ctx.index.cls(ST)
    members = set(ctx.index.cls(ENUM).assigns)
    ctx.require(len(members) >= 4, f"SessionTransactionState has only {sorted(members)}")
    n_inst = 0
    for name, (f, pres, to) in sorted(decl.items()):
        if pres == "ANY":
            continue
        pre_states = [_short(p) for p in pres]
        # (established state, [(resolved guard expr, polarity)], description, companions) per transition site, helpers followed
        sites = []

        def collect(fn_node, outer, depth, via=""):
            g = ctx.cfg(fn_node)
            bb = bool_binds(fn_node)

            def guards_of(nid):
                return outer + [(expand(t, bb), pol) for t, pol in g.edge_guards(nid)]

            for nid in attr_store_nodes(g, "_state", None, None):
                m = _short(dotted(g.node(nid).stmt.value) or "")
                if m in members:
                    sites.append((m, guards_of(nid), f"`{unparse(g.node(nid).stmt)}`{via}", nid, g))
            for n in g.nodes:
                if n.stmt is None or n.kind in ("with_exit", "handler", "join") or not isinstance(n.stmt, ast.stmt):
                    continue
                for c in [c for e in own_exprs(n.stmt) for c in calls_in(e)]:
                    if not (isinstance(c.func, ast.Attribute) and dotted(c.func.value) == "self" and c.func.attr in cls.methods):
                        continue
                    cn = c.func.attr
                    if cn in decl:
                        m = _short(decl[cn][2])
                        if m in members:
                            sites.append((m, guards_of(n.id), f"`self.{cn}()` (moves to {m}){via}", n.id, g))
                    elif depth > 0 and cn != fn_node.name and cls.methods[cn].node is not f.node:
                        # an un-declared helper of the class that itself moves the machine (store / delegated declared call)
                        h = cls.methods[cn]
                        if any((isinstance(x, ast.Attribute) and x.attr == "_state" and isinstance(x.ctx, ast.Store))
                               or (isinstance(x, ast.Call) and isinstance(x.func, ast.Attribute) and dotted(x.func.value) == "self" and x.func.attr in decl)
                               for x in ast.walk(h.node)):
                            ctx.functions_analysed.add(h.key)
                            collect(h.node, guards_of(n.id), depth - 1, f" in {cn}()")

        collect(f.node, [], 1)
        by_state: Dict[str, list] = {}
        for s_ in sites:
            by_state.setdefault(s_[0], []).append(s_)
        for E, lst in sorted(by_state.items()):
            ev = _StateEval(cls, members)
            # per site: the prerequisite states in which some dominating branch outcome is certainly the other one
            skipped, tests = [], set()
            for m, guards, what, nid, g in lst:
                sk = set()
                for t, pol in guards:
                    for s in pre_states:
                        ev.touched = False
                        v = ev.ev(t, s)
                        if ev.touched:
                            tests.add(("" if pol else "not ") + f"({unparse(t)})")
                        if v is not None and v != pol:
                            sk.add(s)
                skipped.append(sk)
            if not tests:
                continue  # this transition does not depend on the state the method is entered in
            n_inst += 1
            everywhere = set.intersection(*skipped)
            never = [s for s in pre_states if s != E and s in everywhere]
            # what else rides on the same branch outcomes (for the message): private methods called under the first site's guards
            m0, guards0, what0, nid0, g0 = lst[0]
            gtxt = {(unparse(t), pol) for t, pol in g0.edge_guards(nid0)}
            comp = sorted({c.func.attr for n in g0.nodes if n.kind == "stmt" and isinstance(n.stmt, ast.stmt)
                           and gtxt and gtxt <= {(unparse(t), pol) for t, pol in g0.edge_guards(n.id)}
                           for c in calls_in(n.stmt) if isinstance(c.func, ast.Attribute) and c.func.attr in cls.methods and c.func.attr.startswith("_")})
            ctx.check(not never, f"{f.key}:reaches[{E}]",
                      f"{name}() is declared for the states {pre_states}, but entered in {never} every site that establishes {E} "
                      f"({'; '.join(sorted({x[2] for x in lst}))}) is skipped by {sorted(tests)}: the transition"
                      + (f" and what is done with it ({', '.join(c + '()' for c in comp)})" if comp else "")
                      + f" never happens for a transaction in {never}, which is not {E} itself"
                      + ("; the snapshot is then never restored for that transaction: objects keep the state of the abandoned scope while the database has none of it"
                         if "_restore_snapshot" in comp else ""),
                      f"{len(lst)} site(s) establishing {E} under {sorted(tests)}; skipped only in {sorted(everywhere) or 'no'} prerequisite state(s)", f.loc)
    ctx.require(n_inst >= 1, "no declared method performs a state transition under a test of its own state")


# ---------------------------------------------------------------------- C33-R10: the partial (savepoint) expire pass
def _registers_as_altered(ctx, fld):
    """Is every state a function records in `<tx>.<fld>[state]` also recorded in `_dirty` (handed to Session._register_altered,
    directly or as a member of the collection the recording loop iterates, on every normal path after the store)?  A private helper
    that records the state handed to it is judged at its call sites.  -> (bool, [function keys])"""
    from ._helpers_rob_B2 import references
    m = ctx.index.module(SESSION)
    pm = m.parents()
    writers, ok = [], True

    def site_ok(fn_node, stmt, key_text, depth):
        """`stmt` (in fn_node) records the state named key_text: it is registered as altered on every normal way out."""
        g = ctx.cfg(fn_node)
        names = {key_text}
        for a in ancestors(pm, stmt):
            if a is fn_node:
                break
            if isinstance(a, ast.For) and unparse(a.target) == key_text:
                names.add(unparse(a.iter))
        reg = call_nodes(g, lambda c: isinstance(c.func, ast.Attribute) and c.func.attr == "_register_altered" and c.args and unparse(c.args[0]) in names)
        if reg and all(g.must_pass([n], [g.exit], reg, edge_ok=no_exc) is None for n in g.nodes_for(stmt)):
            return True
        # the state is a parameter of a private helper: the callers register it
        if depth > 0 and key_text in param_names(fn_node) and fn_node.name.startswith("_"):
            calls, other = references(m.tree, fn_node.name, pm)
            if not calls or other:
                return False
            for caller, c in calls:
                if caller is None:
                    return False
                bnd = bind_args(fn_node, c, is_bound_method(fn_node, pm))
                arg = (bnd or {}).get(key_text)
                if not isinstance(arg, ast.Name):
                    return False
                st = c
                while st is not None and not isinstance(st, ast.stmt):
                    st = pm.get(st)
                if st is None or not site_ok(caller, st, arg.id, depth - 1):
                    return False
                ctx.functions_analysed.add(f"{SESSION}::{qualname(pm, caller) + '.' if qualname(pm, caller) else ''}{caller.name}")
            return True
        return False

    for f in ctx.index.all_functions(m):
        if f.type_only or (f.cls is not None and f.cls.name == "SessionTransaction"):
            continue
        is_map = _tx_map_pred(f.node)
        stores = [st for st in walk_stmts(f.node.body) if isinstance(st, ast.Assign) and any(isinstance(t, ast.Subscript) and is_map(t.value) == fld for t in st.targets)]
        if not stores:
            continue
        writers.append(f.key)
        for st in stores:
            k = next(t.slice for t in st.targets if isinstance(t, ast.Subscript) and is_map(t.value) == fld)
            if not site_ok(f.node, st, unparse(k), 2):
                ok = False
    return ok and bool(writers), writers


@R.rule("C33-R10", floor=3, template="T-SIBLING/T-GUARD",
        desc="_restore_snapshot(dirty_only=True) -- the rollback of a SAVEPOINT -- expires every state the rolled-back scope recorded "
             "that stays in the session: the branch outcomes that dominate the expire, evaluated for a clean state that is a member of only one "
             "bookkeeping map, let it through for each of _dirty, _deleted (reverted to persistent) and _key_switches (re-keyed); a map whose "
             "every writer also registers the state as altered (-> _dirty) is covered through _dirty; _new is expunged instead")
def r10(ctx):
    rst = ctx.func(f"{ST}._restore_snapshot")
    g = ctx.cfg(rst)
    sb = single_binds(rst.node)
    flag = [p for p in rst.params if p != "self"]
    ctx.require(len(flag) == 1, f"_restore_snapshot has parameters {flag}: which one requests the partial expire is not known")
    flag = flag[0]
    # states of the bookkeeping maps that leave the session on rollback: handed to an _expunge_states call
    gone = set()
    for c in calls_in(rst.node):
        if isinstance(c.func, ast.Attribute) and c.func.attr == "_expunge_states" and c.args:
            a0 = expand(c.args[0], sb)
            gone |= {n.attr for n in ast.walk(a0) if isinstance(n, ast.Attribute) and n.attr in BOOKKEEPING and dotted(n.value) == "self"}
    stay = [fld for fld in BOOKKEEPING if fld not in gone]
    ctx.require(len(stay) >= 2 and gone, f"_restore_snapshot expunges the states of {sorted(gone)}: the maps whose states stay are not understood")
    exp = call_nodes(g, lambda c: isinstance(c.func, ast.Attribute) and c.func.attr == "_expire" and isinstance(c.func.value, ast.Name))
    ctx.require(exp, "_restore_snapshot expires nothing")
    pm = rst.module.parents()
    bb = bool_binds(rst.node)

    def mentions(e, fld):
        return any(isinstance(x, ast.Attribute) and x.attr == fld and dotted(x.value) == "self" for x in ast.walk(e))

    def covered(fld):
        """Some expire site runs for a state that is clean and a member of self.<fld> only, when the partial pass was requested."""
        from ._helpers_rob_B2 import _eval_prop, _leaves
        for n in exp:
            call = next(c for c in calls_in(g.node(n).stmt) if isinstance(c.func, ast.Attribute) and c.func.attr == "_expire")
            v = call.func.value.id
            over = None  # what the loop the expire sits in iterates
            for a in ancestors(pm, g.node(n).stmt):
                if a is rst.node:
                    break
                if isinstance(a, ast.For) and isinstance(a.target, ast.Name) and a.target.id == v:
                    over, loop = expand(a.iter, sb), a
                    break
            if over is None:
                continue
            heads = [x for x in g.nodes_for(loop) if g.node(x).kind == "for"]

            def member_leaf(leaf):
                try:
                    e = ast.parse(leaf, mode="eval").body
                except SyntaxError:
                    return False
                return (isinstance(e, ast.Compare) and len(e.ops) == 1 and isinstance(e.ops[0], ast.In) and unparse(e.left) == v and mentions(e.comparators[0], fld))

            def runs(as_member):
                """Is the expire reached within one pass of the loop when every test is decided for a clean state (all conditions
                false) for which the partial pass was requested and, with as_member, `<state> in <collection made of self.<fld>>` holds?"""
                def ok(a_, b_, lab):
                    if lab == "exc":
                        return False
                    nd = g.node(a_)
                    if nd.kind == "test" and lab in ("true", "false"):
                        t = expand(expand(nd.stmt.test, bb), sb)
                        leaves: List[str] = []
                        _leaves(t, leaves)
                        env = {leaf: (leaf == flag) or (as_member and member_leaf(leaf)) for leaf in leaves}
                        return _eval_prop(t, env) == (lab == "true")
                    return True
                return n in g.reachable(heads, edge_ok=ok)

            if mentions(over, fld):
                if runs(True):
                    return True  # `for s in self.<fld>: s._expire(..)`
            elif runs(True) and (not runs(False) or "identity_map" in unparse(over)):
                # the membership test lets it through (or the pass is not partial at all: every state of the identity map is expired)
                return True
        return False

    for fld in stay:
        key = f"{rst.key}:partial-expire-covers[{fld}]"
        if covered(fld):
            ctx.ok(key, f"a clean state recorded only in {fld} is expired by the partial pass")
            continue
        via, writers = _registers_as_altered(ctx, fld)
        if via and fld != "_dirty" and "_dirty" in stay and covered("_dirty"):
            ctx.ok(key, f"every writer of {fld} ({', '.join(w.rsplit('::', 1)[-1] for w in writers)}) also hands the state to _register_altered: covered through _dirty")
            continue
        ctx.violation(key, f"rolling back a SAVEPOINT (`{flag}`) does not expire a state that the savepoint recorded only in {fld}: it stays in the session "
                           f"(its {'deletion is reverted' if fld == '_deleted' else 'entry is restored'}) with whatever was changed on it inside the savepoint without marking it modified "
                           f"-- e.g. the has-parent flags cleared when it was removed from a delete-orphan collection, so that a later flush deletes its row -- "
                           f"while the same history at the outer level expires everything", rst.loc)


@R.rule("C33-R5", floor=3, template="T-PATH",
        desc="close(): session._transaction / _nested_transaction re-linked and _state = CLOSED before after_transaction_end is dispatched")
def r5(ctx):
    f = ctx.func(f"{ST}.close")
    g = ctx.cfg(f)
    sess = {t.id for st in walk_stmts(f.node.body) if isinstance(st, ast.Assign) and dotted(st.value) == "self.session" for t in st.targets if isinstance(t, ast.Name)} | {"self.session"}
    disp = call_nodes(g, lambda c: isinstance(c.func, ast.Attribute) and c.func.attr == "after_transaction_end")
    ctx.require(disp, "close() does not dispatch after_transaction_end")
    link = [n for n in attr_store_nodes(g, "_transaction", lambda v: dotted(v) == "self._parent") if dotted(g.node(n).stmt.targets[0].value) in sess]
    w = g.always_preceded(disp[0], link) if link else ["no `session._transaction = self._parent` store"]
    ctx.check(w is None, f"{f.key}:relink-transaction", "after_transaction_end can be dispatched before session._transaction = self._parent", "re-linked before the event", f.loc, w)
    nest = [n for n in attr_store_nodes(g, "_nested_transaction", lambda v: dotted(v) == "self._previous_nested_transaction") if dotted(g.node(n).stmt.targets[0].value) in sess]
    good = bool(nest) and all(("self.nested", True) in resolved_atom_set(g, f.node, n, aliases=True) for n in nest) and not (set(nest) & g.reachable(disp, include_starts=False))
    # on the nested arm the store precedes the dispatch: no path test(nested-outcome) -> dispatch avoiding the store
    if good:
        from ..astutil import test_atoms as _ta
        bb = bool_binds(f.node, aliases=True)
        for t in [t for t in g.nodes if t.kind == "test"]:
            at = _ta(expand(t.stmt.test, bb), True)
            if len(at) != 1 or at[0][0] != "self.nested":
                continue
            arm = [b for b, lab in g.succ[t.id] if lab == ("true" if at[0][1] else "false")]
            if g.witness(arm, disp, avoid=nest) is not None and not (set(arm) & set(nest)):
                good = False
    ctx.check(good, f"{f.key}:relink-nested", "a savepoint's close() does not restore session._nested_transaction before the event", "restored when nested, before the event", f.loc)
    closed = [n for n, s in _state_stores(g) if s == "CLOSED"]
    w = g.always_preceded(disp[0], closed) if closed else ["no _state = CLOSED"]
    ctx.check(w is None, f"{f.key}:closed-before-event", "after_transaction_end can be dispatched before _state = CLOSED", "CLOSED before the event", f.loc, w)


# ---------------------------------------------------------------------- self-test battery
R.mutant("prepare-forgets-state", SESSION, sub("                        self.rollback()\n\n        self._state = SessionTransactionState.PREPARED\n", "                        self.rollback()\n\n"), "C33-R1")
R.mutant("connection-state-not-restored", SESSION,
         sub("                self.session.dispatch.after_begin(self.session, self, conn)\n                return conn\n        finally:\n            self._state = SessionTransactionState.ACTIVE\n",
             "                self.session.dispatch.after_begin(self.session, self, conn)\n                self._state = SessionTransactionState.ACTIVE\n                return conn\n        finally:\n            pass\n"), "C33-R1")
R.mutant("state-written-by-undeclared-method", SESSION,
         sub("    def _get_subject(self) -> Session:\n        return self.session\n\n    def _transaction_is_active", "    def _get_subject(self) -> Session:\n        self._state = SessionTransactionState.ACTIVE\n        return self.session\n\n    def _transaction_is_active"), "C33-R1")
R.mutant("close-sets-committed", SESSION, sub("        self._state = SessionTransactionState.CLOSED\n        sess = self.session\n", "        self._state = SessionTransactionState.COMMITTED\n        sess = self.session\n"), "C33-R1")
R.mutant("commit-state-before-connections", SESSION,
         sub("                if should_commit:\n                    trans.commit()\n\n            self._state = SessionTransactionState.COMMITTED\n", "                self._state = SessionTransactionState.COMMITTED\n                if should_commit:\n                    trans.commit()\n\n"), "C33-R2")
R.mutant("commit-remove-snapshot-first", SESSION,
         sub("        if self._parent is None or self.nested:\n            for conn, trans, should_commit, autoclose in set(\n                self._connections.values()\n            ):\n                if should_commit:\n                    trans.commit()\n",
             "        if self._parent is None or self.nested:\n            self._remove_snapshot()\n            for conn, trans, should_commit, autoclose in set(\n                self._connections.values()\n            ):\n                if should_commit:\n                    trans.commit()\n"), "C33-R2")
R.mutant("commit-remove-snapshot-unconditional", SESSION,
         sub("            self.session.dispatch.after_commit(self.session)\n\n            self._remove_snapshot()\n", "            self.session.dispatch.after_commit(self.session)\n\n        if self._is_transaction_boundary or True:\n            self._remove_snapshot()\n"), "C33-R2")
R.mutant("rollback-deactive-only-on-success", SESSION,
         sub("                    finally:\n                        transaction._state = SessionTransactionState.DEACTIVE\n                        transaction._restore_snapshot(", "                    finally:\n                        transaction._restore_snapshot("), "C33-R3")
R.mutant("rollback-restore-only-on-success", SESSION,
         sub("                        transaction._state = SessionTransactionState.DEACTIVE\n                        self.session.dispatch.after_rollback(self.session)\n                    except:\n                        rollback_err = sys.exc_info()\n                    finally:\n                        transaction._state = SessionTransactionState.DEACTIVE\n                        transaction._restore_snapshot(\n                            dirty_only=transaction.nested\n                        )\n",
             "                        transaction._state = SessionTransactionState.DEACTIVE\n                        self.session.dispatch.after_rollback(self.session)\n                        transaction._restore_snapshot(\n                            dirty_only=transaction.nested\n                        )\n                    except:\n                        rollback_err = sys.exc_info()\n                    finally:\n                        transaction._state = SessionTransactionState.DEACTIVE\n"), "C33-R3")
R.mutant("savepoint-shares-parent-dirty", SESSION, sub("        self._dirty = weakref.WeakKeyDictionary()\n", "        self._dirty = self._parent._dirty if self._parent else weakref.WeakKeyDictionary()\n"), "C33-R4")
_KS_MERGE = ("            for s, (oldkey, newkey) in self._key_switches.items():\n                if s in parent._key_switches:\n"
             "                    oldkey = parent._key_switches[s][0]\n                parent._key_switches[s] = (oldkey, newkey)\n")
_REL_OLD = ("            parent = self._parent\n            assert parent is not None\n            parent._new.update(self._new)\n"
            "            parent._dirty.update(self._dirty)\n            parent._deleted.update(self._deleted)\n" + _KS_MERGE)
R.mutant("savepoint-release-forgets-key-switches", SESSION, sub(_KS_MERGE, ""), "C33-R4")
R.mutant("savepoint-release-merges-wrong-map", SESSION, sub("            parent._deleted.update(self._deleted)\n", "            parent._deleted.update(self._dirty)\n"), "C33-R4")
R.mutant("close-event-before-relink", SESSION,
         sub("        self.session._transaction = self._parent\n\n        for connection, transaction, should_commit, autoclose in set(", "        self.session.dispatch.after_transaction_end(self.session, self)\n        self.session._transaction = self._parent\n\n        for connection, transaction, should_commit, autoclose in set("), "C33-R5")
R.mutant("close-nested-not-restored", SESSION,
         sub("        if self.nested:\n            self.session._nested_transaction = (\n                self._previous_nested_transaction\n            )\n\n        self.session._transaction = self._parent\n", "        self.session._transaction = self._parent\n"), "C33-R5")
# benign
R.mutant("benign-commit-log", SESSION, sub("            self._state = SessionTransactionState.COMMITTED\n", "            _n = len(self._connections)\n            self._state = SessionTransactionState.COMMITTED\n"), None)
R.mutant("benign-reorder-snapshot-fields", SESSION,
         sub("        self._new = weakref.WeakKeyDictionary()\n        self._deleted = weakref.WeakKeyDictionary()\n", "        self._deleted = weakref.WeakKeyDictionary()\n        self._new = weakref.WeakKeyDictionary()\n"), None)
R.mutant("benign-rename-parent-local", SESSION,
         sub(_REL_OLD,
             "            outer = self._parent\n            assert outer is not None\n            outer._dirty.update(self._dirty)\n            outer._new.update(self._new)\n            outer._deleted.update(self._deleted)\n"
             "            for st_, (k0, k1) in self._key_switches.items():\n                if st_ in outer._key_switches:\n                    k0 = outer._key_switches[st_][0]\n                outer._key_switches[st_] = (k0, k1)\n"), None)

# --- str-n: C33-R4 (composite merge) / R6 / R7 / R8
# C33-R4 `_remove_snapshot:_key_switches:merge-keeps-original` and C33-R8 `rollback:inner-transactions` fire on the unchanged tree
# (findings/C33_savepoint_release_overwrites_original_key.py, findings/C33_rollback_with_open_inner_savepoint.py); once fixed in /repo enable:
# (both were findings on the unchanged tree, fixed in /repo since: 7134f99, 19283ee)
R.mutant("savepoint-release-blind-key-switch-merge", SESSION, sub(_KS_MERGE, "            parent._key_switches.update(self._key_switches)\n"), "C33-R4")
R.mutant("savepoint-release-merge-ignores-parent-entry", SESSION,
         sub(_KS_MERGE, "            for s, (oldkey, newkey) in self._key_switches.items():\n                parent._key_switches[s] = (oldkey, newkey)\n"), "C33-R4")
R.mutant("rollback-closes-inner-savepoints", SESSION,
         sub("                if subtransaction.nested:\n                    # hand the bookkeeping of a still-open SAVEPOINT to its\n                    # parent so that the snapshot restored below covers it\n                    subtransaction._remove_snapshot()\n                subtransaction.close()\n",
             "                subtransaction.close()\n"), "C33-R8")
_KS_OLD = ("                    if state in trans._key_switches:\n                        orig_key = trans._key_switches[state][0]\n                    else:\n                        orig_key = state.key\n")
R.mutant("key-switch-forgets-original-key", SESSION, sub(_KS_OLD, "                    orig_key = state.key\n"), "C33-R4")
R.mutant("key-switch-original-from-wrong-map", SESSION,
         sub(_KS_OLD, "                    if state in trans._dirty and state in trans._new:\n                        orig_key = trans._new[state]\n                    else:\n                        orig_key = state.key\n"), "C33-R4")
R.mutant("benign-key-switch-rename-local", SESSION,
         chain(sub(_KS_OLD, "                    first_key = state.key\n                    if state in trans._key_switches:\n                        first_key = trans._key_switches[state][0]\n"),
               sub("                    trans._key_switches[state] = (\n                        orig_key,\n                        instance_key,\n                    )\n", "                    trans._key_switches[state] = (first_key, instance_key)\n")), None)
_RK_DISC = ("            # we probably can do this conditionally based on\n            # if we expunged or not, but safe_discard does that anyway\n            self.session.identity_map.safe_discard(s)\n\n")
_RK_IF = "            if s not in to_expunge and s.session_id == self.session.hash_key:\n"
_RK_REST = ("            # restore the old key and the object, but only if we didn't\n            # expunge; an expunged object is transient and has no key\n"
            + _RK_IF + "                s.key = oldkey\n                self.session.identity_map.replace(s)\n")
_RK_OLD = _RK_DISC + _RK_REST
R.mutant("seed-restore-rekeys-before-discard", SESSION,
         sub(_RK_OLD, _RK_IF + "                s.key = oldkey\n\n            self.session.identity_map.safe_discard(s)\n\n" + _RK_IF + "                self.session.identity_map.replace(s)\n"), "C33-R6")
R.mutant("restore-replace-before-rekey", SESSION,
         sub(_RK_OLD, _RK_DISC + _RK_IF + "                self.session.identity_map.replace(s)\n                s.key = oldkey\n"), "C33-R6")
R.mutant("restore-no-discard-of-switched-key", SESSION, sub(_RK_OLD, _RK_REST), "C33-R6")
R.mutant("register-persistent-discard-after-rekey", SESSION,
         chain(sub("                    # map (see test/orm/test_naturalpks.py ReversePKsTest)\n                    self.identity_map.safe_discard(state)\n", "                    # map (see test/orm/test_naturalpks.py ReversePKsTest)\n"),
               sub("                    state.key = instance_key\n\n                # there can be an existing state", "                    state.key = instance_key\n                    self.identity_map.safe_discard(state)\n\n                # there can be an existing state")), "C33-R6")
R.mutant("benign-restore-log-between-discard-and-rekey", SESSION,
         sub(_RK_OLD, "            self.session.identity_map.safe_discard(s)\n            _prev = newkey\n\n" + _RK_IF + "                s.key = oldkey\n                self.session.identity_map.replace(s)\n"), None)
R.mutant("benign-restore-rename-loop-var", SESSION,
         sub("        for s, (oldkey, newkey) in self._key_switches.items():\n" + _RK_OLD,
             "        for st_, (k_old, k_new) in self._key_switches.items():\n            imap = self.session.identity_map\n            imap.safe_discard(st_)\n"
             "            if st_ in to_expunge or st_.session_id != self.session.hash_key:\n                continue\n            st_.key = k_old\n            self.session.identity_map.replace(st_)\n"), None)
_FL_OLD = "        if not is_begin and not self.session._flushing:\n            self.session.flush()\n"
R.mutant("seed-savepoint-flush-only-with-autoflush", SESSION,
         sub(_FL_OLD, "        if (\n            not is_begin\n            and self.session.autoflush\n            and not self.session._flushing\n        ):\n            self.session.flush()\n"), "C33-R7")
R.mutant("savepoint-flush-autoflush-via-local", SESSION,
         sub(_FL_OLD, "        wants_flush = self.session.autoflush and not self.session._flushing\n        if not is_begin and wants_flush:\n            self.session.flush()\n"), "C33-R7")
R.mutant("commit-flush-only-with-autoflush", SESSION,
         sub("        if not self.session._flushing:\n            for _flush_guard in range(100):", "        if self.session.autoflush and not self.session._flushing:\n            for _flush_guard in range(100):"), "C33-R7")
R.mutant("savepoint-flush-after-fresh-maps", SESSION,
         chain(sub(_FL_OLD + "\n", ""),
               sub("        self._key_switches = weakref.WeakKeyDictionary()\n\n    def _restore_snapshot", "        self._key_switches = weakref.WeakKeyDictionary()\n" + _FL_OLD + "\n    def _restore_snapshot")), "C33-R7")
R.mutant("savepoint-no-flush", SESSION, sub(_FL_OLD + "\n", "        del is_begin\n\n"), "C33-R7")
R.mutant("benign-savepoint-flush-rename-local", SESSION,
         chain(sub("        is_begin = self.origin in (", "        root_like = self.origin in ("), sub(_FL_OLD, "        sess = self.session\n        if not root_like and not sess._flushing:\n            sess.flush()\n")), None)
R.mutant("prepare-does-not-commit-inner", SESSION,
         sub("            for subtransaction in stx._iterate_self_and_parents(upto=self):\n                subtransaction.commit()\n", "            for subtransaction in stx._iterate_self_and_parents(upto=self):\n                subtransaction.close()\n"), "C33-R8")
R.mutant("prepare-only-prepares-inner", SESSION,
         sub("            for subtransaction in stx._iterate_self_and_parents(upto=self):\n                subtransaction.commit()\n", "            for subtransaction in stx._iterate_self_and_parents(upto=self):\n                subtransaction._prepare_impl()\n"), "C33-R8")
R.mutant("benign-prepare-rename-inner-loop-var", SESSION,
         sub("            for subtransaction in stx._iterate_self_and_parents(upto=self):\n                subtransaction.commit()\n", "            for inner in stx._iterate_self_and_parents(upto=self):\n                _o = inner.origin\n                inner.commit()\n"), None)

# ---------------------------------------------------------------------- rob-B2: behaviour-preserving refactorings that must stay silent
# (families of benign/rfB_8, rfB_15 and further ones), and breaking edits made THROUGH the same shapes that must still fire
_MERGE_HELPER_HEAD = "    @_StateChange.declare_states(\n        (SessionTransactionState.ACTIVE,), _StateChangeStates.NO_CHANGE\n    )\n    def _connection_for_bind(\n"


def _merge_helper(body: str):
    """_remove_snapshot's savepoint arm extracted into a helper method with the given body."""
    return chain(sub(_REL_OLD, "            parent = self._parent\n            assert parent is not None\n            self._merge_snapshot_into(parent)\n"),
                 sub(_MERGE_HELPER_HEAD, "    def _merge_snapshot_into(self, parent: SessionTransaction) -> None:\n" + body + "\n" + _MERGE_HELPER_HEAD))


_MERGE_BODY = ("        parent._new.update(self._new)\n        parent._dirty.update(self._dirty)\n        parent._deleted.update(self._deleted)\n\n"
               "        parent_key_switches = parent._key_switches\n        for state, (oldkey, newkey) in self._key_switches.items():\n"
               "            if state in parent_key_switches:\n                original_key = parent_key_switches[state][0]\n            else:\n                original_key = oldkey\n"
               "            parent_key_switches[state] = (original_key, newkey)\n")
R.mutant("benign-release-merge-in-helper-with-alias", SESSION, _merge_helper(_MERGE_BODY), None)
R.mutant("release-helper-forgets-dirty", SESSION, _merge_helper(_MERGE_BODY.replace("        parent._dirty.update(self._dirty)\n", "")), "C33-R4")
R.mutant("release-helper-blind-key-switch-merge-via-alias", SESSION,
         _merge_helper("        parent._new.update(self._new)\n        parent._dirty.update(self._dirty)\n        parent._deleted.update(self._deleted)\n"
                       "        parent_key_switches = parent._key_switches\n        parent_key_switches.update(self._key_switches)\n"), "C33-R4")
R.mutant("release-helper-merges-into-itself", SESSION, _merge_helper(_MERGE_BODY.replace("        parent._deleted.update(self._deleted)\n", "        self._deleted.update(self._deleted)\n")), "C33-R4")
R.mutant("benign-release-merge-ternary-and-get", SESSION,
         sub(_KS_MERGE, "            merged = parent._key_switches\n            for s, (oldkey, newkey) in self._key_switches.items():\n"
                        "                first = merged[s][0] if s in merged else oldkey\n                merged[s] = (first, newkey)\n"), None)
# the root-commit arm written with an early return and a named condition
_ROOT_OLD = ("        if not self.nested:\n            if self.session.expire_on_commit:\n                for s in self.session.identity_map.all_states():\n"
             "                    s._expire(s.dict, self.session.identity_map._modified)\n\n            statelib.InstanceState._detach_states(\n"
             "                list(self._deleted), self.session\n            )\n            self._deleted.clear()\n        elif self.nested:\n" + _REL_OLD)
_ROOT_NEW = ("        if self.nested:\n" + _REL_OLD + "            return\n\n        sess = self.session\n        expire_all = sess.expire_on_commit\n        if expire_all:\n"
             "            for s in sess.identity_map.all_states():\n                s._expire(s.dict, sess.identity_map._modified)\n\n"
             "        gone = list(self._deleted)\n        statelib.InstanceState._detach_states(gone, sess)\n        self._deleted.clear()\n")
R.mutant("benign-remove-snapshot-early-return-and-locals", SESSION, sub(_ROOT_OLD, _ROOT_NEW), None)
R.mutant("remove-snapshot-early-return-detach-only-when-expiring", SESSION,
         sub(_ROOT_OLD, _ROOT_NEW.replace("        gone = list(self._deleted)\n        statelib.InstanceState._detach_states(gone, sess)\n",
                                          "        gone = list(self._deleted)\n        if expire_all:\n            statelib.InstanceState._detach_states(gone, sess)\n")), "C33-R4")
# _take_snapshot with the boundary test named and the arms swapped
_TS_OLD = ("        if not self._is_transaction_boundary:\n            parent = self._parent\n            assert parent is not None\n            self._new = parent._new\n"
           "            self._deleted = parent._deleted\n            self._dirty = parent._dirty\n            self._key_switches = parent._key_switches\n            return\n\n")
R.mutant("benign-take-snapshot-named-boundary", SESSION,
         sub(_TS_OLD, "        at_boundary = self._is_transaction_boundary\n        if not at_boundary:\n            outer = self._parent\n            assert outer is not None\n            self._new = outer._new\n"
                      "            self._deleted = outer._deleted\n            self._dirty = outer._dirty\n            self._key_switches = outer._key_switches\n            return\n\n"), None)
# commit(): the boundary condition held in a local / written negatively
_CB_OLD = "        if self._parent is None or self.nested:\n            for conn, trans, should_commit, autoclose in set("
R.mutant("benign-commit-boundary-named", SESSION, sub(_CB_OLD, "        outermost = self._parent is None\n        if outermost or self.nested:\n            for conn, trans, should_commit, autoclose in set("), None)
R.mutant("benign-commit-boundary-property", SESSION, sub(_CB_OLD, "        if self._is_transaction_boundary:\n            for conn, trans, should_commit, autoclose in set("), None)
R.mutant("commit-boundary-named-but-always-true", SESSION,
         sub(_CB_OLD, "        outermost = self._parent is None\n        if outermost or self.nested or not self.nested:\n            for conn, trans, should_commit, autoclose in set("), "C33-R2")
# PK switch of _register_persistent extracted into a helper (benign/rfB_15), and the same with the order broken inside / around it
_SW_OLD = ("                    # primary key switch. use safe_discard() in case another\n                    # state has already replaced this one in the identity\n"
           "                    # map (see test/orm/test_naturalpks.py ReversePKsTest)\n                    self.identity_map.safe_discard(state)\n"
           "                    trans = self._transaction\n                    assert trans is not None\n" + _KS_OLD +
           "                    trans._key_switches[state] = (\n                        orig_key,\n                        instance_key,\n                    )\n                    state.key = instance_key\n")
_SW_HEAD = "    def _register_altered(self, states: Iterable[InstanceState[Any]]) -> None:\n"
_SW_RECORD = ("        trans = self._transaction\n        assert trans is not None\n        key_switches = trans._key_switches\n        if state in key_switches:\n"
              "            orig_key = key_switches[state][0]\n        else:\n            orig_key = state.key\n        key_switches[state] = (orig_key, instance_key)\n")


def _switch_helper(call: str, body: str):
    return chain(sub(_SW_OLD, call), sub(_SW_HEAD, "    def _switch_identity_key(self, state: InstanceState[Any], instance_key: Any) -> None:\n" + body + "\n" + _SW_HEAD))


_SW_CALL = "                    self._switch_identity_key(state, instance_key)\n"
R.mutant("benign-key-switch-in-helper", SESSION, _switch_helper(_SW_CALL, "        self.identity_map.safe_discard(state)\n" + _SW_RECORD + "        state.key = instance_key\n"), None)
R.mutant("benign-key-switch-in-helper-caller-discards", SESSION,
         _switch_helper("                    self.identity_map.safe_discard(state)\n" + _SW_CALL, _SW_RECORD + "        state.key = instance_key\n"), None)
R.mutant("key-switch-helper-discards-after-store", SESSION, _switch_helper(_SW_CALL, _SW_RECORD + "        state.key = instance_key\n        self.identity_map.safe_discard(state)\n"), "C33-R6")
R.mutant("key-switch-helper-nobody-discards", SESSION, _switch_helper(_SW_CALL, _SW_RECORD + "        state.key = instance_key\n"), "C33-R6")
R.mutant("key-switch-helper-forgets-original-key", SESSION,
         _switch_helper(_SW_CALL, "        self.identity_map.safe_discard(state)\n        trans = self._transaction\n        assert trans is not None\n        key_switches = trans._key_switches\n"
                                  "        key_switches[state] = (state.key, instance_key)\n        state.key = instance_key\n"), "C33-R4")

# further shapes (rob-B2): connections / `nested` read through a local, the walk over inner transactions delegated to a helper
R.mutant("benign-commit-connections-in-local", SESSION,
         sub("            for conn, trans, should_commit, autoclose in set(\n                self._connections.values()\n            ):\n                if should_commit:\n                    trans.commit()\n",
             "            open_connections = set(self._connections.values())\n            for conn, trans, should_commit, autoclose in open_connections:\n                if should_commit:\n                    trans.commit()\n"), None)
_CL_OLD = "        if self.nested:\n            self.session._nested_transaction = (\n                self._previous_nested_transaction\n            )\n\n        self.session._transaction = self._parent\n"
R.mutant("benign-close-nested-in-local", SESSION,
         sub(_CL_OLD, "        is_savepoint = self.nested\n        self.session._transaction = self._parent\n        if not is_savepoint:\n            pass\n        else:\n"
                      "            self.session._nested_transaction = (\n                self._previous_nested_transaction\n            )\n"), None)
R.mutant("close-nested-in-local-restored-on-wrong-arm", SESSION,
         sub(_CL_OLD, "        is_savepoint = self.nested\n        self.session._transaction = self._parent\n        if not is_savepoint:\n"
                      "            self.session._nested_transaction = (\n                self._previous_nested_transaction\n            )\n"), "C33-R5")
_RB_INNER = ("                if subtransaction.nested:\n                    # hand the bookkeeping of a still-open SAVEPOINT to its\n                    # parent so that the snapshot restored below covers it\n"
             "                    subtransaction._remove_snapshot()\n                subtransaction.close()\n")
_RB_HEAD = "    def _get_subject(self) -> Session:\n        return self.session\n"
R.mutant("benign-rollback-ends-inner-in-helper", SESSION,
         chain(sub(_RB_INNER, "                self._end_inner(subtransaction)\n"),
               sub(_RB_HEAD, "    def _end_inner(self, inner: SessionTransaction) -> None:\n        if inner.nested:\n            inner._remove_snapshot()\n        inner.close()\n\n" + _RB_HEAD)), None)
R.mutant("rollback-inner-helper-only-closes", SESSION,
         chain(sub(_RB_INNER, "                self._end_inner(subtransaction)\n"),
               sub(_RB_HEAD, "    def _end_inner(self, inner: SessionTransaction) -> None:\n        inner.close()\n\n" + _RB_HEAD)), "C33-R8")

# ---------------------------------------------------------------------- str2-n: C33-R9 (round-2 seed C33_4) and benign shapes of the same guard
_RBG_BODY = "            for transaction in self._iterate_self_and_parents():\n                if transaction._parent is None or transaction.nested:\n"
_RBG_OLD = ("        if self._state in (\n            SessionTransactionState.ACTIVE,\n            SessionTransactionState.PREPARED,\n        ):\n" + _RBG_BODY)
_ST_ = "SessionTransactionState."
R.mutant("seed-rollback-block-only-when-is-active", SESSION, sub(_RBG_OLD, "        if self.is_active:\n" + _RBG_BODY), "C33-R9")
R.mutant("rollback-block-only-from-active", SESSION, sub(_RBG_OLD, f"        if self._state is {_ST_}ACTIVE:\n" + _RBG_BODY), "C33-R9")
R.mutant("rollback-block-named-guard-only-active", SESSION,
         sub(_RBG_OLD, f"        connections_live = self._state == {_ST_}ACTIVE\n        if connections_live:\n" + _RBG_BODY), "C33-R9")
R.mutant("rollback-block-inverted-guard-skips-prepared", SESSION,
         sub(_RBG_OLD, f"        if self._state in ({_ST_}DEACTIVE, {_ST_}PREPARED):\n            pass\n        else:\n" + _RBG_BODY), "C33-R9")
_PROP_HEAD = "    @property\n    def _is_transaction_boundary(self) -> bool:\n"
R.mutant("rollback-block-helper-property-only-active", SESSION,
         chain(sub(_RBG_OLD, "        if self._database_transaction_open:\n" + _RBG_BODY),
               sub(_PROP_HEAD, "    @property\n    def _database_transaction_open(self) -> bool:\n        return self._transaction_is_active()\n\n" + _PROP_HEAD)), "C33-R9")
_CP_OLD = f"        if self._state is not {_ST_}PREPARED:\n            with self._expect_state({_ST_}PREPARED):\n                self._prepare_impl()\n"
R.mutant("commit-prepare-skipped-from-active", SESSION, sub(_CP_OLD, _CP_OLD.replace(f"is not {_ST_}PREPARED:", f"is not {_ST_}ACTIVE:")), "C33-R9")
_ENSURE = ("    def _ensure_prepared(self) -> None:\n        if %s:\n            return\n        with self._expect_state(" + _ST_ + "PREPARED):\n            self._prepare_impl()\n\n")
R.mutant("commit-prepare-helper-returns-early-from-active", SESSION,
         chain(sub(_CP_OLD, "        self._ensure_prepared()\n"), sub(_PROP_HEAD, _ENSURE % f"self._state in ({_ST_}PREPARED, {_ST_}ACTIVE)" + _PROP_HEAD)), "C33-R9")
R.mutant("benign-rollback-block-named-guard", SESSION,
         sub(_RBG_OLD, f"        needs_database_rollback = self._state in (\n            {_ST_}ACTIVE,\n            {_ST_}PREPARED,\n        )\n        if needs_database_rollback:\n" + _RBG_BODY), None)
R.mutant("benign-rollback-block-unless-deactive", SESSION, sub(_RBG_OLD, f"        if self._state is not {_ST_}DEACTIVE:\n" + _RBG_BODY), None)
R.mutant("benign-rollback-block-inverted-guard", SESSION, sub(_RBG_OLD, f"        if self._state == {_ST_}DEACTIVE:\n            pass\n        else:\n" + _RBG_BODY), None)
R.mutant("benign-rollback-block-is-active-or-prepared", SESSION, sub(_RBG_OLD, f"        if self.is_active or self._state is {_ST_}PREPARED:\n" + _RBG_BODY), None)
R.mutant("benign-rollback-block-helper-property", SESSION,
         chain(sub(_RBG_OLD, "        if self._database_transaction_open:\n" + _RBG_BODY),
               sub(_PROP_HEAD, f"    @property\n    def _database_transaction_open(self) -> bool:\n        if self._state is {_ST_}ACTIVE:\n            return True\n"
                               f"        return self._state is {_ST_}PREPARED\n\n" + _PROP_HEAD)), None)
R.mutant("benign-commit-prepare-when-active", SESSION, sub(_CP_OLD, _CP_OLD.replace(f"is not {_ST_}PREPARED:", f"is {_ST_}ACTIVE:")), None)
R.mutant("benign-commit-prepare-in-helper", SESSION,
         chain(sub(_CP_OLD, "        self._ensure_prepared()\n"), sub(_PROP_HEAD, _ENSURE % f"self._state is {_ST_}PREPARED" + _PROP_HEAD)), None)

# C33-R10 (fires on the unchanged tree for `_deleted`: findings/C33_savepoint_rollback_keeps_orphan_flag.py; once fixed in /repo add the un-fix edit
# `... or s in self._dirty or s in self._deleted` -> `... or s in self._dirty` as a breaking mutant "partial-expire-forgets-deleted")
_PE_OLD = "            if not dirty_only or s.modified or s in self._dirty:\n                s._expire(s.dict, self.session.identity_map._modified)\n"
_PE_EXP = "                s._expire(s.dict, self.session.identity_map._modified)\n"
R.mutant("partial-expire-forgets-dirty", SESSION, sub(_PE_OLD, "            if not dirty_only or s.modified:\n" + _PE_EXP), "C33-R10")
R.mutant("partial-expire-dirty-test-in-named-guard-dropped", SESSION,
         sub(_PE_OLD, "            touched = s.modified\n            if dirty_only and not touched:\n                continue\n            s._expire(s.dict, self.session.identity_map._modified)\n"), "C33-R10")
R.mutant("key-switch-no-longer-registered-as-altered", SESSION,
         sub("            ((state, state.dict) for state in states), self.identity_map\n        )\n\n        self._register_altered(states)\n",
             "            ((state, state.dict) for state in states), self.identity_map\n        )\n"), "C33-R10")
R.mutant("benign-partial-expire-named-condition", SESSION,
         sub(_PE_OLD, "            needs_expire = not dirty_only or s.modified or s in self._dirty\n            if needs_expire:\n" + _PE_EXP), None)
R.mutant("benign-partial-expire-continue-form", SESSION,
         sub(_PE_OLD, "            if dirty_only and not s.modified and s not in self._dirty:\n                continue\n            s._expire(s.dict, self.session.identity_map._modified)\n"), None)
R.mutant("benign-partial-expire-map-alias-and-nested-ifs", SESSION,
         sub("        for s in self.session.identity_map.all_states():\n" + _PE_OLD,
             "        altered = self._dirty\n        for s in self.session.identity_map.all_states():\n            if dirty_only:\n                if not (s.modified or s in altered):\n                    continue\n"
             "            s._expire(s.dict, self.session.identity_map._modified)\n"), None)
R.mutant("key-switch-in-helper-caller-no-longer-registers-altered", SESSION,
         chain(_switch_helper(_SW_CALL, "        self.identity_map.safe_discard(state)\n" + _SW_RECORD + "        state.key = instance_key\n"),
               sub("            ((state, state.dict) for state in states), self.identity_map\n        )\n\n        self._register_altered(states)\n",
                   "            ((state, state.dict) for state in states), self.identity_map\n        )\n")), "C33-R10")
