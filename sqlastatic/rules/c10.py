"""C10 -- Result objects deliver exactly the underlying rows (API flag agreement, thin)."""

from __future__ import annotations

import ast

from ..astutil import (
    call_name, calls_in, dotted, guard_atoms, name_stores, own_exprs, raised_name, unparse, walk_local,
)
from ..oracles import load as load_oracle
from ..report import Registry, sub

R = Registry(
    "C10",
    title="Result objects deliver exactly the underlying rows under any access pattern",
    decides=(
        "every one/one_or_none/first/scalar_one/scalar_one_or_none/scalar of Result, ScalarResult, MappingResult "
        "and the asyncio mirrors calls _only_one_row with the documented (raise_for_second_row, raise_for_none, "
        "scalar) triple and returns its value; _only_one_row raises NoResultFound only under raise_for_none and "
        "never returns None for a missing row when it is set, raises MultipleResultsFound only under "
        "raise_for_second_row, closes the result before every normal return of a row and before raising for a "
        "second row, projects column 0 only under `scalar`; filtered views (scalars/mappings/tuples/columns) "
        "share the parent's _real_result and metadata and delegate every fetch primitive to it."
    ),
    not_decided=(
        "equivalence with a list model under arbitrary call sequences, fetch strategies (buffered / streaming), "
        "uniquing, partitions, freeze/merge."
    ),
)

RES = "engine/result.py"
ARES = "ext/asyncio/result.py"
CY = "engine/_result_cy.py"
ONLY = f"{CY}::BaseResultInternal._only_one_row"
FLAG_NAMES = ("raise_for_second_row", "raise_for_none", "scalar")


def _flag_params(ctx):
    f = ctx.func(ONLY)
    params = [p for p in f.params if p != "self"]
    ctx.require(set(FLAG_NAMES) <= set(params), f"_only_one_row no longer takes {FLAG_NAMES} (has {params})")
    return f, params


def _triple_at(call: ast.Call, params, offset: int):
    """{flag: bool} for a call `_only_one_row(...)` (offset 0) or `greenlet_spawn(self._only_one_row, ...)`
    (offset 1); None when an argument is not a boolean literal."""
    out = {}
    pos = call.args[offset:]
    for i, a in enumerate(pos):
        if i >= len(params):
            return None
        out[params[i]] = a
    for k in call.keywords:
        if k.arg is None:
            return None
        out[k.arg] = k.value
    res = {}
    for name in FLAG_NAMES:
        v = out.get(name)
        if not (isinstance(v, ast.Constant) and isinstance(v.value, bool)):
            return None
        res[name] = v.value
    return res


@R.rule("C10-R1", floor=24, template="T-SIBLING",
        desc="every single-row accessor of the Result family (sync and asyncio) returns _only_one_row(...) "
             "called with the documented (raise_for_second_row, raise_for_none, scalar) triple "
             "(oracle result_api_flags.json)")
def r1(ctx):
    oracle = load_oracle("result_api_flags.json")["flags"]
    only, params = _flag_params(ctx)
    n = 0
    for rel in (RES, ARES):
        m = ctx.index.module(rel)
        for cls in sorted(ctx.index._all_classes(m), key=lambda c: c.node.lineno):
            base = ctx.index.resolve_method(cls, "_only_one_row")
            if base is None or base.key != only.key:
                continue  # not a member of the Result family
            for name in oracle:
                f = cls.methods.get(name)
                if f is None or f.type_only:
                    continue
                body = [s for s in f.node.body if not (isinstance(s, ast.Expr) and isinstance(s.value, ast.Constant))]
                if len(body) == 1 and isinstance(body[0], ast.Expr):
                    continue  # typing stub `...`
                ctx.functions_analysed.add(f.key)
                key = f.key
                n += 1
                found = []
                for c in calls_in(f.node):
                    nm = call_name(c) or ""
                    if nm == "self._only_one_row":
                        found.append((c, 0))
                    elif nm.rsplit(".", 1)[-1] == "greenlet_spawn" and c.args and dotted(c.args[0]) == "self._only_one_row":
                        found.append((c, 1))
                if not found:
                    # delegation to a sibling accessor of the same name family is accepted only if it is
                    # the same accessor on the wrapped result
                    ctx.error(f"{key}: single-row accessor does not call self._only_one_row (unknown idiom)")
                ctx.require(len(found) == 1, f"{key}: {len(found)} calls of _only_one_row")
                c, off = found[0]
                got = _triple_at(c, params, off)
                ctx.require(got is not None, f"{key}: flags of `{unparse(c)[:80]}` are not boolean literals")
                want = oracle[name]
                # the value must be what the accessor returns
                returned = False
                for r in walk_local(f.node):
                    if isinstance(r, ast.Return) and r.value is not None:
                        v = r.value
                        if isinstance(v, ast.Await):
                            v = v.value
                        if v is c:
                            returned = True
                diffs = [f"{k}={got[k]} (documented: {want[k]})" for k in FLAG_NAMES if got[k] != want[k]]
                if diffs:
                    ctx.violation(key, f"{cls.name}.{name}() calls _only_one_row with " + ", ".join(diffs), f.loc)
                elif not returned:
                    ctx.violation(key, f"{cls.name}.{name}() does not return the value of _only_one_row", f.loc)
                else:
                    ctx.ok(key, "(" + ", ".join(f"{k}={got[k]}" for k in FLAG_NAMES) + ")")
    ctx.require(n > 0, "no single-row accessor found")


def _guards(g, node_id):
    return guard_atoms(g.edge_guards(node_id))


@R.rule("C10-R2", floor=7, template="T-PATH",
        desc="_only_one_row: NoResultFound only under raise_for_none (and no None return for a missing row when "
             "set); MultipleResultsFound only under raise_for_second_row; the result is closed before every "
             "normal return of a row and before raising for a second row; column 0 is projected only under scalar")
def r2(ctx):
    f, params = _flag_params(ctx)
    errs = load_oracle("result_api_flags.json")["errors"]
    g = ctx.cfg(f)
    base = f.key
    raises = {}
    for nid in g.find(lambda n: n.kind == "stmt" and isinstance(n.stmt, ast.Raise) and n.stmt.exc is not None):
        nm = (raised_name(g.node(nid).stmt) or "").rsplit(".", 1)[-1]
        raises.setdefault(nm, []).append(nid)
    # (a) documented errors under their flag only
    for flag in ("raise_for_none", "raise_for_second_row"):
        exc_name = errs[flag]
        nodes = raises.get(exc_name, [])
        ctx.require(nodes, f"_only_one_row never raises {exc_name}")
        bad = [g.node(n).describe() for n in nodes if (flag, True) not in _guards(g, n)]
        ctx.check(not bad, f"{base}:{exc_name}-only-under-{flag}",
                  f"{exc_name} can be raised although {flag} is False: {bad}",
                  f"{len(nodes)} raise site(s), all dominated by `{flag}`", f.loc)
    # (b) a missing first row: None is returned only when raise_for_none is False
    fetch_binds = sorted(((n, st) for n, v, st in name_stores(f.node) if isinstance(v, ast.Call) and _is_fetch(v, f)),
                         key=lambda x: x[1].lineno)
    ctx.require(fetch_binds, "first row fetch not found")
    first_fetch = fetch_binds[0]
    row = first_fetch[0]
    tests = [n.id for n in g.nodes if n.kind == "test" and unparse(n.stmt.test).replace(" ", "") in (f"{row}isNone", f"{row}isnotNone")]
    ctx.require(tests, f"`if {row} is None` test not found")
    none_returns = [nid for nid in g.find(lambda n: n.kind == "stmt" and isinstance(n.stmt, ast.Return))
                    if (f"{row} is None", True) in _guards(g, nid)]
    bad = [g.node(n).describe() for n in none_returns if ("raise_for_none", False) not in _guards(g, n)]
    ctx.check(not bad, f"{base}:missing-row-returns-none-only-without-raise_for_none",
              f"with no row, _only_one_row can return instead of raising although raise_for_none is set: {bad}",
              f"{len(none_returns)} return(s) under `{row} is None`, dominated by `not raise_for_none`", f.loc)
    # (c) closing: after a first row was fetched, every normal exit passes a close or a further fetch
    t0 = min(tests, key=lambda i: g.node(i).lineno)
    pos_is_none = "isnot" not in unparse(g.node(t0).stmt.test).replace(" ", "")
    have_row = [b for b, lab in g.succ[t0] if lab == ("false" if pos_is_none else "true")]
    closes = g.find_calls("_soft_close")
    fetch_nodes = [n.id for n in g.nodes if n.stmt is not None and n.kind in ("stmt", "test") and isinstance(n.stmt, ast.stmt)
                   and any(_is_fetch(c, f) for c in _own_calls(n)) and n.stmt is not first_fetch[1]]
    ctx.require(closes, "_only_one_row never calls _soft_close")
    w = g.must_pass(have_row, [g.exit], set(closes) | set(fetch_nodes))
    ctx.check(w is None, f"{base}:closed-before-returning-a-row",
              "a row can be returned while the result stays open (neither _soft_close() nor an exhausting second fetch on the path)",
              f"every normal exit passes _soft_close() ({len(closes)} sites) or a further hard-closing fetch ({len(fetch_nodes)} sites)",
              f.loc, w)
    # the fetches themselves ask for closing on exhaustion
    fetch_calls = [c for c in calls_in(f.node) if _is_fetch(c, f)]
    hard = [c for c in fetch_calls if any(k.arg == "hard_close" and isinstance(k.value, ast.Constant) and k.value.value is True for k in c.keywords)]
    ctx.check(len(hard) == len(fetch_calls) and fetch_calls, f"{base}:fetches-hard-close-on-exhaustion",
              f"{len(fetch_calls) - len(hard)} of {len(fetch_calls)} row fetches do not pass hard_close=True (an exhausted result would stay open)",
              f"{len(fetch_calls)} fetches with hard_close=True", f.loc)
    # (d) MultipleResultsFound is preceded by a close
    for nid in raises.get(errs["raise_for_second_row"], []):
        w = g.always_preceded(nid, closes)
        ctx.check(w is None, f"{base}:closed-before-MultipleResultsFound",
                  "MultipleResultsFound can be raised with the result still open", "dominated by _soft_close()", f.loc, w)
    # (e) scalar projection
    proj = [nid for nid in g.find(lambda n: n.kind == "stmt" and isinstance(n.stmt, ast.Return) and isinstance(n.stmt.value, ast.Subscript))]
    good = bool(proj)
    for nid in proj:
        r = g.node(nid).stmt
        idx = r.value.slice
        if not (isinstance(idx, ast.Constant) and idx.value == 0 and unparse(r.value.value) == row):
            good = False
        if ("scalar", True) not in _guards(g, nid):
            good = False
    ctx.check(good, f"{base}:scalar-projects-column-0",
              f"`return {row}[0]` is missing, uses another index, or is not dominated by `scalar`",
              f"`return {row}[0]` only under `scalar`", f.loc)


def _own_calls(n):
    out = []
    for part in own_exprs(n.stmt):
        out.extend(calls_in(part))
    return out


def _is_fetch(c: ast.Call, f) -> bool:
    """A call of the one-row fetch primitive: `self._fetchone_impl(...)` or a local alias of it."""
    nm = call_name(c) or ""
    if nm.endswith("._fetchone_impl"):
        return True
    if isinstance(c.func, ast.Name):
        for n, v, st in name_stores(f.node):
            if n == c.func.id and v is not None and (dotted(v) or "").endswith("._fetchone_impl"):
                return True
    return False


FETCH_PRIMS = ("_fetchiter_impl", "_fetchone_impl", "_fetchall_impl", "_fetchmany_impl", "_soft_close")


@R.rule("C10-R3", floor=23, template="T-SIBLING",
        desc="filtered views share the parent result: every view constructor stores its result argument as "
             "_real_result and derives _metadata from it; FilterResult delegates each fetch primitive to "
             "_real_result; scalars/mappings/tuples/columns return self or a view over self/_real_result")
def r3(ctx):
    ix = ctx.index
    filt = ix.cls(f"{RES}::FilterResult")
    # (1) delegation of the fetch primitives
    for prim in FETCH_PRIMS:
        f = filt.methods.get(prim)
        key = f"{filt.key}.{prim}"
        if f is None:
            ctx.violation(key, f"FilterResult does not define {prim}: the view would not read from its parent", filt.loc)
            continue
        ctx.functions_analysed.add(f.key)
        cs = [c for c in calls_in(f.node) if call_name(c) == f"self._real_result.{prim}"]
        other = [call_name(c) for c in calls_in(f.node) if (call_name(c) or "").startswith("self._real_result.") and call_name(c) != f"self._real_result.{prim}"]
        good = len(cs) == 1 and not other
        if good:
            # every parameter is passed through
            c = cs[0]
            passed = {unparse(a) for a in c.args} | {unparse(k.value) for k in c.keywords}
            good = all(p in passed for p in f.params if p != "self")
        ctx.check(good, key, f"FilterResult.{prim} does not delegate to self._real_result.{prim} with its own arguments "
                             f"(calls: {[call_name(c) for c in calls_in(f.node)]})",
                  f"-> self._real_result.{prim}(...)", f.loc)
    # (2) constructors of the views
    views = []
    for rel in (RES, ARES):
        m = ix.module(rel)
        for cls in sorted(ix._all_classes(m), key=lambda c: c.node.lineno):
            if cls is filt or filt not in ix.mro(cls):
                continue
            init = cls.methods.get("__init__")
            if init is None or init.type_only:
                continue
            views.append(cls)
            ctx.functions_analysed.add(init.key)
            ps = [p for p in init.params if p != "self"]
            ctx.require(ps, f"{cls.key}.__init__ takes no result argument")
            rp = ps[0]
            stores = [(n.targets, n.value) for n in walk_local(init.node) if isinstance(n, ast.Assign)]
            rr = [v for tg, v in stores for t in tg if dotted(t) == "self._real_result"]
            md = [v for tg, v in stores for t in tg if dotted(t) == "self._metadata"]
            shares = bool(rr) and all(isinstance(v, ast.Name) and v.id == rp for v in rr)
            # metadata: <rp>._metadata, self._metadata (already shared) optionally followed by ._reduce(...)
            def md_ok(v):
                d = dotted(v) or ""
                d = d.replace("._reduce()", "")
                return d in (f"{rp}._metadata", "self._metadata")
            meta = bool(md) and all(md_ok(v) for v in md)
            copies = [call_name(c) for c in calls_in(init.node)
                      if (call_name(c) or "").rsplit(".", 1)[-1] in ("fetchall", "all", "_allrows", "_fetchall_impl", "list", "freeze", "copy", "deepcopy")]
            ctx.check(shares and meta and not copies, f"{cls.key}.__init__",
                      f"view constructor does not share its parent: _real_result <- {[unparse(v) for v in rr]}, "
                      f"_metadata <- {[unparse(v) for v in md]}, copying calls {copies}",
                      f"_real_result = {rp}; _metadata from {rp}._metadata", init.loc)
    ctx.require(len(views) >= 2, "FilterResult views not found")
    view_names = {c.name for c in views}
    # (3) the factories
    for rel in (RES, ARES):
        m = ix.module(rel)
        for cls in sorted(ix._all_classes(m), key=lambda c: c.node.lineno):
            if ix.resolve_method(cls, "_only_one_row") is None:
                continue
            for name in ("scalars", "mappings", "tuples", "columns", "t", "_column_slices"):
                f = cls.methods.get(name)
                if f is None or f.type_only:
                    continue
                rets = [r for r in walk_local(f.node) if isinstance(r, ast.Return) and r.value is not None]
                if not rets:
                    continue
                ctx.functions_analysed.add(f.key)
                good = True
                how = []
                for r in rets:
                    v = r.value
                    if isinstance(v, ast.Name) and v.id == "self":
                        how.append("self")
                    elif isinstance(v, ast.Call) and call_name(v) == "self._column_slices":
                        how.append("self._column_slices()")
                    elif isinstance(v, ast.Call) and (call_name(v) or "") in view_names and v.args \
                            and unparse(v.args[0]) in ("self", "self._real_result"):
                        how.append(f"{call_name(v)}({unparse(v.args[0])}, ..)")
                    else:
                        good = False
                        how.append(unparse(v)[:60])
                if name == "_column_slices":
                    # in-place narrowing of the shared metadata only
                    st = [(dotted(t), unparse(n.value)) for n in walk_local(f.node) if isinstance(n, ast.Assign) for t in n.targets]
                    good = good and all(t == "self._metadata" and val.startswith("self._metadata._reduce(") for t, val in st if t and t.startswith("self."))
                ctx.check(good, f.key, f"{cls.name}.{name}() returns {how}: not this result nor a view over it",
                          " / ".join(how), f.loc)


# ---------------------------------------------------------------------- self-test battery
R.mutant("result-first-raises-for-second", RES,
         sub("        return self._only_one_row(\n            raise_for_second_row=False, raise_for_none=False, scalar=False\n        )",
             "        return self._only_one_row(\n            raise_for_second_row=True, raise_for_none=False, scalar=False\n        )", count=3), "C10-R1")
R.mutant("result-scalar-one-not-scalar", RES,
         sub("            raise_for_second_row=True, raise_for_none=True, scalar=True\n", "            raise_for_second_row=True, raise_for_none=True, scalar=False\n"), "C10-R1")
R.mutant("async-one-or-none-raises-for-none", ARES,
         sub("        scalar values, rather than :class:`_engine.Row` objects,\n        are returned.\n\n        \"\"\"\n        return await greenlet_spawn(self._only_one_row, True, False, False)",
             "        scalar values, rather than :class:`_engine.Row` objects,\n        are returned.\n\n        \"\"\"\n        return await greenlet_spawn(self._only_one_row, True, True, False)"), "C10-R1")
R.mutant("async-scalar-checks-second-row", ARES,
         sub("        return await greenlet_spawn(self._only_one_row, False, False, True)", "        return await greenlet_spawn(self._only_one_row, True, False, True)"), "C10-R1")
R.mutant("result-one-value-dropped", RES,
         sub("        return self._only_one_row(\n            raise_for_second_row=True, raise_for_none=True, scalar=False\n        )\n\n    # special case to handle mypy issue:",
             "        self._only_one_row(\n            raise_for_second_row=True, raise_for_none=True, scalar=False\n        )\n        return None\n\n    # special case to handle mypy issue:"), "C10-R1")
R.mutant("no-result-raised-unconditionally", CY,
         sub("        if row is None:\n            if raise_for_none:\n                raise exc.NoResultFound(\n                    \"No row was found when one was required\"\n                )\n            else:\n                return None\n",
             "        if row is None:\n            raise exc.NoResultFound(\n                \"No row was found when one was required\"\n            )\n"), "C10-R2")
R.mutant("none-returned-despite-flag", CY,
         sub("        if row is None:\n            if raise_for_none:\n                raise exc.NoResultFound(\n                    \"No row was found when one was required\"\n                )\n            else:\n                return None\n",
             "        if row is None:\n            if raise_for_none and scalar:\n                raise exc.NoResultFound(\n                    \"No row was found when one was required\"\n                )\n            else:\n                return None\n"), "C10-R2")
R.mutant("multiple-checked-always", CY,
         sub("        if raise_for_second_row:\n            if self._unique_filter_state:", "        if raise_for_second_row or scalar:\n            if self._unique_filter_state:"), "C10-R2")
R.mutant("first-leaves-result-open", CY,
         sub("            # closed us :)\n            self._soft_close(hard=True)\n", "            # closed us :)\n"), "C10-R2")
R.mutant("multiple-raised-while-open", CY,
         sub("            if next_row is not _NO_ROW:\n                self._soft_close(hard=True)\n                raise exc.MultipleResultsFound(",
             "            if next_row is not _NO_ROW:\n                raise exc.MultipleResultsFound("), "C10-R2")
R.mutant("scalar-takes-wrong-column", CY,
         sub("            return row[0]  # type: ignore[no-any-return]", "            return row[-1]  # type: ignore[no-any-return]"), "C10-R2")
R.mutant("second-fetch-soft", CY,
         sub("                next_row = onerow(hard_close=True)\n                if next_row is None:\n                    next_row = _NO_ROW\n\n            if next_row",
             "                next_row = onerow()\n                if next_row is None:\n                    next_row = _NO_ROW\n\n            if next_row"), "C10-R2")
R.mutant("view-fetchone-reads-all", RES,
         sub("        return self._real_result._fetchone_impl(hard_close=hard_close)", "        return self._real_result._fetchall_impl()[0]"), "C10-R3")
R.mutant("view-fetchmany-drops-size", RES,
         sub("        return self._real_result._fetchmany_impl(size=size)", "        return self._real_result._fetchmany_impl()"), "C10-R3")
R.mutant("scalarresult-copies-parent", RES,
         sub("        self, real_result: Result[Unpack[TupleAny]], index: _KeyIndexType\n    ):\n        self._real_result = real_result\n",
             "        self, real_result: Result[Unpack[TupleAny]], index: _KeyIndexType\n    ):\n        self._real_result = real_result.freeze()()\n"), "C10-R3")
R.mutant("mappings-over-fresh-result", RES,
         sub("        return MappingResult(self)\n", "        return MappingResult(self.freeze()())\n"), "C10-R3")
R.mutant("async-scalars-over-copy", ARES,
         sub("        return AsyncScalarResult(self._real_result, index)", "        return AsyncScalarResult(self._real_result.freeze()(), index)"), "C10-R3")
# benign
R.mutant("benign-positional-flags", RES,
         sub("        return self._only_one_row(\n            raise_for_second_row=True, raise_for_none=True, scalar=True\n        )",
             "        return self._only_one_row(True, True, True)"), None)
R.mutant("benign-async-keywords", ARES,
         sub("        return await greenlet_spawn(self._only_one_row, True, True, True)",
             "        return await greenlet_spawn(\n            self._only_one_row, raise_for_second_row=True, raise_for_none=True, scalar=True\n        )"), None)
R.mutant("benign-rename-row-local", CY,
         sub("            if next_row is not _NO_ROW:\n                self._soft_close(hard=True)\n", "            if next_row is not _NO_ROW:\n                _closing = True\n                self._soft_close(hard=True)\n"), None)
R.mutant("benign-view-ctor-rename", RES,
         sub("    def __init__(self, result: Result[Unpack[TupleAny]]):\n        self._real_result = result\n        self._unique_filter_state = result._unique_filter_state\n        self._metadata = result._metadata\n        if result._source_supports_scalars:",
             "    def __init__(self, parent: Result[Unpack[TupleAny]]):\n        self._unique_filter_state = parent._unique_filter_state\n        self._real_result = parent\n        self._metadata = parent._metadata\n        result = parent\n        if result._source_supports_scalars:"), None)
