"""C10 -- Result objects deliver exactly the underlying rows (API flag agreement, thin)."""

from __future__ import annotations

import ast

from ..astutil import (
    call_name, calls_in, dotted, guard_atoms, lexical_guards, name_stores, own_exprs, raised_name, test_atoms,
    unparse, walk_local,
)
from ..oracles import load as load_oracle
from ..report import Registry, chain, sub
from ._helpers_rob_e1 import guards_imply, once_bound, resolve_name
from ._helpers_rob_g1 import normal_form

R = Registry(
    "C10",
    title="Result objects deliver exactly the underlying rows under any access pattern",
    decides=(
        "every one/one_or_none/first/scalar_one/scalar_one_or_none/scalar of Result, ScalarResult, MappingResult "
        "and the asyncio mirrors calls _only_one_row with the documented (raise_for_second_row, raise_for_none, "
        "scalar) triple and returns its value; _only_one_row raises NoResultFound only under raise_for_none and "
        "never returns None for a missing row when it is set, raises MultipleResultsFound only under "
        "raise_for_second_row, closes the result before every normal return of a row and before raising for a "
        "second row, projects column 0 only under `scalar`; filtered views (scalars/mappings/tuples/columns) "
        "share the parent's _real_result and metadata and delegate every fetch primitive to it; every method "
        "that re-assigns state captured by the memoized row getters (derived from the getters' bodies), directly or "
        "through its real result, drops the memoizations or leaves the result closed; _manyrow_getter asks the fetch "
        "primitive for the requested size, and under uniquing tops up with exactly the shortfall, recomputed after "
        "every batch; no generator of the family caches a re-assignable delegate (cursor_strategy) across a yield."
    ),
    not_decided=(
        "equivalence with a list model under arbitrary call sequences, fetch strategies (buffered / streaming) "
        "internals, freeze/merge; state changed from outside the classes (orm/loading.py sets "
        "result._unique_filter_state on a fresh result); calls made while a partitions() generator that cached "
        "a memoized getter is suspended; in-place mutation of captured objects (metadata)."
    ),
)

RES = "engine/result.py"
ARES = "ext/asyncio/result.py"
CY = "engine/_result_cy.py"
ONLY = f"{CY}::BaseResultInternal._only_one_row"
FLAG_NAMES = ("raise_for_second_row", "raise_for_none", "scalar")


def _flag_params(ctx):
    f = ctx.func(ONLY)
    params = [p for p in f.params if p != "self"]
    ctx.require(set(FLAG_NAMES) <= set(params), f"_only_one_row no longer takes {FLAG_NAMES} (has {params})")
    return f, params


def _triple_at(call: ast.Call, params, offset: int):
    """{flag: bool} for a call `_only_one_row(...)` (offset 0) or `greenlet_spawn(self._only_one_row, ...)`
    (offset 1); None when an argument is not a boolean literal."""
    out = {}
    pos = call.args[offset:]
    for i, a in enumerate(pos):
        if i >= len(params):
            return None
        out[params[i]] = a
    for k in call.keywords:
        if k.arg is None:
            return None
        out[k.arg] = k.value
    res = {}
    for name in FLAG_NAMES:
        v = out.get(name)
        if not (isinstance(v, ast.Constant) and isinstance(v.value, bool)):
            return None
        res[name] = v.value
    return res


@R.rule("C10-R1", floor=24, template="T-SIBLING",
        desc="every single-row accessor of the Result family (sync and asyncio) returns _only_one_row(...) "
             "called with the documented (raise_for_second_row, raise_for_none, scalar) triple "
             "(oracle result_api_flags.json)")
def r1(ctx):
    oracle = load_oracle("result_api_flags.json")["flags"]
    only, params = _flag_params(ctx)
    n = 0
    for rel in (RES, ARES):
        m = ctx.index.module(rel)
        for cls in sorted(ctx.index._all_classes(m), key=lambda c: c.node.lineno):
            base = ctx.index.resolve_method(cls, "_only_one_row")
            if base is None or base.key != only.key:
                continue  # not a member of the Result family
            for name in oracle:
                f = cls.methods.get(name)
                if f is None or f.type_only:
                    continue
                body = [s for s in f.node.body if not (isinstance(s, ast.Expr) and isinstance(s.value, ast.Constant))]
                if len(body) == 1 and isinstance(body[0], ast.Expr):
                    continue  # typing stub `...`
                ctx.functions_analysed.add(f.key)
                key = f.key
                n += 1
                found = []
                for c in calls_in(f.node):
                    nm = call_name(c) or ""
                    if nm == "self._only_one_row":
                        found.append((c, 0))
                    elif nm.rsplit(".", 1)[-1] == "greenlet_spawn" and c.args and dotted(c.args[0]) == "self._only_one_row":
                        found.append((c, 1))
                if not found:
                    # delegation to a sibling accessor of the same name family is accepted only if it is
                    # the same accessor on the wrapped result
                    ctx.error(f"{key}: single-row accessor does not call self._only_one_row (unknown idiom)")
                ctx.require(len(found) == 1, f"{key}: {len(found)} calls of _only_one_row")
                c, off = found[0]
                got = _triple_at(c, params, off)
                ctx.require(got is not None, f"{key}: flags of `{unparse(c)[:80]}` are not boolean literals")
                want = oracle[name]
                # the value must be what the accessor returns
                returned = False
                defs = once_bound(f.node)
                for r in walk_local(f.node):
                    if isinstance(r, ast.Return) and r.value is not None:
                        v = resolve_name(r.value, defs)     # `row = self._only_one_row(..); return row`
                        if isinstance(v, ast.Await):
                            v = resolve_name(v.value, defs)
                        if v is c:
                            returned = True
                diffs = [f"{k}={got[k]} (documented: {want[k]})" for k in FLAG_NAMES if got[k] != want[k]]
                if diffs:
                    ctx.violation(key, f"{cls.name}.{name}() calls _only_one_row with " + ", ".join(diffs), f.loc)
                elif not returned:
                    ctx.violation(key, f"{cls.name}.{name}() does not return the value of _only_one_row", f.loc)
                else:
                    ctx.ok(key, "(" + ", ".join(f"{k}={got[k]}" for k in FLAG_NAMES) + ")")
    ctx.require(n > 0, "no single-row accessor found")


def _final_helper(ctx):
    """selects the callees worth inlining: module functions and methods that no class of the package overrides (an
    overridable primitive such as _soft_close / _fetchone_impl is a call, not a helper: its base body is a stub)"""
    def want(callee):
        if callee.cls is None:
            return True
        for sub_ in ctx.index.subclasses(callee.cls):
            if callee.name in sub_.all_defs:
                return False
        return True
    return want


def _guards(g, node_id):
    return guard_atoms(g.edge_guards(node_id))


@R.rule("C10-R2", floor=7, template="T-PATH",
        desc="_only_one_row: NoResultFound only under raise_for_none (and no None return for a missing row when "
             "set); MultipleResultsFound only under raise_for_second_row; the result is closed before every "
             "normal return of a row and before raising for a second row; column 0 is projected only under scalar")
def r2(ctx):
    f0, params = _flag_params(ctx)
    errs = load_oracle("result_api_flags.json")["errors"]
    # helpers of the class / module called at statement level are inlined (one or two levels) and pure aliases
    # (`onerow = self._fetchone_impl`, `close = self._soft_close`) resolved: the path queries run on that normal form
    f = normal_form(ctx, f0, depth=2, want=_final_helper(ctx))
    g = ctx.cfg(f.node)
    base = f0.key

    def implied(nid, atom, value):
        return guards_imply(g.edge_guards(nid), atom, value)

    raises = {}
    for nid in g.find(lambda n: n.kind == "stmt" and isinstance(n.stmt, ast.Raise) and n.stmt.exc is not None):
        nm = (raised_name(g.node(nid).stmt) or "").rsplit(".", 1)[-1]
        raises.setdefault(nm, []).append(nid)
    # (a) documented errors under their flag only
    for flag in ("raise_for_none", "raise_for_second_row"):
        exc_name = errs[flag]
        nodes = raises.get(exc_name, [])
        ctx.require(nodes, f"_only_one_row never raises {exc_name}")
        bad = [g.node(n).describe() for n in nodes if not implied(n, flag, True)]
        ctx.check(not bad, f"{base}:{exc_name}-only-under-{flag}",
                  f"{exc_name} can be raised although {flag} is False: {bad}",
                  f"{len(nodes)} raise site(s), all dominated by `{flag}`", f.loc)
    # (b) a missing first row: None is returned only when raise_for_none is False
    fetch_binds = sorted(((n, st) for n, v, st in name_stores(f.node) if isinstance(v, ast.Call) and _is_fetch(v, f)),
                         key=lambda x: x[1].lineno)
    ctx.require(fetch_binds, "first row fetch not found")
    first_fetch = fetch_binds[0]
    row = first_fetch[0]
    tests = [n.id for n in g.nodes if n.kind == "test" and f"{row}isNone" in unparse(n.stmt.test).replace(" ", "").replace("isnot", "is")]
    ctx.require(tests, f"`if {row} is None` test not found")
    none_returns = [nid for nid in g.find(lambda n: n.kind == "stmt" and isinstance(n.stmt, ast.Return))
                    if implied(nid, f"{row} is None", True)]
    bad = [g.node(n).describe() for n in none_returns if not implied(n, "raise_for_none", False)]
    ctx.check(not bad, f"{base}:missing-row-returns-none-only-without-raise_for_none",
              f"with no row, _only_one_row can return instead of raising although raise_for_none is set: {bad}",
              f"{len(none_returns)} return(s) under `{row} is None`, dominated by `not raise_for_none`", f.loc)
    # (c) closing: after a first row was fetched, every normal exit passes a close or a further fetch
    # shape independent: from the first fetch on, every normal exit is either a no-row return (under `row is None`; the
    # hard-closing fetch closed the result) or passes a close / a further hard-closing fetch
    have_row = g.nodes_for(first_fetch[1])
    ctx.require(have_row, "first row fetch not in the CFG")
    closes = g.find_calls("_soft_close")
    fetch_nodes = [n.id for n in g.nodes if n.stmt is not None and n.kind in ("stmt", "test") and isinstance(n.stmt, ast.stmt)
                   and any(_is_fetch(c, f) for c in _own_calls(n)) and n.stmt is not first_fetch[1]]
    ctx.require(closes, "_only_one_row never calls _soft_close")
    w = g.must_pass(have_row, [g.exit], set(closes) | set(fetch_nodes) | set(none_returns))
    ctx.check(w is None, f"{base}:closed-before-returning-a-row",
              "a row can be returned while the result stays open (neither _soft_close() nor an exhausting second fetch on the path)",
              f"every normal exit passes _soft_close() ({len(closes)} sites) or a further hard-closing fetch ({len(fetch_nodes)} sites)",
              f.loc, w)
    # the fetches themselves ask for closing on exhaustion
    fetch_calls = [c for c in calls_in(f.node) if _is_fetch(c, f)]
    hard = [c for c in fetch_calls if any(k.arg == "hard_close" and isinstance(k.value, ast.Constant) and k.value.value is True for k in c.keywords)]
    ctx.check(len(hard) == len(fetch_calls) and fetch_calls, f"{base}:fetches-hard-close-on-exhaustion",
              f"{len(fetch_calls) - len(hard)} of {len(fetch_calls)} row fetches do not pass hard_close=True (an exhausted result would stay open)",
              f"{len(fetch_calls)} fetches with hard_close=True", f.loc)
    # (d) MultipleResultsFound is preceded by a close
    for nid in raises.get(errs["raise_for_second_row"], []):
        w = g.always_preceded(nid, closes)
        ctx.check(w is None, f"{base}:closed-before-MultipleResultsFound",
                  "MultipleResultsFound can be raised with the result still open", "dominated by _soft_close()", f.loc, w)
    # (e) scalar projection
    proj = [nid for nid in g.find(lambda n: n.kind == "stmt" and isinstance(n.stmt, ast.Return) and isinstance(n.stmt.value, ast.Subscript))]
    good = bool(proj)
    for nid in proj:
        r = g.node(nid).stmt
        idx = r.value.slice
        if not (isinstance(idx, ast.Constant) and idx.value == 0 and unparse(r.value.value) == row):
            good = False
        if not implied(nid, "scalar", True):
            good = False
    ctx.check(good, f"{base}:scalar-projects-column-0",
              f"`return {row}[0]` is missing, uses another index, or is not dominated by `scalar`",
              f"`return {row}[0]` only under `scalar`", f.loc)


def _own_calls(n):
    out = []
    for part in own_exprs(n.stmt):
        out.extend(calls_in(part))
    return out


def _is_fetch(c: ast.Call, f) -> bool:
    """A call of the one-row fetch primitive: `self._fetchone_impl(...)` or a local alias of it."""
    nm = call_name(c) or ""
    if nm.endswith("._fetchone_impl"):
        return True
    if isinstance(c.func, ast.Name):
        for n, v, st in name_stores(f.node):
            if n == c.func.id and v is not None and (dotted(v) or "").endswith("._fetchone_impl"):
                return True
    return False


FETCH_PRIMS = ("_fetchiter_impl", "_fetchone_impl", "_fetchall_impl", "_fetchmany_impl", "_soft_close")


@R.rule("C10-R3", floor=23, template="T-SIBLING",
        desc="filtered views share the parent result: every view constructor stores its result argument as "
             "_real_result and derives _metadata from it; FilterResult delegates each fetch primitive to "
             "_real_result; scalars/mappings/tuples/columns return self or a view over self/_real_result")
def r3(ctx):
    ix = ctx.index
    filt = ix.cls(f"{RES}::FilterResult")
    # (1) delegation of the fetch primitives
    for prim in FETCH_PRIMS:
        f = filt.methods.get(prim)
        key = f"{filt.key}.{prim}"
        if f is None:
            ctx.violation(key, f"FilterResult does not define {prim}: the view would not read from its parent", filt.loc)
            continue
        ctx.functions_analysed.add(f.key)
        f = normal_form(ctx, f, depth=0)     # pure aliases (`real = self._real_result`) resolved
        cs = [c for c in calls_in(f.node) if call_name(c) == f"self._real_result.{prim}"]
        other = [call_name(c) for c in calls_in(f.node) if (call_name(c) or "").startswith("self._real_result.") and call_name(c) != f"self._real_result.{prim}"]
        good = len(cs) == 1 and not other
        if good:
            # every parameter is passed through
            c = cs[0]
            passed = {unparse(a) for a in c.args} | {unparse(k.value) for k in c.keywords}
            good = all(p in passed for p in f.params if p != "self")
        ctx.check(good, key, f"FilterResult.{prim} does not delegate to self._real_result.{prim} with its own arguments "
                             f"(calls: {[call_name(c) for c in calls_in(f.node)]})",
                  f"-> self._real_result.{prim}(...)", f.loc)
    # (2) constructors of the views
    views = []
    for rel in (RES, ARES):
        m = ix.module(rel)
        for cls in sorted(ix._all_classes(m), key=lambda c: c.node.lineno):
            if cls is filt or filt not in ix.mro(cls):
                continue
            init = cls.methods.get("__init__")
            if init is None or init.type_only:
                continue
            views.append(cls)
            ctx.functions_analysed.add(init.key)
            ps = [p for p in init.params if p != "self"]
            ctx.require(ps, f"{cls.key}.__init__ takes no result argument")
            rp = ps[0]
            init = normal_form(ctx, init, depth=0)     # `metadata = result._metadata; self._metadata = metadata`
            stores = [(n.targets, n.value) for n in walk_local(init.node) if isinstance(n, ast.Assign)]
            rr = [v for tg, v in stores for t in tg if dotted(t) == "self._real_result"]
            md = [v for tg, v in stores for t in tg if dotted(t) == "self._metadata"]
            shares = bool(rr) and all(isinstance(v, ast.Name) and v.id == rp for v in rr)
            # metadata: <rp>._metadata, self._metadata (already shared) optionally followed by ._reduce(...)
            def md_ok(v):
                d = dotted(v) or ""
                d = d.replace("._reduce()", "")
                return d in (f"{rp}._metadata", "self._metadata")
            meta = bool(md) and all(md_ok(v) for v in md)
            copies = [call_name(c) for c in calls_in(init.node)
                      if (call_name(c) or "").rsplit(".", 1)[-1] in ("fetchall", "all", "_allrows", "_fetchall_impl", "list", "freeze", "copy", "deepcopy")]
            ctx.check(shares and meta and not copies, f"{cls.key}.__init__",
                      f"view constructor does not share its parent: _real_result <- {[unparse(v) for v in rr]}, "
                      f"_metadata <- {[unparse(v) for v in md]}, copying calls {copies}",
                      f"_real_result = {rp}; _metadata from {rp}._metadata", init.loc)
    ctx.require(len(views) >= 2, "FilterResult views not found")
    view_names = {c.name for c in views}
    # (3) the factories
    for rel in (RES, ARES):
        m = ix.module(rel)
        for cls in sorted(ix._all_classes(m), key=lambda c: c.node.lineno):
            if ix.resolve_method(cls, "_only_one_row") is None:
                continue
            for name in ("scalars", "mappings", "tuples", "columns", "t", "_column_slices"):
                f = cls.methods.get(name)
                if f is None or f.type_only:
                    continue
                rets = [r for r in walk_local(f.node) if isinstance(r, ast.Return) and r.value is not None]
                if not rets:
                    continue
                ctx.functions_analysed.add(f.key)
                good = True
                how = []
                defs = once_bound(f.node)
                for r in rets:
                    v = resolve_name(r.value, defs)     # `view = MappingResult(self); return view`
                    if isinstance(v, ast.Name) and v.id == "self":
                        how.append("self")
                    elif isinstance(v, ast.Call) and call_name(v) == "self._column_slices":
                        how.append("self._column_slices()")
                    elif isinstance(v, ast.Call) and (call_name(v) or "") in view_names and v.args \
                            and unparse(v.args[0]) in ("self", "self._real_result"):
                        how.append(f"{call_name(v)}({unparse(v.args[0])}, ..)")
                    else:
                        good = False
                        how.append(unparse(v)[:60])
                if name == "_column_slices":
                    # in-place narrowing of the shared metadata only
                    st = [(dotted(t), unparse(n.value)) for n in walk_local(f.node) if isinstance(n, ast.Assign) for t in n.targets]
                    good = good and all(t == "self._metadata" and val.startswith("self._metadata._reduce(") for t, val in st if t and t.startswith("self."))
                ctx.check(good, f.key, f"{cls.name}.{name}() returns {how}: not this result nor a view over it",
                          " / ".join(how), f.loc)


# ---------------------------------------------------------------------------------------- R4
# The row getters are memoized closures: whatever they read from the result when first used is frozen
# until the memoizations are dropped.  `@_generative` on an InPlaceGenerative drops them
# (InPlaceGenerative._generate pops every memoized key), `_reset_memoizations()` does too.
MEMO_MARKERS = ("memoized_attribute", "memoized_property", "memoized_instancemethod")
RESETTERS = ("self._reset_memoizations", "self._generate")
BASE_INTERNAL = f"{CY}::BaseResultInternal"


def _is_memoized(f) -> bool:
    """Memoized through HasMemoized, i.e. registered in _memoized_keys and dropped by _reset_memoizations() /
    InPlaceGenerative._generate() (a plain util.memoized_property is compute-once by design)."""
    return any("HasMemoized" in d and any(d.endswith(m) for m in MEMO_MARKERS) for d in f.decorators)


def _result_family(ctx):
    base = ctx.index.cls(BASE_INTERNAL)
    return [base] + sorted(ctx.index.subclasses(base), key=lambda c: c.key)


def _captured_state(ctx, family):
    """(attributes read from `self`, attributes read from the real result) while a memoized getter is built,
    i.e. in the getter's own body, not in the closures it returns (those run at call time)."""
    getters = []
    for c in family:
        for f in c.methods.values():
            if _is_memoized(f) and not f.type_only:
                getters.append(f)
    ctx.require(len(getters) >= 4, f"memoized row getters not found ({[g.qualname for g in getters]})")
    getter_names = {g.name for g in getters}
    cap_self, cap_real = {}, {}
    for gt in getters:
        ctx.functions_analysed.add(gt.key)
        real_locals = {n for n, v, st in name_stores(gt.node) if v is not None
                       and any(dotted(x) == "self._real_result" for x in ast.walk(v))}
        for n in walk_local(gt.node):
            if isinstance(n, ast.Attribute) and isinstance(n.ctx, ast.Load) and isinstance(n.value, ast.Name):
                if n.value.id == "self":
                    cap_self.setdefault(n.attr, gt.qualname)
                elif n.value.id in real_locals:
                    cap_real.setdefault(n.attr, gt.qualname)
    def is_method(name):
        return any(name in c.all_defs for c in family)
    for d in (cap_self, cap_real):
        for k in list(d):
            if k in getter_names or is_method(k) or (k.startswith("__") and k.endswith("__")):
                del d[k]
    return getters, cap_self, cap_real


def _constructor_only(family, modules):
    """Names of methods that are only ever called (as self.m()/x.m()) from __init__ or from such methods."""
    callers = {}
    for c in family:
        for f in c.methods.values():
            for call in calls_in(f.node):
                if isinstance(call.func, ast.Attribute):
                    callers.setdefault(call.func.attr, set()).add(f.name)
    only = {"__init__"}
    changed = True
    while changed:
        changed = False
        for name, who in callers.items():
            if name not in only and who and who <= only:
                only.add(name)
                changed = True
    return only


@R.rule("C10-R4", floor=13, template="T-FRESH",
        desc="every method of the Result family that re-assigns state captured by the memoized row getters "
             "(_unique_filter_state, _yield_per, _metadata, _post_creational_filter, _real_result, ... -- the set is "
             "derived from the getters' bodies), directly or by delegating to such a method of its real result, "
             "drops the memoizations (@_generative / _reset_memoizations()) or leaves the result closed")
def r4(ctx):
    ix = ctx.index
    family = _result_family(ctx)
    getters, cap_self, cap_real = _captured_state(ctx, family)
    ctx.require({"_unique_filter_state", "_post_creational_filter"} <= set(cap_self) and "_yield_per" in cap_real,
                f"captured state not understood: self {sorted(cap_self)}, real result {sorted(cap_real)}")
    captured = dict(cap_real)
    captured.update(cap_self)
    ctor_only = _constructor_only(family, None)
    filt = ix.cls(f"{RES}::FilterResult")

    def resets(f):
        if any(d.rsplit(".", 1)[-1] == "_generative" for d in f.decorators):
            return "@_generative"
        for c in calls_in(f.node):
            if call_name(c) in RESETTERS:
                return f"{call_name(c)}()"
        return None

    def closes_after(f, stmts):
        """every normal exit after one of `stmts` passes a _soft_close() or a hard-closing fetch"""
        g = ctx.cfg(f)
        through = set(g.find_calls("_soft_close"))
        # `close = self._soft_close; ...; close(hard=True)`
        al = {n for n, v in once_bound(f.node).items() if (dotted(v) or "").endswith("._soft_close")}
        through |= {n.id for n in g.nodes if n.stmt is not None and n.kind in ("stmt", "test") and isinstance(n.stmt, ast.stmt)
                    and any(isinstance(c.func, ast.Name) and c.func.id in al for c in _own_calls(n))}
        through |= {n.id for n in g.nodes if n.stmt is not None and n.kind in ("stmt", "test") and isinstance(n.stmt, ast.stmt)
                    and any(_is_fetch(c, f) and any(k.arg == "hard_close" for k in c.keywords) for c in _own_calls(n))
                    and n.stmt not in stmts}
        starts = [i for st in stmts for i in g.nodes_for(st)]
        if not through or not starts:
            return False
        return g.must_pass(starts, [g.exit], through, edge_ok=None) is None

    # pass 1: direct mutators
    direct = {}     # FuncInfo.key -> (f, cls, {attr: [stmts]})
    for c in family:
        for f in c.methods.values():
            if f.type_only or f.name in ctor_only or _is_memoized(f):
                continue
            hit = {}
            for n in ast.walk(f.node):
                if isinstance(n, (ast.Assign, ast.AugAssign, ast.AnnAssign)):
                    tg = n.targets if isinstance(n, ast.Assign) else [n.target]
                    for t in tg:
                        for t1 in (t.elts if isinstance(t, ast.Tuple) else [t]):
                            if isinstance(t1, ast.Attribute) and isinstance(t1.value, ast.Name) and t1.value.id == "self" \
                                    and t1.attr in captured:
                                hit.setdefault(t1.attr, []).append(n)
            if hit:
                direct[f.key] = (f, c, hit)
    real_mutators = {f.name for f, c, hit in direct.values() if filt not in ix.mro(c) and set(hit) & set(cap_real)}
    # pass 2: delegating mutators (a view forwarding to its real result)
    n_inst = 0
    seen = set()
    for c in family:
        for f in c.methods.values():
            if f.type_only or f.name in ctor_only or _is_memoized(f):
                continue
            attrs = dict(direct.get(f.key, (None, None, {}))[2])
            for call in calls_in(f.node):
                nm = call_name(call) or ""
                if nm.startswith("self._real_result.") and nm.rsplit(".", 1)[-1] in real_mutators:
                    via = nm.rsplit(".", 1)[-1]
                    attrs.setdefault(f"real-result.{via}()", []).append(
                        next(st for st in ast.walk(f.node) if isinstance(st, ast.stmt) and any(x is call for x in ast.walk(st))
                             and not isinstance(st, (ast.FunctionDef, ast.AsyncFunctionDef))))
            if not attrs or f.key in seen:
                continue
            seen.add(f.key)
            ctx.functions_analysed.add(f.key)
            how = resets(f)
            n_inst += 1
            key = f"{f.key}:captured-state-change-drops-memoized-getters"
            names = sorted(attrs)
            all_stmts = [st for lst in attrs.values() for st in lst]
            if how:
                ctx.ok(key, f"{', '.join(names)}: {how}")
            elif closes_after(f, all_stmts):
                ctx.ok(key, f"{', '.join(names)}: the result is closed (or exhausted by a hard-closing fetch) on every "
                            f"normal exit after the store")
            else:
                parts = []
                for attr in names:
                    parts.append(f"re-assigns self.{attr}, which {captured[attr]} captured when it was memoized" if attr in captured
                                 else f"changes the real result through {attr[len('real-result.'):]}, whose state "
                                      f"({', '.join(sorted(cap_real))}) the memoized getters captured")
                ctx.violation(key, f"{c.name}.{f.name}() {'; '.join(parts)} -- but it neither is @_generative nor calls "
                                   f"_reset_memoizations(): once a row was fetched through this object the old getter keeps "
                                   f"the old value and the call is ignored by next()/fetchmany()/partitions()", f.loc)
    ctx.require(n_inst > 0, "no mutator of captured state found")


# ---------------------------------------------------------------------------------------- R5
# fetchmany(n) / partitions(n) deliver at most n rows.  Without uniquing the fetch primitive is asked for n.
# With uniquing, duplicates shrink a batch, so the getter tops up in a loop; nothing trims the collected list,
# hence every top-up may only ask for the rows still missing (n - len(collected)).
MANY = f"{CY}::BaseResultInternal._manyrow_getter"


def _ancestors(pm, node):
    cur = pm.get(node)
    while cur is not None:
        yield cur
        cur = pm.get(cur)


def _fetchmany_calls(fn):
    """Calls of the many-row fetch primitive in `fn`: self._fetchmany_impl(..) or a local alias of it."""
    alias = {n for n, v, st in name_stores(fn) if v is not None and (dotted(v) or "").endswith("._fetchmany_impl")}
    return [c for c in calls_in(fn) if (call_name(c) or "").endswith("._fetchmany_impl")
            or (isinstance(c.func, ast.Name) and c.func.id in alias)]


@R.rule("C10-R5", floor=5, template="T-FLOW (loop bound)",
        desc="_manyrow_getter: the plain getter asks the fetch primitive for the requested size; the uniquing getter's "
             "top-up loop asks for exactly the shortfall it loops on, recomputes the shortfall as size - len(collected) "
             "after every batch, stops on an empty batch, and an unknown size is defined by the first batch")
def r5(ctx):
    f = ctx.func(MANY)
    pm = f.module.parents()
    inner = [n for n in ast.walk(f.node) if isinstance(n, ast.FunctionDef) and n is not f.node and _fetchmany_calls(n)]
    ctx.require(len(inner) == 2, f"{f.key}: expected a uniquing and a plain many-row closure, found {len(inner)}")
    arms = {}
    for fn in inner:
        uniq = any("_unique_filter_state" in a and pol for a, pol in guard_atoms(lexical_guards(pm, fn, stop=f.node)))
        arms["unique" if uniq else "plain"] = fn
    ctx.require(set(arms) == {"unique", "plain"}, f"{f.key}: closures are not selected by self._unique_filter_state")

    def size_param(fn):
        ps = [a.arg for a in fn.args.posonlyargs + fn.args.args if a.arg != "self"]
        ctx.require(len(ps) == 1, f"{f.key}: closure {fn.name} takes {ps}")
        return ps[0]

    # plain
    fn = arms["plain"]
    num = size_param(fn)
    calls = _fetchmany_calls(fn)
    ok = all(len(c.args) == 1 and isinstance(c.args[0], ast.Name) and c.args[0].id == num and not c.keywords for c in calls)
    ctx.check(ok, f"{f.key}:plain:fetch-size-is-requested-size",
              f"the plain getter calls {[unparse(c) for c in calls]}: not the requested size `{num}`",
              f"{unparse(calls[0])}", f"{f.module.path}:{calls[0].lineno}")
    # unique
    fn = arms["unique"]
    num = size_param(fn)
    calls = _fetchmany_calls(fn)
    loops = [n for n in ast.walk(fn) if isinstance(n, ast.While) and any(c in calls_in(n) for c in calls)]
    ctx.require(len(loops) == 1, f"{f.key}: expected one top-up loop in the uniquing getter, found {len(loops)}")
    loop = loops[0]
    t = loop.test
    if isinstance(t, ast.Compare) and len(t.ops) == 1 and isinstance(t.ops[0], (ast.Gt, ast.NotEq)) \
            and isinstance(t.comparators[0], ast.Constant) and t.comparators[0].value == 0:
        t = t.left
    ctx.require(isinstance(t, ast.Name), f"{f.key}: top-up loop test `{unparse(loop.test)}` is not a shortfall variable")
    short = t.id
    in_loop = [c for c in calls if c in calls_in(loop)]
    out_loop = [c for c in calls if c not in in_loop]

    def bounded(a):
        if isinstance(a, ast.Name) and a.id == short:
            return True
        return isinstance(a, ast.Call) and isinstance(a.func, ast.Name) and a.func.id == "min" \
            and any(isinstance(x, ast.Name) and x.id == short for x in a.args)
    bad = [unparse(c) for c in in_loop if not (len(c.args) == 1 and not c.keywords and bounded(c.args[0]))]
    ctx.check(not bad, f"{f.key}:unique:top-up-fetch-bounded-by-shortfall",
              f"inside `while {short}:` the fetch is {bad}: it can return more new unique rows than the {short} still "
              f"missing, and nothing trims the collected list -- fetchmany(n)/partitions(n) then deliver more than n rows",
              f"{[unparse(c) for c in in_loop]}", f"{f.module.path}:{loop.lineno}")
    # collected list: second argument of the uniquing helper inside the loop
    coll = {unparse(c.args[1]) for c in calls_in(loop) if (call_name(c) or "").endswith("_apply_unique_strategy") and len(c.args) >= 2}
    ctx.require(len(coll) == 1, f"{f.key}: collected list of the top-up loop not identified ({sorted(coll)})")
    coll = next(iter(coll))

    def is_shortfall_expr(v):
        return isinstance(v, ast.BinOp) and isinstance(v.op, ast.Sub) and isinstance(v.left, ast.Name) and v.left.id == num \
            and unparse(v.right) == f"len({coll})"
    # anywhere in the loop (also inside `if rows: .. else: break`); "after the uniquing step" is a path property:
    # every path from a uniquing call back to the loop test passes a recomputation
    body_assigns = [(i, st) for i, st in enumerate(x for x in ast.walk(loop) if isinstance(x, ast.stmt)) if isinstance(st, ast.Assign)
                    and any(isinstance(x, ast.Name) and x.id == short for x in st.targets)]
    gl = ctx.cfg(fn)
    collect_nodes = [n.id for n in gl.nodes if n.stmt is not None and n.kind in ("stmt", "test") and isinstance(n.stmt, ast.stmt)
                     and any(n.stmt is x for x in ast.walk(loop))
                     and any((call_name(c) or "").endswith("_apply_unique_strategy") for c in _own_calls(n))]
    assign_nodes = [i for _, st in body_assigns for i in gl.nodes_for(st)]
    from ..cfg import no_exc
    good = bool(body_assigns) and bool(collect_nodes) and all(is_shortfall_expr(st.value) for _, st in body_assigns) \
        and gl.must_pass(collect_nodes, gl.nodes_for(loop), assign_nodes, edge_ok=no_exc) is None
    others = [st for st in ast.walk(fn) if isinstance(st, ast.Assign) and st not in [b for _, b in body_assigns]
              and any(isinstance(x, ast.Name) and x.id == short for x in st.targets)]
    def initial_ok(st):
        v = st.value
        tnames = {x.id for x in st.targets if isinstance(x, ast.Name)}
        return (isinstance(v, ast.Name) and v.id == num) or (num in tnames) or is_shortfall_expr(v)
    bad_init = [unparse(st) for st in others if not initial_ok(st)]
    ctx.check(good and not bad_init, f"{f.key}:unique:shortfall-recomputed-from-collected",
              f"`{short}` is not kept equal to `{num} - len({coll})`: loop assignments "
              f"{[unparse(st) for _, st in body_assigns]} (must follow the uniquing step), other assignments {bad_init}",
              f"{short} = {num} - len({coll}) after each batch", f"{f.module.path}:{loop.lineno}")
    # stops on an empty batch
    rows_vars = {n for n, v, st in name_stores(fn) if v is not None and any(v is c for c in in_loop)}
    stop = False
    empty_forms = {(rv, False) for rv in rows_vars} | {(f"len({rv}) == 0", True) for rv in rows_vars} \
        | {(f"len({rv})", False) for rv in rows_vars} | {(f"len({rv}) > 0", False) for rv in rows_vars}
    for br in [x for x in ast.walk(loop) if isinstance(x, ast.Break)]:
        inner = next((a for a in _ancestors(pm, br) if isinstance(a, (ast.While, ast.For))), None)
        if inner is not loop:
            continue
        # `if not rows: break`, `if rows: .. else: break`, `if len(rows) == 0: break`
        if set(guard_atoms(lexical_guards(pm, br, stop=loop))) & empty_forms:
            stop = True
    ctx.check(stop, f"{f.key}:unique:stops-on-empty-batch",
              "the top-up loop does not break when the fetch returns no rows (an exhausted result would loop forever or "
              "report rows twice)", "if not rows: break", f"{f.module.path}:{loop.lineno}")
    # unknown size
    ok = True
    for c in out_loop:
        if c.args or c.keywords:
            ok = ok and len(c.args) == 1 and isinstance(c.args[0], ast.Name) and c.args[0].id in (num, short)
            continue
        rv = [n for n, v, st in name_stores(fn) if v is c]
        ok = ok and bool(rv) and any(isinstance(st, ast.Assign) and any(isinstance(x, ast.Name) and x.id == num for x in st.targets)
                                     and unparse(st.value) == f"len({rv[0]})" for st in ast.walk(fn))
    ctx.check(ok and bool(out_loop), f"{f.key}:unique:default-size-is-first-batch",
              f"a size-less fetch outside the loop is not what defines `{num}` (`{num} = len(<batch>)`)",
              f"{num} = len(first batch)", f.loc)


# ---------------------------------------------------------------------------------------- R6
# A generator method is suspended at every `yield` while other calls on the same result run.  A delegate object
# that other code RE-ASSIGNS during the life of a result (`cursor_strategy`: yield_per(), soft close, _rewind)
# must be read again after each resumption, as the non-generator fetch primitives do on every call.
FAMILY_MODULES = (CY, "engine/cursor.py", RES, ARES)


def _reassigned_attrs(ctx, ctor_only):
    """{attribute name: 'where'} for attributes assigned on some object outside constructors in the result modules."""
    out = {}
    for rel in FAMILY_MODULES:
        m = ctx.index.module(rel)
        for fn in ctx.index.all_functions(m):
            if fn.name in ctor_only or fn.type_only:
                continue
            for n in walk_local(fn.node):
                if isinstance(n, ast.Assign):
                    for t in n.targets:
                        # an existing object: self or an object handed in (a local such as a fresh clone is not)
                        if isinstance(t, ast.Attribute) and isinstance(t.value, ast.Name) and t.value.id in fn.params:
                            out.setdefault(t.attr, []).append(fn.qualname)
    return {k: ", ".join(sorted(set(v))[:4]) for k, v in out.items()}


def _own_yields(fn):
    return [n for n in walk_local(fn) if isinstance(n, (ast.Yield, ast.YieldFrom))]


@R.rule("C10-R6", floor=9, template="T-FRESH",
        desc="no generator of the Result family (row iterators, partitions, the iterrows closures) keeps, across a "
             "`yield`, a local bound from an attribute of self that other methods re-assign (e.g. "
             "self.cursor_strategy, swapped by yield_per()/soft close): the delegate is re-read inside the loop")
def r6(ctx):
    family = _result_family(ctx)
    ctor_only = _constructor_only(family, None)
    swappable = _reassigned_attrs(ctx, ctor_only)
    ctx.require("cursor_strategy" in swappable, "cursor_strategy is no longer re-assigned: re-derive C10-R6")
    gens = []
    for c in family:
        for f in c.methods.values():
            if f.type_only:
                continue
            if _own_yields(f.node):
                gens.append((f.key, f, f.node))
            if _is_memoized(f):
                for n in ast.walk(f.node):
                    if isinstance(n, ast.FunctionDef) and n is not f.node and _own_yields(n):
                        arm = "unique" if any("_unique_filter_state" in a and pol for a, pol in
                                              guard_atoms(lexical_guards(f.module.parents(), n, stop=f.node))) else "plain"
                        gens.append((f"{f.key}.{n.name}[{arm}]", f, n))
    for key, f, node in gens:
        ctx.functions_analysed.add(f.key)
        loops = [n for n in walk_local(node) if isinstance(n, (ast.While, ast.For, ast.AsyncFor))
                 and any(isinstance(x, (ast.Yield, ast.YieldFrom)) for x in ast.walk(n))]
        stale = []
        # locals derived from a swappable attribute of self, directly (`fetchone = self.cursor_strategy.fetchone`) or
        # through other such locals (`strategy = self.cursor_strategy; fetchone = strategy.fetchone`): {id(store): ..}
        stores = [(name, v, st) for name, v, st in name_stores(node) if v is not None]
        derived = {}
        for name, v, st in stores:
            reads = [x.attr for x in ast.walk(v) if isinstance(x, ast.Attribute) and isinstance(x.value, ast.Name)
                     and x.value.id == "self" and x.attr in swappable and not _is_getter_name(ctx, family, x.attr)]
            if reads:
                derived[id(st)] = (name, st, reads[0], "")
        grew = True
        while grew:
            grew = False
            for name, v, st in stores:
                if id(st) in derived:
                    continue
                loads = {x.id for x in ast.walk(v) if isinstance(x, ast.Name) and isinstance(x.ctx, ast.Load)}
                src = next((d for d in derived.values() if d[0] in loads and d[1] is not st), None)
                if src is not None:
                    derived[id(st)] = (name, st, src[2], f" (from `{unparse(src[1])}`)")
                    grew = True
        for name, st, attr, via in derived.values():
            for lp in loops:
                inside = any(s is st for s in ast.walk(lp))
                used = any(isinstance(x, ast.Name) and x.id == name and isinstance(x.ctx, ast.Load) for x in ast.walk(lp))
                if used and not inside:
                    stale.append(f"`{unparse(st)}`{via} is bound once but used after every `yield` of the loop at line "
                                 f"{lp.lineno}, while self.{attr} is re-assigned by {swappable[attr]}")
        ctx.check(not stale, f"{key}:no-stale-delegate-across-yield",
                  "; ".join(stale) + ": an iterator created before that call keeps using the old object (rows out of "
                                     "order / lost when mixed with fetchone()/fetchmany() on the same result)",
                  "no swappable attribute of self is cached across a yield", f"{f.module.path}:{node.lineno}")


def _is_getter_name(ctx, family, name):
    return any(name in c.methods and _is_memoized(c.methods[name]) for c in family)


# ---------------------------------------------------------------------------------------- R7
# unique(): ONE set of already-delivered hashes (`_unique_filter_state[0]`) is shared by every access path of a result
# (iteration, fetchone/next, fetchmany/partitions, all).  The paths agree on duplicates only if every one of them tests /
# stores the SAME kind of object: the row as made by the row getter (passed through the uniquing strategy), never the
# value the post-creational filter (scalar / mapping projection) makes of it -- hash((1,)) != hash(1), Row != RowMapping.
# Decided as a data-flow property on reaching definitions (names, statement shapes, helper extraction do not matter):
# which atoms the value handed to `<uniques>.add(..)` / `.. in <uniques>` is computed from.
UNIQ_ATTRS = ("_unique_strategy", "_unique_filter_state")
POST_ATTR = "_post_creational_filter"
ROW_ATTR = "_row_getter"
_SET_STORES = ("add", "update", "discard", "remove", "__contains__")


class _UniqScan:
    """Sinks of the shared uniques set in one function (a getter, one of its closures, a followed helper)."""

    def __init__(self, ctx, scope, freemap, uniq_params=()):
        self.ctx, self.sc, self.free, self.uniq_params = ctx, scope, freemap, set(uniq_params)
        self.pm = None

    # -- is this expression the shared set?
    def _is_state(self, e, at) -> bool:
        """`self._unique_strategy` / `self._unique_filter_state` (the (set, strategy) pair)"""
        d = self.sc.deps(e, at)
        return bool(d) and d <= {"self." + a for a in UNIQ_ATTRS} and isinstance(e, (ast.Attribute, ast.Name))

    def is_uniques(self, e, at) -> bool:
        if isinstance(e, ast.Subscript):
            return isinstance(e.slice, ast.Constant) and e.slice.value == 0 and self._is_state(e.value, at)
        if not isinstance(e, ast.Name):
            return False
        if not self.sc.rd.at(at, e.id):
            return self.free.get(e.id, (None, None))[0] == "uniques"
        orig = self.sc.origins(e, at)
        if not orig:
            return False
        for kind, d, dn in orig:
            if kind == "def":
                if d.kind == "param":
                    if d.name not in self.uniq_params:
                        return False
                elif d.kind == "assign" and d.path == (0,) and self._is_state(d.value, d.node):
                    pass
                else:
                    return False
            else:
                if isinstance(d, ast.Name) and not self.sc.rd.at(dn, d.id):
                    if self.free.get(d.id, (None, None))[0] != "uniques":
                        return False
                elif not (isinstance(d, ast.Subscript) and self.is_uniques(d, dn)):
                    return False
        return True

    # -- atoms of a value, closure variables replaced by what the enclosing getter bound them to
    def atoms(self, e, at, cenv=None):
        out = set()
        for a in self.sc.deps(e, at, False, cenv):
            kind, _, name = a.partition(":")
            if kind in ("global", "call") and name in self.free:
                role, outer_atoms = self.free[name]
                out |= {(f"call:{x}" if kind == "call" else x) for x in outer_atoms}
            else:
                out.add(a)
        return out

    def _cenv(self, node, at):
        """comprehension variables in scope at `node`"""
        if self.pm is None:
            self.pm = {}
            for p in ast.walk(self.sc.fn):
                for ch in ast.iter_child_nodes(p):
                    self.pm[ch] = p
        comps = []
        cur = self.pm.get(node)
        while cur is not None and cur is not self.sc.fn:
            if isinstance(cur, (ast.ListComp, ast.SetComp, ast.GeneratorExp, ast.DictComp)):
                comps.append(cur)
            cur = self.pm.get(cur)
        env = None
        for c in reversed(comps):
            env = self.sc.comp_env(c, at, False, env)
        return env

    def sinks(self, depth=0):
        """[(text of the sink, atoms of the value that is hashed into / looked up in the set, lineno)]"""
        out = []
        sc = self.sc
        for n in sc.local_walk():
            at = sc.node_of(n)
            if at is None or not sc.rd.reachable(at):
                continue
            if isinstance(n, ast.Compare):
                left = n.left
                for op, right in zip(n.ops, n.comparators):
                    if isinstance(op, (ast.In, ast.NotIn)) and self.is_uniques(right, at):
                        out.append((unparse(n), self.atoms(left, at, self._cenv(n, at)), n.lineno))
                    left = right
            elif isinstance(n, ast.Call):
                if isinstance(n.func, ast.Attribute) and n.func.attr in _SET_STORES and self.is_uniques(n.func.value, at):
                    cenv = self._cenv(n, at)
                    for a in n.args:
                        out.append((unparse(n), self.atoms(a, at, cenv), n.lineno))
                    continue
                passed = [i for i, a in enumerate(n.args) if self.is_uniques(a, at)]
                passed_kw = [k.arg for k in n.keywords if k.arg and self.is_uniques(k.value, at)]
                if not passed and not passed_kw:
                    continue
                sub_ = sc.sub_scope(n, at) if depth < 2 else None
                self.ctx.require(sub_ is not None, f"{sc.name}: the shared uniques set is handed to `{unparse(n.func)}(..)`, "
                                                   f"which cannot be followed")
                ps = list(sub_.params)
                if sub_.selfname is not None and isinstance(n.func, ast.Attribute):
                    ps = ps[1:]
                names = {ps[i] for i in passed if i < len(ps)} | set(passed_kw)
                inner = _UniqScan(self.ctx, sub_, {}, names)
                for text, atoms, ln in inner.sinks(depth + 1):
                    # the helper's atoms are the caller's atoms of the arguments: translate closure variables here
                    tr = set()
                    for a in atoms:
                        kind, _, name = a.partition(":")
                        if kind in ("global", "call") and name in self.free:
                            tr |= {(f"call:{x}" if kind == "call" else x) for x in self.free[name][1]}
                        else:
                            tr.add(a)
                    out.append((f"{unparse(n.func)}(..): {text}", tr, n.lineno))
        return out


def _free_roles(outer, closure, at):
    """{free variable of `closure`: (role, atoms in the enclosing getter at the closure's definition)}"""
    bound = set(outer.params)
    out = {}
    names = {x.id for x in ast.walk(closure) if isinstance(x, ast.Name)}
    for nm in names:
        ds = outer.rd.at(at, nm)
        if not ds:
            continue
        atoms = frozenset()
        role = None
        for d in ds:
            atoms = atoms | outer._def_deps(d, False)
        state = {"self." + a for a in UNIQ_ATTRS}
        if atoms and atoms <= state:
            role = "uniques" if all(d.kind == "assign" and d.path == (0,) for d in ds) else "strategy"
        out[nm] = (role, atoms)
    return out


@R.rule("C10-R7", floor=4, template="T-SIBLING/T-FLOW",
        desc="every access path that de-duplicates (the iterrows / onerow / manyrows closures of the memoized getters, "
             "_allrows, through _apply_unique_strategy or inline) tests and stores in the SHARED uniques set the row as made "
             "by the row getter -- a value computed from self._row_getter and never through self._post_creational_filter; "
             "the post-creational filter is applied to rows that already passed the uniqueness test")
def r7(ctx):
    from ._helpers_rob_c2 import Scope
    family = _result_family(ctx)
    post = "self." + POST_ATTR
    make = "self." + ROW_ATTR
    found = []      # (key, FuncInfo, node, sinks)
    for c in family:
        for f in c.methods.values():
            if f.type_only:
                continue
            if not any(isinstance(x, ast.Attribute) and x.attr in UNIQ_ATTRS for x in ast.walk(f.node)):
                continue
            outer = Scope(ctx, f)
            own = _UniqScan(ctx, outer, {}).sinks()
            if own:
                found.append((f.key, f, f.node, own))
            for n in ast.walk(f.node):
                if not isinstance(n, (ast.FunctionDef, ast.AsyncFunctionDef)) or n is f.node:
                    continue
                at = next(iter(outer.g.nodes_for(n)), None)
                if at is None:
                    continue
                ps = [a.arg for a in n.args.posonlyargs + n.args.args]
                inner = Scope(ctx, n, module=f.module, cls=f.cls if ps and f.params and ps[0] == f.params[0] else None)
                sk = _UniqScan(ctx, inner, _free_roles(outer, n, at)).sinks()
                if sk:
                    found.append((f"{f.key}.{n.name}[unique]", f, n, sk))
    from ._helpers_rules_b import ordinal_keys
    ctx.require(found, "no function tests or fills the shared uniques set: re-derive C10-R7")
    names = [k.rsplit("::", 1)[-1] for k, *_ in found]
    for key, (k0, f, node, sinks) in ordinal_keys(found, lambda t: t[0]):
        ctx.functions_analysed.add(f.key)
        late = [(t, ln) for t, atoms, ln in sinks if any(a == post or a == "call:" + post for a in atoms)]
        raw = [(t, ln, atoms) for t, atoms, ln in sinks if not any(a == make or a == "call:" + make for a in atoms)]
        others = [n for n in names if n != k0.rsplit("::", 1)[-1]]
        loc = f"{f.module.path}:{node.lineno}"
        if late:
            ctx.violation(f"{key}:hashes-the-made-row",
                          "; ".join(f"`{t}` (line {ln})" for t, ln in late[:3]) + ": the value tested against / stored in the "
                          f"shared uniques set has passed through self.{POST_ATTR} (scalar / mapping projection), while the other "
                          f"access paths ({', '.join(others)}) hash the row as made by the row getter -- a row delivered by one "
                          "access method is then not recognised as a duplicate by the others (unique() delivers rows twice "
                          "when iteration is mixed with next()/fetchmany()/all())", loc)
        elif raw:
            unknown = sorted({a for _, _, atoms in raw for a in atoms if a.startswith("call:") and "_fetch" not in a
                              and a not in ("call:<local>",) and not any(a.endswith(u) for u in UNIQ_ATTRS)})
            ctx.require(not unknown, f"{key}: cannot tell whether `{raw[0][0]}` hashes a made row (computed through {unknown})")
            ctx.violation(f"{key}:hashes-the-made-row",
                          "; ".join(f"`{t}` (line {ln})" for t, ln, _ in raw[:3]) + ": the value tested against / stored in the "
                          f"shared uniques set is not computed from self.{ROW_ATTR} (it is the raw fetched row), while the other "
                          f"access paths ({', '.join(others)}) hash the made row", loc)
        else:
            ctx.ok(f"{key}:hashes-the-made-row", f"{len(sinks)} test/store site(s) of the uniques set, all on the made row "
                                                 f"before the post-creational filter")


# ---------------------------------------------------------------------- self-test battery
R.mutant("result-first-raises-for-second", RES,
         sub("        return self._only_one_row(\n            raise_for_second_row=False, raise_for_none=False, scalar=False\n        )",
             "        return self._only_one_row(\n            raise_for_second_row=True, raise_for_none=False, scalar=False\n        )", count=3), "C10-R1")
R.mutant("result-scalar-one-not-scalar", RES,
         sub("            raise_for_second_row=True, raise_for_none=True, scalar=True\n", "            raise_for_second_row=True, raise_for_none=True, scalar=False\n"), "C10-R1")
R.mutant("async-one-or-none-raises-for-none", ARES,
         sub("        scalar values, rather than :class:`_engine.Row` objects,\n        are returned.\n\n        \"\"\"\n        return await greenlet_spawn(self._only_one_row, True, False, False)",
             "        scalar values, rather than :class:`_engine.Row` objects,\n        are returned.\n\n        \"\"\"\n        return await greenlet_spawn(self._only_one_row, True, True, False)"), "C10-R1")
R.mutant("async-scalar-checks-second-row", ARES,
         sub("        return await greenlet_spawn(self._only_one_row, False, False, True)", "        return await greenlet_spawn(self._only_one_row, True, False, True)"), "C10-R1")
R.mutant("result-one-value-dropped", RES,
         sub("        return self._only_one_row(\n            raise_for_second_row=True, raise_for_none=True, scalar=False\n        )\n\n    # special case to handle mypy issue:",
             "        self._only_one_row(\n            raise_for_second_row=True, raise_for_none=True, scalar=False\n        )\n        return None\n\n    # special case to handle mypy issue:"), "C10-R1")
R.mutant("no-result-raised-unconditionally", CY,
         sub("        if row is None:\n            if raise_for_none:\n                raise exc.NoResultFound(\n                    \"No row was found when one was required\"\n                )\n            else:\n                return None\n",
             "        if row is None:\n            raise exc.NoResultFound(\n                \"No row was found when one was required\"\n            )\n"), "C10-R2")
R.mutant("none-returned-despite-flag", CY,
         sub("        if row is None:\n            if raise_for_none:\n                raise exc.NoResultFound(\n                    \"No row was found when one was required\"\n                )\n            else:\n                return None\n",
             "        if row is None:\n            if raise_for_none and scalar:\n                raise exc.NoResultFound(\n                    \"No row was found when one was required\"\n                )\n            else:\n                return None\n"), "C10-R2")
R.mutant("multiple-checked-always", CY,
         sub("        if raise_for_second_row:\n            if self._unique_filter_state:", "        if raise_for_second_row or scalar:\n            if self._unique_filter_state:"), "C10-R2")
R.mutant("first-leaves-result-open", CY,
         sub("            # closed us :)\n            self._soft_close(hard=True)\n", "            # closed us :)\n"), "C10-R2")
R.mutant("multiple-raised-while-open", CY,
         sub("            if next_row is not _NO_ROW:\n                self._soft_close(hard=True)\n                raise exc.MultipleResultsFound(",
             "            if next_row is not _NO_ROW:\n                raise exc.MultipleResultsFound("), "C10-R2")
R.mutant("scalar-takes-wrong-column", CY,
         sub("            return row[0]  # type: ignore[no-any-return]", "            return row[-1]  # type: ignore[no-any-return]"), "C10-R2")
R.mutant("second-fetch-soft", CY,
         sub("                next_row = onerow(hard_close=True)\n                if next_row is None:\n                    next_row = _NO_ROW\n\n            if next_row",
             "                next_row = onerow()\n                if next_row is None:\n                    next_row = _NO_ROW\n\n            if next_row"), "C10-R2")
R.mutant("view-fetchone-reads-all", RES,
         sub("        return self._real_result._fetchone_impl(hard_close=hard_close)", "        return self._real_result._fetchall_impl()[0]"), "C10-R3")
R.mutant("view-fetchmany-drops-size", RES,
         sub("        return self._real_result._fetchmany_impl(size=size)", "        return self._real_result._fetchmany_impl()"), "C10-R3")
R.mutant("scalarresult-copies-parent", RES,
         sub("        self, real_result: Result[Unpack[TupleAny]], index: _KeyIndexType\n    ):\n        self._real_result = real_result\n",
             "        self, real_result: Result[Unpack[TupleAny]], index: _KeyIndexType\n    ):\n        self._real_result = real_result.freeze()()\n"), "C10-R3")
R.mutant("mappings-over-fresh-result", RES,
         sub("        return MappingResult(self)\n", "        return MappingResult(self.freeze()())\n"), "C10-R3")
R.mutant("async-scalars-over-copy", ARES,
         sub("        return AsyncScalarResult(self._real_result, index)", "        return AsyncScalarResult(self._real_result.freeze()(), index)"), "C10-R3")
# benign
R.mutant("benign-positional-flags", RES,
         sub("        return self._only_one_row(\n            raise_for_second_row=True, raise_for_none=True, scalar=True\n        )",
             "        return self._only_one_row(True, True, True)"), None)
R.mutant("benign-async-keywords", ARES,
         sub("        return await greenlet_spawn(self._only_one_row, True, True, True)",
             "        return await greenlet_spawn(\n            self._only_one_row, raise_for_second_row=True, raise_for_none=True, scalar=True\n        )"), None)
R.mutant("benign-rename-row-local", CY,
         sub("            if next_row is not _NO_ROW:\n                self._soft_close(hard=True)\n", "            if next_row is not _NO_ROW:\n                _closing = True\n                self._soft_close(hard=True)\n"), None)
R.mutant("benign-view-ctor-rename", RES,
         sub("    def __init__(self, result: Result[Unpack[TupleAny]]):\n        self._real_result = result\n        self._unique_filter_state = result._unique_filter_state\n        self._metadata = result._metadata\n        if result._source_supports_scalars:",
             "    def __init__(self, parent: Result[Unpack[TupleAny]]):\n        self._unique_filter_state = parent._unique_filter_state\n        self._real_result = parent\n        self._metadata = parent._metadata\n        result = parent\n        if result._source_supports_scalars:"), None)

# ---- R4 (seed C10/1 and its class)
R.mutant("r4-seed1-filterresult-yield-per-not-generative", RES,
         sub("    @_generative\n    def yield_per(self, num: int) -> Self:\n        \"\"\"Configure the row-fetching strategy to fetch ``num`` rows at a time.\n\n        The :meth:`_engine.FilterResult.yield_per` method is a pass through",
             "    def yield_per(self, num: int) -> Self:\n        \"\"\"Configure the row-fetching strategy to fetch ``num`` rows at a time.\n\n        The :meth:`_engine.FilterResult.yield_per` method is a pass through"), "C10-R4")
_FR_YP = ("    @_generative\n    def yield_per(self, num: int) -> Self:\n        \"\"\"Configure the row-fetching strategy to fetch ``num`` rows at a time.\n\n"
          "        The :meth:`_engine.FilterResult.yield_per` method is a pass through")
R.mutant("r4-filterresult-yield-per-forwards-without-reset", RES,
         chain(sub(_FR_YP, _FR_YP.replace("    @_generative\n", "", 1)),
               sub("        self._real_result = self._real_result.yield_per(num)\n        return self\n",
                   "        self._real_result.yield_per(num)\n        return self\n")), "C10-R4")
R.mutant("r4-result-unique-not-generative", RES,
         sub("    @_generative\n    def unique(self, strategy: Optional[_UniqueFilterType] = None) -> Self:\n        \"\"\"Apply unique filtering to the objects returned by this\n        :class:`_engine.Result`.",
             "    def unique(self, strategy: Optional[_UniqueFilterType] = None) -> Self:\n        \"\"\"Apply unique filtering to the objects returned by this\n        :class:`_engine.Result`."), "C10-R4")
R.mutant("r4-cursor-yield-per-not-generative", "engine/cursor.py",
         sub("    @_generative\n    def yield_per(self, num: int) -> Self:\n        self._yield_per = num\n", "    def yield_per(self, num: int) -> Self:\n        self._yield_per = num\n"), "C10-R4")
R.mutant("r4-rewind-keeps-memoized-getters", "engine/cursor.py",
         sub("            initial_buffer=rows,\n        )\n        self._reset_memoizations()\n", "            initial_buffer=rows,\n        )\n"), "C10-R4")
R.mutant("r4-column-slices-not-generative", RES,
         sub("    @_generative\n    def _column_slices(self, indexes: Sequence[_KeyIndexType]) -> Self:", "    def _column_slices(self, indexes: Sequence[_KeyIndexType]) -> Self:"), "C10-R4")
R.mutant("r4-new-setter-without-reset", RES,
         sub("    def _soft_close(self, hard: bool = False) -> None:\n        self._real_result._soft_close(hard=hard)\n",
             "    def _soft_close(self, hard: bool = False) -> None:\n        self._real_result._soft_close(hard=hard)\n\n"
             "    def with_filter(self, fn: Any) -> Self:\n        self._post_creational_filter = fn\n        return self\n"), "C10-R4")
R.mutant("benign-r4-reset-called-explicitly", "engine/cursor.py",
         sub("    @_generative\n    def yield_per(self, num: int) -> Self:\n        self._yield_per = num\n",
             "    def yield_per(self, num: int) -> Self:\n        self._reset_memoizations()\n        self._yield_per = num\n"), None)
R.mutant("benign-r4-filter-unique-made-generative", RES,
         sub("        See :meth:`_engine.Result.unique` for usage details.\n\n        \"\"\"\n        self._unique_filter_state = (set(), strategy)\n        return self\n",
             "        See :meth:`_engine.Result.unique` for usage details.\n\n        \"\"\"\n        self._reset_memoizations()\n        self._unique_filter_state = (set(), strategy)\n        return self\n", count=2), None)
# ---- R5 (seed C10/2 and its class)
R.mutant("r5-seed2-top-up-fetches-full-size", CY,
         sub("                    rows = _manyrows(num_required)\n", "                    rows = _manyrows(num)\n"), "C10-R5")
R.mutant("r5-top-up-fetches-default-size", CY,
         sub("                    rows = _manyrows(num_required)\n", "                    rows = _manyrows()\n"), "C10-R5")
R.mutant("r5-shortfall-not-recomputed", CY,
         sub("                    _apply_unique_strategy(\n                        made_rows, collect, uniques, strategy\n                    )\n                    num_required = num - len(collect)\n\n                if post_creational_filter",
             "                    _apply_unique_strategy(\n                        made_rows, collect, uniques, strategy\n                    )\n                    num_required = num - len(rows)\n\n                if post_creational_filter"), "C10-R5")
R.mutant("r5-plain-getter-ignores-size", CY,
         sub("                rows: Sequence = self._fetchmany_impl(num)\n", "                rows: Sequence = self._fetchmany_impl(yield_per)\n"), "C10-R5")
R.mutant("r5-no-stop-on-empty-batch", CY,
         sub("                    rows = _manyrows(num_required)\n                    if not rows:\n                        break\n",
             "                    rows = _manyrows(num_required)\n                    if rows is None:\n                        break\n"), "C10-R5")
R.mutant("benign-r5-min-bound-and-rename", CY,
         sub("                    rows = _manyrows(num_required)\n", "                    rows = _manyrows(min(num_required, num))\n"), None)
# ---- R6
R.mutant("r6-partitions-caches-strategy-bound-method", "engine/cursor.py",
         sub("    def _fetchone_impl(self, hard_close: bool = False) -> Any:\n        return self.cursor_strategy.fetchone(self, self.cursor, hard_close)\n",
             "    def _fetchone_impl(self, hard_close: bool = False) -> Any:\n        return self.cursor_strategy.fetchone(self, self.cursor, hard_close)\n\n"
             "    def _chunks(self, size: int) -> Iterator[Any]:\n        fetchmany = self.cursor_strategy.fetchmany\n        while True:\n"
             "            rows = fetchmany(self, self.cursor, size)\n            if not rows:\n                break\n            yield rows\n"), "C10-R6")
R.mutant("r6-iterrows-caches-strategy", CY,
         sub("            def iterrows() -> Iterator[_R]:\n                for raw_row in self._fetchiter_impl():\n                    row = (\n                        make_row(raw_row) if make_row is not None else raw_row\n                    )\n                    if post_creational_filter is not None:",
             "            def iterrows() -> Iterator[_R]:\n                strategy_ = self.cursor_strategy\n                for raw_row in self._fetchiter_impl():\n                    strategy_.touch()\n                    row = (\n                        make_row(raw_row) if make_row is not None else raw_row\n                    )\n                    if post_creational_filter is not None:"), "C10-R6")
# (benign-r6-strategy-read-inside-loop: superseded by benign-e1-r6-strategy-local-inside-loop -- the anchored text was
# changed by a fix: commit)

# ---- rob-E1: benign families (stored refactors rfE_1..3 are silent; further variants of the same spirit)
_NO_ROW_BLOCK = ("        if row is None:\n            if raise_for_none:\n                raise exc.NoResultFound(\n"
                 "                    \"No row was found when one was required\"\n                )\n            else:\n                return None\n")
R.mutant("benign-e1-no-row-guard-clauses", CY,
         sub(_NO_ROW_BLOCK, "        if row is None:\n            if not raise_for_none:\n                return None\n"
                            "            raise exc.NoResultFound(\n                \"No row was found when one was required\"\n            )\n"), None)
R.mutant("benign-e1-no-row-merged-conditions", CY,
         sub(_NO_ROW_BLOCK, "        if row is None and raise_for_none:\n            raise exc.NoResultFound(\n"
                            "                \"No row was found when one was required\"\n            )\n"
                            "        if row is None:\n            return None\n"), None)
R.mutant("no-row-merged-conditions-wrong-flag", CY,
         sub(_NO_ROW_BLOCK, "        if row is None and raise_for_second_row:\n            raise exc.NoResultFound(\n"
                            "                \"No row was found when one was required\"\n            )\n"
                            "        if row is None:\n            return None\n"), "C10-R2")
_MULTI = ("            if next_row is not _NO_ROW:\n                self._soft_close(hard=True)\n                raise exc.MultipleResultsFound(\n"
          "                    \"Multiple rows were found when exactly one was required\"\n                    if raise_for_none\n"
          "                    else \"Multiple rows were found when one or none \"\n                    \"was required\"\n                )\n")
_HELPER_AT = "    def _iter_impl(self) -> Iterator[_R]:\n        return self._iterator_getter()\n"
R.mutant("benign-e1-multiple-rows-helper", CY,
         chain(sub(_MULTI, "            if next_row is not _NO_ROW:\n                self._close_and_raise_multiple(raise_for_none)\n"),
               sub(_HELPER_AT, "    def _close_and_raise_multiple(self, exactly_one: bool) -> NoReturn:\n        self._soft_close(hard=True)\n"
                               "        raise exc.MultipleResultsFound(\n            \"Multiple rows were found when exactly one was required\"\n"
                               "            if exactly_one\n            else \"Multiple rows were found when one or none was required\"\n        )\n\n"
                               + _HELPER_AT)), None)
R.mutant("multiple-rows-helper-forgets-close", CY,
         chain(sub(_MULTI, "            if next_row is not _NO_ROW:\n                self._close_and_raise_multiple(raise_for_none)\n"),
               sub(_HELPER_AT, "    def _close_and_raise_multiple(self, exactly_one: bool) -> NoReturn:\n"
                               "        raise exc.MultipleResultsFound(\n            \"Multiple rows were found when exactly one was required\"\n"
                               "            if exactly_one\n            else \"Multiple rows were found when one or none was required\"\n        )\n\n"
                               + _HELPER_AT)), "C10-R2")
R.mutant("benign-e1-close-through-alias", CY,
         chain(sub("        onerow = self._fetchone_impl\n\n        row = onerow(hard_close=True)\n",
                   "        onerow = self._fetchone_impl\n        close = self._soft_close\n\n        row = onerow(hard_close=True)\n"),
               sub("            if next_row is not _NO_ROW:\n                self._soft_close(hard=True)\n", "            if next_row is not _NO_ROW:\n                close(hard=True)\n"),
               sub("            # closed us :)\n            self._soft_close(hard=True)\n", "            # closed us :)\n            close(hard=True)\n")), None)
R.mutant("benign-e1-scalar-projection-inverted", CY,
         sub("        if scalar and make_row is not None:\n            return row[0]  # type: ignore[no-any-return]\n        else:\n            return row  # type: ignore[return-value]\n",
             "        if not scalar or make_row is None:\n            return row  # type: ignore[return-value]\n        return row[0]  # type: ignore[no-any-return]\n"), None)
R.mutant("benign-e1-accessor-returns-through-local", RES,
         sub("        return self._only_one_row(\n            raise_for_second_row=True, raise_for_none=True, scalar=False\n        )\n\n    # special case to handle mypy issue:",
             "        only_row = self._only_one_row(\n            raise_for_second_row=True, raise_for_none=True, scalar=False\n        )\n        return only_row\n\n    # special case to handle mypy issue:"), None)
R.mutant("benign-e1-view-fetchone-through-alias", RES,
         sub("        return self._real_result._fetchone_impl(hard_close=hard_close)",
             "        real_result = self._real_result\n        return real_result._fetchone_impl(hard_close=hard_close)"), None)
R.mutant("benign-e1-view-ctor-metadata-local", RES,
         sub("    def __init__(self, result: Result[Unpack[TupleAny]]):\n        self._real_result = result\n        self._unique_filter_state = result._unique_filter_state\n        self._metadata = result._metadata\n        if result._source_supports_scalars:",
             "    def __init__(self, result: Result[Unpack[TupleAny]]):\n        parent_metadata = result._metadata\n        self._real_result = result\n        self._unique_filter_state = result._unique_filter_state\n        self._metadata = parent_metadata\n        if result._source_supports_scalars:"), None)
R.mutant("benign-e1-mappings-view-through-local", RES,
         sub("        return MappingResult(self)\n", "        view = MappingResult(self)\n        return view\n"), None)
R.mutant("benign-e1-top-up-stop-in-else", CY,
         sub("                    rows = _manyrows(num_required)\n                    if not rows:\n                        break\n\n"
             "                    made_rows = rows if make_rows is None else make_rows(rows)\n                    _apply_unique_strategy(\n"
             "                        made_rows, collect, uniques, strategy\n                    )\n                    num_required = num - len(collect)\n",
             "                    rows = _manyrows(num_required)\n                    if rows:\n"
             "                        made_rows = (\n                            rows if make_rows is None else make_rows(rows)\n                        )\n"
             "                        _apply_unique_strategy(\n                            made_rows, collect, uniques, strategy\n                        )\n"
             "                        num_required = num - len(collect)\n                    else:\n                        break\n"), None)
_ITER = "        while True:\n            row = self.cursor_strategy.fetchone(self, self.cursor)\n            if row is None:\n                break\n            yield row\n"
R.mutant("benign-e1-r6-strategy-local-inside-loop", "engine/cursor.py",
         sub(_ITER, "        while True:\n            fetchone = self.cursor_strategy.fetchone\n            row = fetchone(self, self.cursor)\n"
                    "            if row is None:\n                break\n            yield row\n"), None)
R.mutant("r6-fetchiter-caches-strategy-outside-loop", "engine/cursor.py",
         sub(_ITER, "        fetchone = self.cursor_strategy.fetchone\n\n        while True:\n            row = fetchone(self, self.cursor)\n"
                    "            if row is None:\n                break\n            yield row\n"), "C10-R6")

# ---- R7 (round-2 seed C10/2 and its class: which object is hashed into the shared uniques set)
_IT_UNIQ = ("                    hashed = strategy(row) if strategy is not None else row\n                    if hashed in uniques:\n"
            "                        continue\n                    uniques.add(hashed)\n"
            "                    if post_creational_filter is not None:\n                        row = post_creational_filter(row)\n"
            "                    yield row\n")
_ONE_UNIQ = ("                        hashed = strategy(obj) if strategy is not None else obj\n                        if hashed in uniques:\n"
             "                            continue\n                        uniques.add(hashed)\n"
             "                        if post_creational_filter is not None:\n                            obj = post_creational_filter(obj)\n"
             "                        return obj  # type: ignore[return-value]\n")
_ALL_UNIQ = ("            interim_rows = _apply_unique_strategy(\n                made_rows, [], uniques, strategy\n            )\n")
_MANY_TOPUP = ("                    made_rows = rows if make_rows is None else make_rows(rows)\n                    _apply_unique_strategy(\n"
               "                        made_rows, collect, uniques, strategy\n                    )\n                    num_required = num - len(collect)\n")
_SEEN_HELPER_AT = "@cython.inline\n@cython.cfunc\ndef _apply_unique_strategy("
_SEEN_HELPER = ("def _seen_before(row: Any, uniques: set[Any], strategy: Any) -> bool:\n"
                "    key = strategy(row) if strategy is not None else row\n    if key in uniques:\n        return True\n"
                "    uniques.add(key)\n    return False\n\n\n")
R.mutant("r7-seed-iterrows-filters-before-hashing", CY,
         sub(_IT_UNIQ, "                    if post_creational_filter is not None:\n                        row = post_creational_filter(row)\n"
                       "                    hashed = strategy(row) if strategy is not None else row\n                    if hashed in uniques:\n"
                       "                        continue\n                    uniques.add(hashed)\n                    yield row\n"), "C10-R7")
R.mutant("r7-onerow-filters-before-hashing", CY,
         sub(_ONE_UNIQ, "                        if post_creational_filter is not None:\n                            obj = post_creational_filter(obj)\n"
                        "                        hashed = strategy(obj) if strategy is not None else obj\n                        if hashed in uniques:\n"
                        "                            continue\n                        uniques.add(hashed)\n"
                        "                        return obj  # type: ignore[return-value]\n"), "C10-R7")
R.mutant("r7-allrows-uniques-the-filtered-values", CY,
         sub(_ALL_UNIQ, "            if post_creational_filter is not None:\n                made_rows = [post_creational_filter(r) for r in made_rows]\n"
                        "                post_creational_filter = None\n" + _ALL_UNIQ), "C10-R7")
R.mutant("r7-manyrows-top-up-uniques-the-filtered-values", CY,
         sub(_MANY_TOPUP, "                    made_rows = rows if make_rows is None else make_rows(rows)\n"
                          "                    filtered = (\n                        made_rows\n                        if post_creational_filter is None\n"
                          "                        else [post_creational_filter(r) for r in made_rows]\n                    )\n"
                          "                    _apply_unique_strategy(\n                        filtered, collect, uniques, strategy\n                    )\n"
                          "                    num_required = num - len(collect)\n"), "C10-R7")
R.mutant("r7-iterrows-hashes-the-raw-row", CY,
         sub("                    hashed = strategy(row) if strategy is not None else row\n                    if hashed in uniques:\n                        continue\n",
             "                    hashed = raw_row\n                    if hashed in uniques:\n                        continue\n"), "C10-R7")
R.mutant("r7-seen-helper-given-filtered-row", CY,
         chain(sub(_IT_UNIQ, "                    if post_creational_filter is not None:\n                        row = post_creational_filter(row)\n"
                             "                    if _seen_before(row, uniques, strategy):\n                        continue\n                    yield row\n"),
               sub(_SEEN_HELPER_AT, _SEEN_HELPER + _SEEN_HELPER_AT)), "C10-R7")
R.mutant("benign-r7-seen-helper", CY,
         chain(sub(_IT_UNIQ, "                    if _seen_before(row, uniques, strategy):\n                        continue\n"
                             "                    if post_creational_filter is not None:\n                        row = post_creational_filter(row)\n"
                             "                    yield row\n"),
               sub(_ONE_UNIQ, "                        if _seen_before(obj, uniques, strategy):\n                            continue\n"
                              "                        if post_creational_filter is not None:\n                            obj = post_creational_filter(obj)\n"
                              "                        return obj  # type: ignore[return-value]\n"),
               sub(_SEEN_HELPER_AT, _SEEN_HELPER + _SEEN_HELPER_AT)), None)
R.mutant("benign-r7-aliases-and-inverted-filter-branch", CY,
         sub(_IT_UNIQ, "                    seen = uniques\n                    made = row\n"
                       "                    key = strategy(made) if strategy is not None else made\n                    if key in seen:\n"
                       "                        continue\n                    seen.add(key)\n"
                       "                    if post_creational_filter is None:\n                        yield made\n"
                       "                    else:\n                        yield post_creational_filter(made)\n"), None)
R.mutant("benign-r7-iterrows-through-apply-unique-strategy", CY,
         sub(_IT_UNIQ, "                    if not _apply_unique_strategy([row], [], uniques, strategy):\n                        continue\n"
                       "                    if post_creational_filter is not None:\n                        row = post_creational_filter(row)\n"
                       "                    yield row\n"), None)
R.mutant("benign-r7-allrows-filter-through-local-alias", CY,
         sub("        if post_creational_filter is not None:\n            interim_rows = [\n                post_creational_filter(row) for row in interim_rows\n            ]\n        return interim_rows\n",
             "        pcf = post_creational_filter\n        if pcf is None:\n            return interim_rows\n        return [pcf(row) for row in interim_rows]\n"), None)
# ---- R6 (round-2 seed C10/1 = r6-fetchiter-caches-strategy-outside-loop; the same edit written with an intermediate local)
R.mutant("r6-fetchiter-caches-strategy-through-two-locals", "engine/cursor.py",
         sub(_ITER, "        strategy = self.cursor_strategy\n        fetchone = strategy.fetchone\n        while True:\n"
                    "            row = fetchone(self, self.cursor)\n            if row is None:\n                break\n            yield row\n"), "C10-R6")
R.mutant("benign-r6-two-locals-inside-loop", "engine/cursor.py",
         sub(_ITER, "        while True:\n            strategy = self.cursor_strategy\n"
                    "            fetchone = strategy.fetchone\n            row = fetchone(self, self.cursor)\n"
                    "            if row is None:\n                break\n            yield row\n"), None)
