"""rob-A -- refactoring-robust *normal form* of a function (used by C23..C27).

Behaviour-preserving refactorings (extracted helper, local alias / snapshot, boolean flag local) change the
syntax a rule matches on without changing what the code does.  Instead of teaching every rule every spelling,
the rules analyse `normal_form(ctx, f, keep=...)`: a copy of the function AST in which

* **helper calls are inlined** (`self._helper(a, b)`, `cls._helper(...)`, `Class._static(...)`, module level
  `helper(...)`; as a statement, as `x = helper(...)` or as `return helper(...)`; one or two levels).  The callee's
  parameters are bound to the argument expressions, its locals are renamed when they collide with the caller's,
  `return`s are turned into fall-through (an early `if c: return` becomes `if c: ... else: <rest>`).  The inlined
  statements sit where the call sat, so the callee's exceptional exits are exits of the caller's statement and
  a callee that performs an obligation on all its normal paths performs it at the call site.
  Names in `keep` are the rule's own vocabulary (calls it recognises by name): they are never inlined.  A
  helper is inlined only when the call can have one target (no override in a subclass of the caller's class)
  and its shape is understood (no generator / nested def / `return` inside a loop / *args); otherwise the call
  is left as it is -- the rule then sees what it saw before.
* **single-assignment locals are resolved** (`trans = self._transaction`, `pool = self.__pool`,
  `unlimited = self._max_overflow == -1`, `flag = a and not b`): every later read of the local is replaced by
  its defining expression when that expression is call-free and no store to an attribute it reads can happen
  between the definition and the use (a *stale snapshot* is left alone: the rule must reason about it itself).

The result is a `FuncInfo` look-alike (`.node` is the rewritten AST, everything else as in `f`) with
`.pm` (parent map of the new AST) and `.copies(orig_node)` (the new nodes that stem from a node of the
original AST of `f` or of an inlined callee).  Nothing here imports or runs SQLAlchemy.
"""

from __future__ import annotations

import ast
import copy
from typing import Dict, Iterable, List, Optional, Sequence, Set, Tuple

from ..astutil import ScopeNode, call_name, dotted, parent_map, walk_local, walk_stmts
from ..cfg import CFG
from ..index import ClassInfo, FuncInfo

MAX_CALLEE_STMTS = 60
MAX_DEPTH = 2


class _Refuse(Exception):
    pass


class _Ref:
    """Reference to a node of an original AST that survives copy.deepcopy of the node that carries it."""
    __slots__ = ("node",)

    def __init__(self, node):
        self.node = node

    def __deepcopy__(self, memo):
        return self

    def __copy__(self):
        return self


# ---------------------------------------------------------------------- small AST utilities
def _strip_doc(body: Sequence[ast.stmt]) -> List[ast.stmt]:
    body = list(body)
    if body and isinstance(body[0], ast.Expr) and isinstance(body[0].value, ast.Constant) and isinstance(body[0].value.value, str):
        body = body[1:]
    return body


def _has_return(stmts: Sequence[ast.stmt]) -> bool:
    return any(isinstance(s, ast.Return) for s in walk_stmts(list(stmts)))


def _terminates(stmts: Sequence[ast.stmt]) -> bool:
    if not stmts:
        return False
    last = stmts[-1]
    if isinstance(last, (ast.Return, ast.Raise)):
        return True
    if isinstance(last, ast.If):
        return bool(last.orelse) and _terminates(last.body) and _terminates(last.orelse)
    return False


def _clone(st, **fields):
    new = copy.copy(st)
    for k, v in fields.items():
        setattr(new, k, v)
    return new


def _norm_returns(stmts: Sequence[ast.stmt]) -> List[ast.stmt]:
    """Same behaviour, but every `return` is in tail position of the statement list."""
    out: List[ast.stmt] = []
    stmts = list(stmts)
    for i, st in enumerate(stmts):
        if isinstance(st, ast.Return):
            out.append(st)
            return out
        if isinstance(st, ScopeNode) or not _has_return([st]):
            out.append(st)
            continue
        rest = stmts[i + 1:]
        if not rest:
            out.append(_norm_tail(st))
            return out
        if isinstance(st, ast.If):
            body = list(st.body) if _terminates(st.body) else list(st.body) + copy.deepcopy(rest)
            orelse = list(st.orelse) if _terminates(st.orelse) else list(st.orelse) + rest
            out.append(_clone(st, body=_norm_returns(body), orelse=_norm_returns(orelse)))
            return out
        raise _Refuse("return in a non-tail compound statement")
    return out


def _norm_tail(st: ast.stmt) -> ast.stmt:
    if isinstance(st, ast.If):
        return _clone(st, body=_norm_returns(st.body), orelse=_norm_returns(st.orelse))
    if isinstance(st, (ast.With, ast.AsyncWith)):
        return _clone(st, body=_norm_returns(st.body))
    if isinstance(st, ast.Try):
        if _has_return(st.finalbody):
            raise _Refuse("return in finally")
        if st.orelse and _has_return(st.body):
            raise _Refuse("return in a try body that has an else clause")
        hs = [_clone(h, body=_norm_returns(h.body)) for h in st.handlers]
        return _clone(st, body=_norm_returns(st.body), orelse=_norm_returns(st.orelse), handlers=hs)
    raise _Refuse("return inside a loop / match")


def _replace_tail(stmts: Sequence[ast.stmt], mk) -> List[ast.stmt]:
    """Replace the tail `return X` of a (return-normalised) statement list by mk(X); falling off the end by
    mk(None).  mk may answer None (nothing to do)."""
    stmts = list(stmts)

    def fin(v, like):
        r = mk(v)
        if r is None:
            return []
        ast.copy_location(r, like)
        ast.fix_missing_locations(r)
        return [r]

    if not stmts:
        return []
    init, last = stmts[:-1], stmts[-1]
    if isinstance(last, ast.Return):
        return init + fin(last.value, last)
    if isinstance(last, ast.Raise):
        return stmts
    if isinstance(last, ast.If):
        body = _replace_tail(last.body, mk) or [ast.copy_location(ast.Pass(), last)]
        orelse = _replace_tail(last.orelse, mk) if last.orelse else fin(None, last)
        return init + [_clone(last, body=body, orelse=orelse)]
    if isinstance(last, (ast.With, ast.AsyncWith)):
        return init + [_clone(last, body=_replace_tail(last.body, mk) or [ast.copy_location(ast.Pass(), last)])]
    if isinstance(last, ast.Try):
        hs = [_clone(h, body=_replace_tail(h.body, mk) or [ast.copy_location(ast.Pass(), h)]) for h in last.handlers]
        if last.orelse:
            return init + [_clone(last, orelse=_replace_tail(last.orelse, mk), handlers=hs)]
        return init + [_clone(last, body=_replace_tail(last.body, mk) or [ast.copy_location(ast.Pass(), last)], handlers=hs)]
    return stmts + fin(None, last)


def _stored_names(nodes: Iterable[ast.AST]) -> Set[str]:
    out: Set[str] = set()
    for root in nodes:
        for n in ast.walk(root):
            if isinstance(n, ast.Name) and isinstance(n.ctx, (ast.Store, ast.Del)):
                out.add(n.id)
            elif isinstance(n, ast.ExceptHandler) and n.name:
                out.add(n.name)
    return out


def _all_names(nodes: Iterable[ast.AST]) -> Set[str]:
    out: Set[str] = set()
    for root in nodes:
        for n in ast.walk(root):
            if isinstance(n, ast.Name):
                out.add(n.id)
            elif isinstance(n, ast.ExceptHandler) and n.name:
                out.add(n.name)
            elif isinstance(n, ast.arg):
                out.add(n.arg)
    return out


def _simple_arg(e: ast.expr) -> bool:
    """Expressions that may be substituted textually for a parameter (evaluation has no effect and
    repeated evaluation gives the same object for the rules' purposes)."""
    if isinstance(e, ast.Constant):
        return True
    d = dotted(e)
    return d is not None and "()" not in d


class _Subst(ast.NodeTransformer):
    def __init__(self, mapping: Dict[str, ast.expr], rename: Dict[str, str]):
        self.mapping = mapping
        self.rename = rename

    def visit_Name(self, n: ast.Name):
        if n.id in self.mapping and isinstance(n.ctx, ast.Load):
            new = copy.deepcopy(self.mapping[n.id])
            for x in ast.walk(new):
                ast.copy_location(x, n)
            if getattr(n, "_orig", None) is not None:
                new._orig = n._orig
            return new
        if n.id in self.rename:
            n.id = self.rename[n.id]
        return n

    def visit_ExceptHandler(self, n: ast.ExceptHandler):
        if n.name and n.name in self.rename:
            n.name = self.rename[n.name]
        return self.generic_visit(n)


def _mark_origin(orig: ast.AST, new: ast.AST) -> None:
    for o, n in zip(ast.walk(orig), ast.walk(new)):
        n._orig = _Ref(o)


# ---------------------------------------------------------------------- inlining
class _Inliner:
    def __init__(self, ctx, f: FuncInfo, keep: Iterable[str], max_depth: int = MAX_DEPTH):
        self.ctx = ctx
        self.ix = ctx.index
        self.f = f
        self.keep = set(keep)
        self.max_depth = max_depth
        self.counter = 0
        self.inlined: List[str] = []      # keys of the callees that were inlined
        self.names: Set[str] = set()

    # -- which function does this call run?
    def target(self, call: ast.Call, module, stack) -> Optional[Tuple[FuncInfo, Optional[ast.expr]]]:
        """(callee, receiver expression bound to its first parameter or None)."""
        fn = call.func
        name = fn.attr if isinstance(fn, ast.Attribute) else fn.id if isinstance(fn, ast.Name) else None
        if name is None or name in self.keep:
            return None
        if any(isinstance(a, ast.Starred) for a in call.args) or any(k.arg is None for k in call.keywords):
            return None
        t, recv = None, None
        cls = self.f.cls
        if isinstance(fn, ast.Attribute) and isinstance(fn.value, ast.Name) and fn.value.id in ("self", "cls") and cls is not None:
            first = self.f.params[0] if self.f.params else None
            if fn.value.id != first:
                return None
            t = self.ix.resolve_method(cls, name)
            if t is None:
                return None
            # dynamic dispatch: a subclass that overrides the helper makes the target ambiguous
            for sub_ in self.ix.subclasses(cls):
                if name in sub_.methods:
                    return None
            recv = fn.value
        elif isinstance(fn, ast.Name):
            r = self.ix.resolve(module, name)
            if isinstance(r, FuncInfo) and r.cls is None and r.parent_func is None:
                t = r
        elif isinstance(fn, ast.Attribute) and dotted(fn):
            r = self.ix.resolve(module, dotted(fn))
            if isinstance(r, FuncInfo) and r.cls is not None and any(d.split(".")[-1] == "staticmethod" for d in r.decorators):
                t = r
        if not isinstance(t, FuncInfo) or t.type_only or t.is_overload or t.key == self.f.key or t.key in stack:
            return None
        decos = [d.split(".")[-1] for d in t.decorators]
        if any(d not in ("staticmethod", "classmethod") for d in decos):
            return None
        if isinstance(t.node, ast.AsyncFunctionDef):
            return None
        a = t.node.args
        if a.vararg or a.kwarg:
            return None
        body = _strip_doc(t.node.body)
        if sum(1 for _ in walk_stmts(body)) > MAX_CALLEE_STMTS:
            return None
        for n in ast.walk(ast.Module(body=body, type_ignores=[])):
            if isinstance(n, (ast.Yield, ast.YieldFrom, ast.Await, ast.FunctionDef, ast.AsyncFunctionDef, ast.ClassDef,
                              ast.Global, ast.Nonlocal)):
                return None
        if "staticmethod" in decos:
            recv = None
        elif t.cls is not None:
            if recv is None:
                return None
            if "classmethod" in decos and recv.id == "self":
                recv = ast.Call(func=ast.Name(id="type", ctx=ast.Load()), args=[ast.Name(id="self", ctx=ast.Load())], keywords=[])
            elif "classmethod" not in decos and recv.id != "self":
                return None
        return t, recv

    def expand(self, st: ast.stmt, module, stack, depth) -> Optional[List[ast.stmt]]:
        """Statements that replace `st` (a call statement of an inlinable helper), or None."""
        call, form = None, None
        if isinstance(st, ast.Expr) and isinstance(st.value, ast.Call):
            call, form = st.value, "expr"
        elif isinstance(st, ast.Assign) and len(st.targets) == 1 and isinstance(st.targets[0], (ast.Name, ast.Attribute)) \
                and isinstance(st.value, ast.Call):
            call, form = st.value, "assign"
        elif isinstance(st, ast.AnnAssign) and isinstance(st.target, ast.Name) and isinstance(st.value, ast.Call):
            call, form = st.value, "assign"
        elif isinstance(st, ast.Return) and isinstance(st.value, ast.Call):
            call, form = st.value, "return"
        if call is None:
            return None
        tr = self.target(call, module, stack)
        if tr is None:
            return None
        t, recv = tr
        try:
            body = self._instantiate(st, call, form, t, recv)
        except _Refuse:
            return None
        except (AttributeError, TypeError, ValueError, KeyError, IndexError):
            return None     # a shape the inliner does not understand: the call stays a call
        self.inlined.append(t.key)
        self.ctx.functions_analysed.add(t.key)
        if depth + 1 < self.max_depth:
            body = self.block(body, t.module, stack + [t.key], depth + 1)
        return body

    def _instantiate(self, st, call, form, t: FuncInfo, recv) -> List[ast.stmt]:
        holder = ast.Module(body=copy.deepcopy(_strip_doc(t.node.body)), type_ignores=[])
        _mark_origin(ast.Module(body=_strip_doc(t.node.body), type_ignores=[]), holder)
        body = holder.body
        a = t.node.args
        params = [x.arg for x in a.posonlyargs + a.args]
        kwonly = [x.arg for x in a.kwonlyargs]
        defaults: Dict[str, ast.expr] = {}
        for p, d in zip(params[len(params) - len(a.defaults):], a.defaults):
            defaults[p] = d
        for p, d in zip(kwonly, a.kw_defaults):
            if d is not None:
                defaults[p] = d
        bound: Dict[str, ast.expr] = {}
        pos = list(params)
        if recv is not None:
            if not pos:
                raise _Refuse("method without self")
            bound[pos.pop(0)] = recv
        if len(call.args) > len(pos):
            raise _Refuse("too many positional arguments")
        for p, v in zip(pos, call.args):
            bound[p] = v
        for k in call.keywords:
            if k.arg in bound or k.arg not in params + kwonly:
                raise _Refuse("unexpected keyword")
            bound[k.arg] = k.value
        for p in params + kwonly:
            if p not in bound:
                d = defaults.get(p)
                if d is None or not isinstance(d, ast.Constant):
                    raise _Refuse("missing argument / non-constant default")
                bound[p] = d
        stored = _stored_names(body)
        for lam in ast.walk(holder):
            if isinstance(lam, ast.Lambda):
                la = lam.args
                if {x.arg for x in la.posonlyargs + la.args + la.kwonlyargs} & (set(bound) | stored):
                    raise _Refuse("lambda parameter shadows a name")
        mapping: Dict[str, ast.expr] = {}
        prologue: List[ast.stmt] = []
        taken = self.names | set(bound)
        rename: Dict[str, str] = {}

        def fresh(nm):
            self.counter += 1
            new = f"{nm}__i{self.counter}"
            while new in taken:
                self.counter += 1
                new = f"{nm}__i{self.counter}"
            taken.add(new)
            self.names.add(new)
            return new

        for p, v in bound.items():
            if p not in stored and _simple_arg(v):
                mapping[p] = v
            else:
                nm = fresh(p)
                rename[p] = nm
                asg = ast.Assign(targets=[ast.Name(id=nm, ctx=ast.Store())], value=copy.deepcopy(v))
                ast.copy_location(asg, st)
                ast.fix_missing_locations(asg)
                prologue.append(asg)
        for nm in sorted(stored - set(bound)):
            if nm in self.names:
                rename[nm] = fresh(nm)
            else:
                self.names.add(nm)
        body = _norm_returns(body)
        if form == "expr":
            def mk(v):
                if v is not None and any(isinstance(x, ast.Call) for x in ast.walk(v)):
                    return ast.Expr(value=v)
                return None
        elif form == "assign":
            def mk(v):
                val = v if v is not None else ast.Constant(value=None)
                if isinstance(st, ast.AnnAssign):
                    return ast.AnnAssign(target=copy.deepcopy(st.target), annotation=st.annotation, value=val, simple=st.simple)
                return ast.Assign(targets=copy.deepcopy(st.targets), value=val)
        else:
            def mk(v):
                return ast.Return(value=v)
        sub = _Subst(mapping, rename)
        body = [sub.visit(s) for s in body]          # (before the caller's target is spliced in: it is not the callee's name)
        out = _replace_tail(body, mk)
        if not out and not prologue:
            p = ast.copy_location(ast.Pass(), st)
            out = [p]
        res = prologue + out
        for s in res:
            s._inlined_from = t.key
        return res

    def block(self, stmts: Sequence[ast.stmt], module, stack, depth) -> List[ast.stmt]:
        out: List[ast.stmt] = []
        for st in stmts:
            rep = self.expand(st, module, stack, depth) if depth < self.max_depth else None
            if rep is not None:
                out.extend(rep)
                continue
            if not isinstance(st, ScopeNode):
                for fld in ("body", "orelse", "finalbody"):
                    lst = getattr(st, fld, None)
                    if isinstance(lst, list) and lst and isinstance(lst[0], ast.stmt):
                        setattr(st, fld, self.block(lst, module, stack, depth))
                if isinstance(st, ast.Try):
                    for h in st.handlers:
                        h.body = self.block(h.body, module, stack, depth)
                if isinstance(st, ast.Match):
                    for c in st.cases:
                        c.body = self.block(c.body, module, stack, depth)
            out.append(st)
        return out

    def run(self, node):
        self.names = _all_names([node])
        node.body = self.block(node.body, self.f.module, [self.f.key], 0)
        return node


# ---------------------------------------------------------------------- alias resolution
_PURE = (ast.Name, ast.Attribute, ast.Constant, ast.Compare, ast.BoolOp, ast.UnaryOp, ast.Load, ast.And, ast.Or, ast.Not,
         ast.USub, ast.cmpop, ast.expr_context)


def _is_cast(e) -> bool:
    return isinstance(e, ast.Call) and (call_name(e) or "").rsplit(".", 1)[-1] == "cast" and len(e.args) == 2 and not e.keywords


def _pure_value(e: ast.expr, kinds: str) -> bool:
    if _is_cast(e):
        return _pure_value(e.args[1], kinds)
    if kinds == "dotted":
        d = dotted(e)
        return d is not None and "()" not in d
    for x in ast.walk(e):
        if not isinstance(x, _PURE):
            return False
    return True


def _uncast(e):
    while _is_cast(e):
        e = e.args[1]
    return e


def _own_parts(st):
    from ..astutil import own_exprs
    if isinstance(st, ast.ExceptHandler):
        return [st.type] if st.type is not None else []
    return own_exprs(st)


def _reads(e: ast.AST) -> Set[str]:
    out = set()
    for x in ast.walk(e):
        if isinstance(x, ast.Attribute):
            d = dotted(x)
            if d:
                out.add(d)
    return out


def _evaluated_first(parts: Sequence[ast.AST], target: ast.AST) -> bool:
    """Is `target` reached, in evaluation order, before any call of the statement's own expressions?"""
    state = {"call": False, "hit": None}

    def go(e):
        if state["hit"] is not None:
            return
        if e is target:
            state["hit"] = not state["call"]
            return
        if isinstance(e, (ast.Lambda, ast.ListComp, ast.SetComp, ast.DictComp, ast.GeneratorExp)):
            state["call"] = True
            return
        for c in ast.iter_child_nodes(e):
            go(c)
        if isinstance(e, (ast.Call, ast.Await)):
            state["call"] = True

    for p_ in parts:
        go(p_)
    return bool(state["hit"])


def inline_temps(node, params: Sequence[str]) -> int:
    """In place: `x = <expr with calls>` immediately followed by the statement holding the ONLY read of x, where
    x is evaluated before anything else that could have an effect -> the read is replaced by the expression
    and the assignment dropped ("inline temp": `got = self._inc_overflow()` / `if got:`)."""
    from ..astutil import own_exprs
    n_done = 0
    for _ in range(3):
        nstores: Dict[str, int] = {}
        nloads: Dict[str, List[ast.Name]] = {}
        for n in ast.walk(node):
            if isinstance(n, ast.Name):
                if isinstance(n.ctx, ast.Load):
                    nloads.setdefault(n.id, []).append(n)
                else:
                    nstores[n.id] = nstores.get(n.id, 0) + 1
            elif isinstance(n, ast.ExceptHandler) and n.name:
                nstores[n.name] = nstores.get(n.name, 0) + 1
        changed = False

        def do_block(stmts):
            nonlocal changed, n_done
            i = 0
            while i + 1 < len(stmts):
                st, nxt = stmts[i], stmts[i + 1]
                i += 1
                if not (isinstance(st, ast.Assign) and len(st.targets) == 1 and isinstance(st.targets[0], ast.Name)):
                    continue
                nm = st.targets[0].id
                if nm in params or nstores.get(nm) != 1 or len(nloads.get(nm, [])) != 1:
                    continue
                if _pure_value(st.value, "all"):
                    continue            # (resolve_aliases handles those)
                use = nloads[nm][0]
                if isinstance(nxt, ScopeNode) or not isinstance(nxt, ast.stmt):
                    continue
                parts = own_exprs(nxt)
                if isinstance(nxt, (ast.While, ast.For, ast.AsyncFor)):
                    continue            # evaluated once per iteration
                if not _evaluated_first(parts, use):
                    continue
                pmap = parent_map(nxt)
                par = pmap.get(use)
                if par is None:
                    continue
                for fld, val in ast.iter_fields(par):
                    if val is use:
                        setattr(par, fld, st.value)
                    elif isinstance(val, list):
                        for k, e in enumerate(val):
                            if e is use:
                                val[k] = st.value
                stmts[i - 1] = ast.copy_location(ast.Pass(), st)
                changed = True
                n_done += 1

        for n in [node] + [x for x in walk_local(node) if isinstance(x, (ast.stmt, ast.ExceptHandler))]:
            for fld in ("body", "orelse", "finalbody"):
                lst = getattr(n, fld, None)
                if isinstance(lst, list) and lst and isinstance(lst[0], ast.stmt):
                    do_block(lst)
        if not changed:
            break
    return n_done


def resolve_aliases(node, params: Sequence[str], kinds: str = "all", rounds: int = 4, volatile: Iterable[str] = ()) -> int:
    """In place: replace reads of single-assignment locals by their (call-free) definition.  Answers the
    number of replacements.  `volatile`: dotted attributes that other threads may change at any time -- a local
    computed from them is a snapshot by nature and is never resolved."""
    total = 0
    volatile = set(volatile)
    for _ in range(rounds):
        nstores: Dict[str, int] = {}
        defs: Dict[str, List[Tuple[ast.expr, ast.stmt]]] = {}
        for n in walk_local(node):
            if isinstance(n, ast.Name) and isinstance(n.ctx, (ast.Store, ast.Del)):
                nstores[n.id] = nstores.get(n.id, 0) + 1
            elif isinstance(n, ast.ExceptHandler) and n.name:
                nstores[n.name] = nstores.get(n.name, 0) + 1
            if isinstance(n, ast.Assign) and len(n.targets) == 1 and isinstance(n.targets[0], ast.Name):
                defs.setdefault(n.targets[0].id, []).append((n.value, n))
            elif isinstance(n, ast.AnnAssign) and isinstance(n.target, ast.Name) and n.value is not None:
                defs.setdefault(n.target.id, []).append((n.value, n))
        binds = nstores
        cands: Dict[str, Tuple[ast.expr, ast.stmt]] = {}
        for nm, lst in defs.items():
            if len(lst) != 1 or nstores.get(nm, 0) != 1 or nm in params:
                continue
            v, st = lst[0]
            if not _pure_value(v, kinds):
                continue
            if volatile and any(r == d or r.startswith(d + ".") for r in _reads(v) for d in volatile):
                continue
            cands[nm] = (v, st)
        # (a name the definition reads may be rebound: that is a stale snapshot only when the rebinding can
        #  happen between the definition and the use -- decided per use below, like attribute stores)
        if not cands:
            break
        g = CFG(node)
        pm0 = parent_map(node)
        stmt_nodes: Dict[int, List[int]] = {}
        for n in g.nodes:
            if n.stmt is not None:
                stmt_nodes.setdefault(id(n.stmt), []).append(n.id)
        # attribute stores of the function (dotted target -> cfg nodes)
        from ..astutil import attr_stores
        stores: List[Tuple[str, List[int]]] = []
        for d, tnode, st in attr_stores(node):
            stores.append((d, stmt_nodes.get(id(st), [])))
        # a method call on an object may change the attributes of that object: `was = self._t.is_active` is a
        # snapshot once `self._t.close()` ran (receivers of two components or more; `self.m()` alone is not taken
        # to invalidate every `self.x` alias -- see the module docstring)
        for x in walk_local(node):
            if isinstance(x, ast.Call) and isinstance(x.func, ast.Attribute):
                recv = dotted(x.func.value)
                if recv and "()" not in recv and "." in recv:
                    cur = x
                    while cur is not None and id(cur) not in stmt_nodes:
                        cur = pm0.get(cur)
                    if cur is not None:
                        stores.append((recv + ".*", stmt_nodes[id(cur)]))
        for x in walk_local(node):
            if isinstance(x, ast.Name) and isinstance(x.ctx, (ast.Store, ast.Del)):
                cur = x
                while cur is not None and id(cur) not in stmt_nodes:
                    cur = pm0.get(cur)
                if cur is not None:
                    stores.append((x.id, stmt_nodes[id(cur)]))
            elif isinstance(x, ast.ExceptHandler) and x.name:
                stores.append((x.name, stmt_nodes.get(id(x), [])))
        reach_cache: Dict[int, Set[int]] = {}

        def reach(n):
            if n not in reach_cache:
                reach_cache[n] = g.reachable([n], include_starts=False)
            return reach_cache[n]

        def stale_at(nm, use_nodes) -> bool:
            v, dst = cands[nm]
            reads = set()
            for x in ast.walk(v):
                if isinstance(x, ast.Attribute):
                    d = dotted(x)
                    if d:
                        reads.add(d)
                elif isinstance(x, ast.Name):
                    reads.add(x.id)
            if not reads:
                return False
            dn = stmt_nodes.get(id(dst), [])
            after_def = set()
            for n in dn:
                after_def |= reach(n)
            for d, sn in stores:
                if d.endswith(".*"):
                    if not any(r.startswith(d[:-1]) for r in reads):
                        continue
                elif d == nm or not any(r == d or r.startswith(d + ".") for r in reads):
                    continue
                for s in sn:
                    if s in dn:
                        continue
                    if s in after_def and any(u in reach(s) for u in use_nodes):
                        return True
            return False

        replaced = 0
        pm = parent_map(node)

        def owner_nodes(x):
            cur = x
            while cur is not None and not isinstance(cur, (ast.stmt, ast.ExceptHandler)):
                cur = pm.get(cur)
            return stmt_nodes.get(id(cur), []) if cur is not None else []

        for x in list(walk_local(node)):
            if not (isinstance(x, ast.Name) and isinstance(x.ctx, ast.Load) and x.id in cands):
                continue
            v, dst = cands[x.id]
            if any(y is x for y in ast.walk(dst)):
                continue
            un = owner_nodes(x)
            if not un or stale_at(x.id, un):
                continue
            par = pm.get(x)
            if par is None:
                continue
            new = copy.deepcopy(_uncast(v))
            for y in ast.walk(new):
                ast.copy_location(y, x)
            new._alias_of = x.id
            done = False
            for fld, val in ast.iter_fields(par):
                if val is x:
                    setattr(par, fld, new)
                    done = True
                elif isinstance(val, list):
                    for i, e in enumerate(val):
                        if e is x:
                            val[i] = new
                            done = True
            if done:
                replaced += 1
        total += replaced
        if not replaced:
            break
    return total


# ---------------------------------------------------------------------- the normal form
class NormalForm(FuncInfo):
    """FuncInfo whose `.node` is the normal form of the original function's AST."""

    def copies(self, orig: ast.AST) -> List[ast.AST]:
        return [n for n in ast.walk(self.node) if getattr(n, "_orig", None) is not None and n._orig.node is orig]

    @property
    def pm(self):
        if self._pm is None:
            self._pm = parent_map(self.node)
        return self._pm


def normal_form(ctx, f: FuncInfo, keep: Iterable[str] = (), inline: bool = True, alias: Optional[str] = "all",
                depth: int = MAX_DEPTH, volatile: Iterable[str] = (), temps: bool = False) -> NormalForm:
    """Normal form of `f` (cached per ctx).  keep: callee names the rule matches by name (never inlined);
    alias: None | "dotted" (only `x = a.b.c` locals) | "all" (also comparisons / boolean combinations)."""
    cache = ctx.__dict__.setdefault("_rob_a_nf", {})
    k = (f.key, id(f.node), tuple(sorted(set(keep))), inline, alias, depth, tuple(sorted(set(volatile))), temps)
    hit = cache.get(k)
    if hit is not None:
        return hit
    if isinstance(f, NormalForm):
        f = f.orig
    new = copy.deepcopy(f.node)
    _mark_origin(f.node, new)
    inlined: List[str] = []
    if inline:
        inl = _Inliner(ctx, f, keep, depth)
        inl.run(new)
        inlined = inl.inlined
    n_alias = 0
    try:
        if temps:
            n_alias += inline_temps(new, f.params)
        if alias:
            n_alias += resolve_aliases(new, f.params, alias, volatile=volatile)
    except (AttributeError, TypeError, ValueError, KeyError, IndexError):
        pass                # every single replacement is complete in itself: a partly resolved function is still equivalent
    ast.fix_missing_locations(new)
    nf = NormalForm.__new__(NormalForm)
    nf.__dict__.update(f.__dict__)
    nf.node = new
    nf.orig = f
    nf.inlined = inlined
    nf.n_alias = n_alias
    nf._pm = None
    ctx.functions_analysed.add(f.key)
    cache[k] = nf
    return nf


# ---------------------------------------------------------------------- who-may-write tables (T-OWN) and helpers
def helper_callers(ix, func: FuncInfo) -> Optional[List[str]]:
    """Owner keys (`relpath::Class.method`) of every function in the package that calls the private helper
    `func` (matched by name: an over-approximation of its callers), or None when the helper is not private or its
    name is also used as a value (`callback=self._helper`): then its callers cannot be enumerated."""
    from ._helpers_rules_c import owner_key
    name = func.name
    if not name.startswith("_") or (name.startswith("__") and name.endswith("__")):
        return None
    out: List[str] = []
    for m in ix.all_modules():
        if name not in m.source:
            continue
        call_funcs = set()
        for n in ast.walk(m.tree):
            if isinstance(n, ast.Call):
                fn = n.func
                if (isinstance(fn, ast.Attribute) and fn.attr == name) or (isinstance(fn, ast.Name) and fn.id == name):
                    call_funcs.add(id(fn))
                    ok = owner_key(m, n)
                    if isinstance(fn, ast.Attribute):
                        # an *extracted helper* is called on the object itself, from its own class (hierarchy); a
                        # call on another object (`self.connection._commit_impl()`) is a collaboration, not a helper
                        if func.cls is None or not (isinstance(fn.value, ast.Name) and fn.value.id in ("self", "cls")):
                            return None
                        cname = ok.split("::", 1)[1].split(".")[0]
                        c = m.classes.get(cname)
                        if c is None or not (c is func.cls or ix.is_subclass(c, func.cls)):
                            return None
                    elif func.cls is not None or m is not func.module:
                        return None
                    out.append(ok)
        for n in ast.walk(m.tree):
            if id(n) in call_funcs:
                continue
            if (isinstance(n, ast.Attribute) and n.attr == name and isinstance(n.ctx, ast.Load)) or \
                    (isinstance(n, ast.Name) and n.id == name and isinstance(n.ctx, ast.Load)):
                return None
    return sorted(set(out))


def transitive_owners(ix, owner: str, allowed: Iterable[str], depth: int = 3) -> Optional[List[str]]:
    """`owner` is allowed to perform an owned action when it is a listed owner, or a private helper all of
    whose callers (transitively) are: answers the listed owners it acts for, else None."""
    allowed = set(allowed)
    if owner in allowed:
        return [owner]
    if depth <= 0 or not ix.has(owner):
        return None
    try:
        f = ix.func(owner)
    except Exception:
        return None
    callers = helper_callers(ix, f)
    if not callers:
        return None
    out: List[str] = []
    for c in callers:
        if c == owner:
            continue
        r = transitive_owners(ix, c, allowed, depth - 1)
        if r is None:
            return None
        out.extend(r)
    return sorted(set(out)) or None


# ---------------------------------------------------------------------- exception-edge assumption for finally bodies
def fin_quiet(g):
    """edge_ok: statements of a `finally` block do not raise themselves (obligations placed in a finally are
    judged under the assumption that the clean-up code runs to completion).

    Differs from _helpers_rules_c.fin_quiet in one respect: the CFG labels the edge on which the *pending*
    exception continues after the last statement of the exceptional copy of a finally body 'exc' as well --
    the same label as "this statement raised".  Cutting it makes every exceptional exit through a finally whose
    last statement is a simple statement unreachable (the rule then only looks at the normal path).  A node of a
    finally copy that has no normal successor at all does not "fall through" anywhere: its 'exc' edges are the
    continuation of the pending exception (or it is a `raise`) and are kept."""
    s = {n.id for n in g.nodes if n.copy and any(lab != "exc" for _, lab in g.succ[n.id])}

    def ok(a, b, lab):
        return not (a in s and lab == "exc")
    return ok
