"""C23 -- Connection transactions and savepoints (typestate of Root/NestedTransaction)."""

from __future__ import annotations

import ast

from ..astutil import (
    attr_stores, call_name, calls_in, dotted, enclosing_try, guard_atoms, lexical_guards, name_stores, parent_map,
    test_atoms, unparse, walk_local,
)
from ..cfg import no_exc
from ..report import Registry, sub, chain
from ._helpers_rules_c import (
    attr_store_sites, both, call_nodes, calls_ending, cut_edges, cut_exc_out, must_pass, own_calls, quiet,
    rcfg, receiver_class, reraise_view, test_edges, trivial_predicates,
)
from ._helpers_rob_a import fin_quiet, normal_form, transitive_owners
from ._helpers_str_l import contradicted

R = Registry(
    "C23",
    title="Connection transactions and savepoints have nested-transaction semantics",
    decides=(
        "typestate shape of Root/Nested/TwoPhaseTransaction: commit acts only while is_active and raises "
        "otherwise; _close_impl rolls back only while active and deactivates on every exit; a failed COMMIT "
        "keeps the transaction current (rollback still required) while a successful one clears it; savepoints "
        "are linked, cancelled recursively and unlinked by their owner only; Connection._transaction / "
        "_nested_transaction have a closed writer set; the context manager commits only on clean exit, rolls "
        "back when commit fails and always restores the enclosing context; commit/rollback/close delegate to "
        "their _do_* hook."
    ),
    not_decided="data visible to other connections (backend); autobegin timing; Connection.begin_nested preconditions.",
)

ENG = "engine/base.py"
UTIL = "engine/util.py"
EXC = lambda a, b, lab: lab == "exc"  # noqa: E731
NOEXC_START = lambda a, b, lab: lab != "exc"  # noqa: E731


def _stores(g, fnode, target_pred, value_pred=None):
    out = []
    for d, t, st in attr_stores(fnode):
        if target_pred(d) and isinstance(st, (ast.Assign, ast.AnnAssign)):
            if value_pred is None or value_pred(st.value):
                out.extend(g.nodes_for(st))
    return out


def _is_const(v, val):
    return isinstance(v, ast.Constant) and v.value is val


def _nf(ctx, key, *keep, alias="all"):
    """The anchored function in refactoring-robust normal form (extracted helpers inlined, single-assignment
    locals resolved; see _helpers_rob_a).  `keep`: the callee names the rule recognises by name."""
    return normal_form(ctx, ctx.func(key), keep=keep, alias=alias)


def _facts(flags=None, objs=None):
    """Truth assignment for guard atoms; for an object-valued atom the `x is None` spelling is fixed as well."""
    out = dict(flags or {})
    for atom, val in (objs or {}).items():
        out[atom] = val
        out[atom + " is None"] = not val
    return out


def _feasible(f, g, facts):
    """edge_ok: branch edges that are impossible while `facts` (state at entry) hold are cut -- three-valued, so
    any other atom of a guard stays undecided.  A test that can run after a visible store to one of the fact
    attributes is left alone (the fact may be stale there)."""
    heads = {a[:-8] if a.endswith(" is None") else a for a in facts}
    stores = [n for d, t, st in attr_stores(f.node) if d in heads for n in g.nodes_for(st)]
    stale = g.reachable(stores) if stores else set()
    return cut_edges([e for e in contradicted(g, facts) if e[0] not in stale])


def _effect_owed(ctx, f, g, eff, facts, key, msg, ok):
    """T-GUARD, the other direction (whitelist): when every documented precondition of the database call holds,
    no further condition may route a normal completion around it."""
    w = must_pass(g, [g.entry], [g.exit], eff, edge_ok=both(no_exc, _feasible(f, g, facts)))
    ctx.check(w is None, key, msg, ok, f.loc, w)


def _effect_needs(f, g, eff, facts):
    """Is the database call unreachable when `facts` hold at entry?"""
    return not (set(eff) & g.reachable([g.entry], edge_ok=_feasible(f, g, facts)))


# ---------------------------------------------------------------------- C23-R1 (shared with C27-R4)
EFFECT = {
    f"{ENG}::RootTransaction._do_commit": ("_connection_commit_impl", "_commit_impl", "_commit_twophase_impl"),
    f"{ENG}::NestedTransaction._do_commit": ("_release_savepoint_impl",),
}
CURRENT_ATTR = {
    f"{ENG}::RootTransaction._do_commit": "_transaction",
    f"{ENG}::NestedTransaction._do_commit": "_nested_transaction",
}


def commit_requires_active(ctx):
    for key, effects in EFFECT.items():
        f = _nf(ctx, key, *effects, "_invalid_transaction", "_deactivate_from_connection")
        g = ctx.cfg(f)
        eff = calls_ending(g, *effects)
        ctx.require(eff, f"no database-effect call ({'/'.join(effects)}) in {key}")
        bad = [n for n in eff if ("self.is_active", True) not in guard_atoms(g.edge_guards(n))]
        ctx.check(not bad, key + ":effect-guarded",
                  "the COMMIT / RELEASE SAVEPOINT call is not control-dependent on self.is_active "
                  "(an ended transaction would act on the database again)",
                  "effect only under `self.is_active`", f.loc,
                  [g.nodes[n].describe() for n in bad] or None)
        _effect_owed(ctx, f, g, eff, _facts({"self.is_active": True}), key + ":effect-owed",
                     "an active transaction can complete commit() without the COMMIT / RELEASE SAVEPOINT call: a condition "
                     "other than self.is_active routes around the database effect (the work is reported committed but "
                     "is not)",
                     "self.is_active => the effect call is on every normal path")
        inactive = test_edges(g, lambda t, p: t == "self.is_active" and p is False)
        ctx.require(inactive, f"no `if self.is_active` branch in {key}")
        r = g.reachable([b for _, _, b in inactive])
        w = g.witness([b for _, _, b in inactive], [g.exit]) if g.exit in r else None
        ctx.check(g.exit not in r and not (set(eff) & r), key + ":inactive-raises",
                  "commit() on an inactive transaction can return normally (or still reach the database call) "
                  "instead of raising",
                  "inactive branch always raises", f.loc, g.describe_path(w) if w else None)
        # still the connection's current transaction (e.g. failed COMMIT / invalidated): _invalid_transaction
        attr = CURRENT_ATTR[key]
        cur = test_edges(g, lambda t, p: t == f"self.connection.{attr} is self" and p is True)
        cur = [e for e in cur if e[2] in r or e[0] in r]
        inv = calls_ending(g, "_invalid_transaction")
        w = None
        if cur and inv:
            w = must_pass(g, [b for _, _, b in cur], [g.exit, g.raise_exit], inv)
        ctx.check(bool(cur) and bool(inv) and w is None, key + ":still-current",
                  f"an inactive transaction that is still the connection's {attr} does not raise through "
                  "connection._invalid_transaction() (`Can't reconnect until invalid transaction is rolled back`)",
                  "inactive but current -> _invalid_transaction()", f.loc, w)


@R.rule("C23-R1", floor=8, template="T-GUARD",
        desc="Root/NestedTransaction._do_commit: the database-effect call is control-dependent on "
             "self.is_active and on nothing else (an active transaction always reaches it); the inactive branch "
             "always raises (via _invalid_transaction when still current)")
def r1(ctx):
    commit_requires_active(ctx)


# ---------------------------------------------------------------------- C23-R2
@R.rule("C23-R2", floor=13, template="T-PATH/T-GUARD",
        desc="_close_impl: rollback while active and only then (the guard of the database call is exactly the "
             "documented activity conditions), deactivation on every exit; "
             "RootTransaction._do_commit: finally cancels savepoints and deactivates, "
             "connection._transaction is cleared only when COMMIT succeeded")
def r2(ctx):
    # ---- RootTransaction._close_impl
    f = _nf(ctx, f"{ENG}::RootTransaction._close_impl", "_connection_rollback_impl", "_rollback_impl",
            "_deactivate_from_connection", "_cancel")
    g = ctx.cfg(f)
    rb = calls_ending(g, "_connection_rollback_impl", "_rollback_impl")
    ctx.require(rb, "no rollback call in RootTransaction._close_impl")
    bad = [n for n in rb if ("self.is_active", True) not in guard_atoms(g.edge_guards(n))]
    ctx.check(not bad, f.key + ":rollback-guarded", "ROLLBACK is emitted although the transaction is not active",
              "rollback only under `self.is_active`", f.loc)
    _effect_owed(ctx, f, g, rb, _facts({"self.is_active": True}), f.key + ":rollback-owed",
                 "an active transaction can be closed / rolled back without the ROLLBACK call: a condition other than "
                 "self.is_active routes around the database effect (the work stays in the database transaction and a "
                 "later commit on the connection publishes it)",
                 "self.is_active => ROLLBACK is on every normal path")
    deact = call_nodes(g, lambda nm, c: nm == "self._deactivate_from_connection")
    was_inactive = test_edges(g, lambda t, p: t == "self.is_active" and p is False)
    w = must_pass(g, [g.entry], [g.exit, g.raise_exit], deact, edge_ok=both(fin_quiet(g), cut_edges(was_inactive))) if deact else ["no _deactivate_from_connection()"]
    ctx.check(w is None, f.key + ":deactivate-all-exits",
              "an exit of _close_impl (normal or exceptional) leaves an active transaction active",
              "_deactivate_from_connection() on every exit of an active transaction", f.loc, w if deact else None)
    clr = _stores(g, f.node, lambda d: d == "self.connection._transaction", lambda v: _is_const(v, None))
    not_current = test_edges(g, lambda t, p: t == "self.connection._transaction is self" and p is False)
    w = must_pass(g, [g.entry], [g.exit, g.raise_exit], clr, edge_ok=both(fin_quiet(g), cut_edges(not_current))) if clr else ["never cleared"]
    ctx.check(w is None, f.key + ":transaction-cleared",
              "an exit of _close_impl leaves the closed transaction installed as connection._transaction "
              "(in_transaction() would stay True, begin() would fail)",
              "connection._transaction = None on every exit while it is this transaction", f.loc, w if clr else None)
    # ---- NestedTransaction._close_impl
    f = _nf(ctx, f"{ENG}::NestedTransaction._close_impl", "_rollback_to_savepoint_impl", "_deactivate_from_connection")
    g = ctx.cfg(f)
    rb = calls_ending(g, "_rollback_to_savepoint_impl")
    ctx.require(rb, "no ROLLBACK TO SAVEPOINT call in NestedTransaction._close_impl")
    # the documented preconditions of ROLLBACK TO SAVEPOINT: this savepoint is active, the connection has a root
    # transaction, the root is active.  Each of them is necessary (the call is unreachable when one is false) ...
    needs = [
        _facts({"self.is_active": False}),
        _facts(None, {"self.connection._transaction": False}),
        _facts({"self.connection._transaction.is_active": False}, {"self.connection._transaction": True}),
    ]
    bad = [fa for fa in needs if not _effect_needs(f, g, rb, fa)]
    ctx.check(not bad, f.key + ":rollback-guarded",
              "ROLLBACK TO SAVEPOINT is emitted although the savepoint or its enclosing transaction is not active "
              f"(reachable with {'; '.join(', '.join(f'{a}={v}' for a, v in sorted(fa.items()) if not a.endswith(' is None')) for fa in bad)})",
              "rollback only while savepoint and root are active", f.loc)
    # ... and together they are sufficient: no further conjunct may skip the database effect of an active savepoint
    _effect_owed(ctx, f, g, rb,
                 _facts({"self.is_active": True, "self.connection._transaction.is_active": True},
                        {"self.connection._transaction": True}),
                 f.key + ":rollback-owed",
                 "an active savepoint of an active transaction can be rolled back / closed without ROLLBACK TO SAVEPOINT: "
                 "a condition other than `is_active`, `connection._transaction` and `connection._transaction.is_active` "
                 "routes around the database effect (e.g. an enclosing savepoint rolled back while an inner one is "
                 "outstanding emits no SQL; its work is committed with the outer transaction)",
                 "savepoint active and root active => ROLLBACK TO SAVEPOINT is on every normal path")
    off = _stores(g, f.node, lambda d: d == "self.is_active", lambda v: _is_const(v, False))
    w = must_pass(g, [g.entry], [g.exit, g.raise_exit], off, edge_ok=fin_quiet(g)) if off else ["is_active never set False"]
    ctx.check(w is None, f.key + ":inactive-all-exits",
              "an exit of _close_impl (e.g. a failing ROLLBACK TO SAVEPOINT) leaves the savepoint active",
              "is_active = False on every exit", f.loc, w if off else None)
    # ---- RootTransaction._do_commit
    f = _nf(ctx, f"{ENG}::RootTransaction._do_commit", "_connection_commit_impl", "_commit_impl",
            "_deactivate_from_connection", "_cancel", "_invalid_transaction")
    g = ctx.cfg(f)
    cm = calls_ending(g, "_connection_commit_impl", "_commit_impl")
    ctx.require(cm, "no commit call in RootTransaction._do_commit")
    deact = call_nodes(g, lambda nm, c: nm == "self._deactivate_from_connection")
    w = g.must_pass(cm, [g.exit, g.raise_exit], deact, edge_ok=fin_quiet(g)) if deact else ["no _deactivate_from_connection()"]
    ctx.check(w is None, f.key + ":deactivate-all-exits",
              "after COMMIT was attempted an exit (success or failure) leaves the transaction active",
              "finally: _deactivate_from_connection()", f.loc, w if deact else None)
    cancel = call_nodes(g, lambda nm, c: nm.endswith("_nested_transaction._cancel"))
    none_nested = test_edges(g, lambda t, p: t == "self.connection._nested_transaction" and p is False)
    w = g.must_pass(cm, [g.exit, g.raise_exit], cancel, edge_ok=both(fin_quiet(g), cut_edges(none_nested))) if cancel else ["no _cancel()"]
    ctx.check(w is None, f.key + ":savepoints-cancelled",
              "after COMMIT was attempted an exit leaves savepoints of this transaction active",
              "finally: _nested_transaction._cancel()", f.loc, w if cancel else None)
    clr = _stores(g, f.node, lambda d: d == "self.connection._transaction", lambda v: _is_const(v, None))
    ctx.require(clr, "RootTransaction._do_commit never clears connection._transaction")
    failing = g.reachable(cm, edge_ok=None) if False else set()
    # nodes reachable after the commit call raised
    after_fail = set()
    for n in cm:
        after_fail |= g.reachable([b for b, lab in g.succ[n] if lab == "exc"])
    ctx.check(not (set(clr) & after_fail), f.key + ":kept-on-failure",
              "connection._transaction is cleared although COMMIT failed: the connection would report no "
              "transaction while the database still has one (rollback is skipped)",
              "a failed COMMIT leaves the transaction installed", f.loc)
    w = g.must_pass(cm, [g.exit], clr, edge_ok=no_exc)
    ctx.check(w is None, f.key + ":cleared-on-success",
              "a successful COMMIT can leave the finished transaction installed as connection._transaction",
              "commit ok -> connection._transaction = None", f.loc, w)
    # ---- NestedTransaction._do_commit
    f = _nf(ctx, f"{ENG}::NestedTransaction._do_commit", "_release_savepoint_impl", "_deactivate_from_connection",
            "_invalid_transaction")
    g = ctx.cfg(f)
    rel = calls_ending(g, "_release_savepoint_impl")
    ctx.require(rel, "no RELEASE SAVEPOINT call in NestedTransaction._do_commit")
    off = _stores(g, f.node, lambda d: d == "self.is_active", lambda v: _is_const(v, False))
    w = g.must_pass(rel, [g.exit, g.raise_exit], off, edge_ok=fin_quiet(g)) if off else ["is_active never set False"]
    ctx.check(w is None, f.key + ":inactive-all-exits",
              "after RELEASE SAVEPOINT was attempted an exit leaves the savepoint active (it would emit SQL again on rollback)",
              "finally: is_active = False", f.loc, w if off else None)
    deact = call_nodes(g, lambda nm, c: nm == "self._deactivate_from_connection")
    after_fail = set()
    for n in rel:
        after_fail |= g.reachable([b for b, lab in g.succ[n] if lab == "exc"])
    w = g.must_pass(rel, [g.exit], deact, edge_ok=no_exc) if deact else ["no _deactivate_from_connection()"]
    ctx.check(w is None and not (set(deact) & after_fail), f.key + ":unlink-only-on-success",
              "the savepoint is unlinked from the connection when RELEASE failed, or stays linked when it succeeded",
              "release ok -> _deactivate_from_connection(); release failed -> stays linked", f.loc, w if deact else None)


# ---------------------------------------------------------------------- C23-R3
TRANSACTION_WRITERS = {
    f"{ENG}::Connection.__init__:_transaction": "initial state: no transaction",
    f"{ENG}::Connection.__init__:_nested_transaction": "initial state: no savepoint",
    f"{ENG}::Connection.begin:_transaction": "re-binds the RootTransaction that has just published itself in its __init__ (same object)",
    f"{ENG}::RootTransaction.__init__:_transaction": "publishes itself after BEGIN succeeded",
    f"{ENG}::RootTransaction._close_impl:_transaction": "clears itself on close / rollback",
    f"{ENG}::RootTransaction._do_commit:_transaction": "clears itself after a successful COMMIT",
    f"{ENG}::NestedTransaction.__init__:_nested_transaction": "publishes itself after SAVEPOINT succeeded",
    f"{ENG}::NestedTransaction._deactivate_from_connection:_nested_transaction": "restores the previous savepoint",
}


def _receiver_class(ix, m, st, recv, depth=0):
    """receiver_class, followed through a single-assignment local alias (`conn = self.connection`)."""
    rc = receiver_class(ix, m, st, recv)
    if rc is not None or depth > 2:
        return rc
    head, _, rest = recv.partition(".")
    pm = m.parents()
    fn = pm.get(st)
    while fn is not None and not isinstance(fn, (ast.FunctionDef, ast.AsyncFunctionDef)):
        fn = pm.get(fn)
    if fn is None or not head.isidentifier():
        return None
    defs = [v for x in walk_local(fn) if isinstance(x, ast.Assign) and len(x.targets) == 1
            and isinstance(x.targets[0], ast.Name) and x.targets[0].id == head for v in [x.value]]
    stores = [x for x in walk_local(fn) if isinstance(x, ast.Name) and x.id == head and isinstance(x.ctx, (ast.Store, ast.Del))]
    if len(defs) != 1 or len(stores) != 1 or dotted(defs[0]) is None or "()" in dotted(defs[0]):
        return None
    return _receiver_class(ix, m, st, dotted(defs[0]) + ("." + rest if rest else ""), depth + 1)


@R.rule("C23-R3", floor=8, template="T-OWN",
        desc="Connection._transaction / _nested_transaction are written only by the transaction classes "
             "and Connection.__init__/begin")
def r3(ctx):
    ix = ctx.index
    conn = ix.cls(f"{ENG}::Connection")
    n = 0
    for attr in ("_transaction", "_nested_transaction"):
        seen = set()
        for owner, d, st, m in attr_store_sites(ix, attr):
            recv = d.rsplit(".", 1)[0] if not d.startswith("setattr:") else None
            rc = _receiver_class(ix, m, st, recv) if recv else None
            ctx.require(rc is not None,
                        f"cannot determine the class of `{recv}` in `{unparse(st).splitlines()[0]}` ({owner}); "
                        f"add an annotation-aware case or an exception entry")
            if not (rc is conn or ix.is_subclass(rc, conn)):
                continue  # same attribute name on an unrelated class (Session, asyncpg adapter)
            key = f"{owner}:{attr}"
            if key in seen:
                continue
            if key not in TRANSACTION_WRITERS:
                # a private helper all of whose callers are listed writers acts for them (extracted helper)
                listed = {k.rsplit(":", 1)[0] for k in TRANSACTION_WRITERS if k.endswith(":" + attr)}
                acts_for = transitive_owners(ix, owner, listed)
                if acts_for:
                    for o in acts_for:
                        k2 = f"{o}:{attr}"
                        if k2 not in seen:
                            seen.add(k2)
                            n += 1
                            ctx.ok(k2, TRANSACTION_WRITERS[k2] + f" (through its private helper {owner.split('::')[1]})",
                                   nontrivial=False)
                    continue
            seen.add(key)
            n += 1
            ctx.check(key in TRANSACTION_WRITERS, key,
                      f"`{unparse(st).splitlines()[0]}` writes Connection.{attr} outside the transaction state machine",
                      TRANSACTION_WRITERS.get(key, ""), f"{m.path}:{st.lineno}", nontrivial=False)
    ctx.require(n, "no writer of Connection._transaction found")


# ---------------------------------------------------------------------- C23-R4
@R.rule("C23-R4", floor=6, template="T-PATH",
        desc="TransactionalContext.__exit__: commit only when no exception is in flight; a failing commit "
             "rolls back before re-raising; the exceptional arm rolls back / closes; the enclosing "
             "_trans_context_manager is restored on every exit of both arms, with the value __enter__ saved "
             "(def-use: read before the slot is cleared; __enter__ saves before it overwrites)")
def r4(ctx):
    f = _nf(ctx, f"{UTIL}::TransactionalContext.__exit__", "commit", "rollback", "close", "_transaction_is_active",
            "_rollback_can_be_called", "_transaction_is_closed")
    g = rcfg(ctx, f, strict_exc=True)
    triv = trivial_predicates(ctx, f)(g)
    ctx.require(len(f.params) >= 2, "__exit__ lost its exception-type parameter")
    typ = f.params[1]
    cm = call_nodes(g, lambda nm, c: nm == "self.commit")
    rb = call_nodes(g, lambda nm, c: nm == "self.rollback")
    cl = call_nodes(g, lambda nm, c: nm == "self.close")
    ctx.require(cm, "no self.commit() in TransactionalContext.__exit__")
    bad = []
    for n in cm:
        atoms = guard_atoms(g.edge_guards(n))
        if (f"{typ} is None", True) not in atoms or ("self._transaction_is_active()", True) not in atoms:
            bad.append(n)
    ctx.check(not bad, f.key + ":commit-guarded",
              f"commit() is reachable while an exception is in flight ({typ} is not None) or the transaction is inactive",
              f"commit only under `{typ} is None and _transaction_is_active()`", f.loc)
    cannot = test_edges(g, lambda t, p: t == "self._rollback_can_be_called()" and p is False)
    w = g.must_pass(cm, [g.raise_exit], rb, edge_ok=both(quiet(g), triv, cut_edges(cannot)), start_edge_ok=EXC) if rb else ["no rollback()"]
    ctx.check(w is None, f.key + ":commit-failure-rolls-back",
              "an exception raised by commit() leaves the block without rollback(): the failed transaction stays open",
              "commit raises -> rollback() -> re-raise", f.loc, w if rb else None)
    main = [n.id for n in g.nodes if n.kind == "test" and any(x is n.stmt for x in _enclosing_if_of(g, cm))]
    ctx.require(main, "cannot find the branch that guards commit()")
    other = [b for t in main for b, lab in g.succ[t] if lab == "false"]
    closed = test_edges(g, lambda t, p: t == "self._transaction_is_closed()" and p is True)
    w = must_pass(g, other, [g.exit], rb + cl, edge_ok=both(no_exc, cut_edges(cannot + closed)))
    ctx.check(w is None, f.key + ":error-arm-ends-transaction",
              "leaving the block with an exception (or an inactive transaction) can skip both rollback() and close()",
              "exceptional arm -> rollback() / close()", f.loc, w)
    restore, restore_stmts, reads = [], [], []
    for d, t, st in attr_stores(f.node):
        if d.endswith("._trans_context_manager") and isinstance(st, ast.Assign):
            rd = _reads_feeding(f, g, st, "_outer_trans_ctx")
            if rd:
                restore.extend(g.nodes_for(st))
                restore_stmts.append(st)
                reads.extend(rd)
    # the restore may be skipped only on the outcome of its own innermost guard (out-of-band __exit__)
    pm = f.pm
    skip_atoms = set()
    for st in restore_stmts:
        if True:
            gs = lexical_guards(pm, st, stop=f.node)
            # (a flag local or, once the flag is resolved to its definition, a call-free condition on the subject)
            if gs and not any(isinstance(x, ast.Call) for x in ast.walk(gs[-1][0])):
                skip_atoms |= set(test_atoms(gs[-1][0], not gs[-1][1]))
    oob = test_edges(g, lambda t, p: (t, p) in skip_atoms)
    starts = [b for t in main for b, lab in g.succ[t] if lab in ("true", "false")]
    w = must_pass(g, starts, [g.exit, g.raise_exit], restore, edge_ok=both(quiet(g), triv, fin_quiet(g), cut_edges(oob))) if restore else ["never restored"]
    ctx.check(w is None, f.key + ":context-restored",
              "an exit of __exit__ leaves subject._trans_context_manager pointing at the finished context "
              "(later use raises `Can't operate on closed transaction inside context manager`)",
              "finally: subject._trans_context_manager = self._outer_trans_ctx on both arms", f.loc, w if restore else None)
    # def-use: what is put back is the context saved by __enter__ -- the read of self._outer_trans_ctx that feeds
    # the restore is not preceded by a store to that attribute in __exit__ (it is cleared for the next use only
    # afterwards)
    kills = [n for d, t, st in attr_stores(f.node) if d == "self._outer_trans_ctx" for n in g.nodes_for(st)]
    after_kill = g.reachable(kills, include_starts=False) if kills else set()
    late = sorted(n for n in set(reads) if n in after_kill)
    ctx.check(bool(reads) and not late, f.key + ":restored-value-is-outer",
              "the value written back to subject._trans_context_manager is read from self._outer_trans_ctx after __exit__ "
              "itself has overwritten that attribute: the enclosing context manager is lost (after an inner "
              "`with conn.begin_nested():` the connection no longer knows the enclosing `with conn.begin():` -- use of an "
              "ended outer transaction inside its block is no longer refused)",
              "self._outer_trans_ctx is read for the restore before it is cleared", f.loc,
              (g.describe_path(g.witness(kills, late) or late) if late else None))
    # the mirror image in __enter__: the enclosing context is saved before the subject's slot is overwritten
    fe = _nf(ctx, f"{UTIL}::TransactionalContext.__enter__", "_get_subject")
    ge = ctx.cfg(fe)
    saved = []
    for d, t, st in attr_stores(fe.node):
        if d == "self._outer_trans_ctx" and isinstance(st, ast.Assign):
            saved.extend(_reads_feeding(fe, ge, st, "_trans_context_manager"))
    over = [n for d, t, st in attr_stores(fe.node) if d.endswith("._trans_context_manager") for n in ge.nodes_for(st)]
    ctx.require(over, "TransactionalContext.__enter__ does not install itself as subject._trans_context_manager")
    after_over = ge.reachable(over, include_starts=False)
    late = sorted(n for n in set(saved) if n in after_over)
    ctx.check(bool(saved) and not late, fe.key + ":outer-saved-before-overwrite",
              "__enter__ " + ("reads subject._trans_context_manager for self._outer_trans_ctx after it has installed itself there: "
                              "the context manager records itself as its own enclosing context" if saved else
                              "does not save subject._trans_context_manager in self._outer_trans_ctx") +
              " (the enclosing `with` block's context is lost when this one exits)",
              "subject._trans_context_manager is read into self._outer_trans_ctx before it is overwritten", fe.loc,
              ge.describe_path(late) if late else None)


def _reads_feeding(f, g, st, attr):
    """CFG nodes at which `<x>.<attr>` is read for the value stored by the assignment `st`: the assignment itself
    (`a.b = self.<attr>`) or the definitions of the local it stores that reach it (`v = self.<attr>` ...
    `a.b = v`: the value is as old as the read).  [] when the stored value is not such a read."""
    v = st.value
    if (dotted(v) or "").endswith("." + attr):
        return list(g.nodes_for(st))
    if not isinstance(v, ast.Name):
        return []
    defs = [(val, s2) for nm, val, s2 in name_stores(f.node) if nm == v.id]
    use = set(g.nodes_for(st))
    out = []
    for val, s2 in defs:
        mine = list(g.nodes_for(s2))
        others = [n for _, s3 in defs if s3 is not s2 for n in g.nodes_for(s3)]
        if mine and use & g.reachable(mine, avoid=others, include_starts=False):
            if val is None or not (dotted(val) or "").endswith("." + attr):
                return []
            out += mine
    return out


def _enclosing_if_of(g, nodes):
    """If statements (view copies included) whose true branch leads to `nodes` first."""
    out = []
    for t in g.nodes:
        if t.kind != "test" or not isinstance(t.stmt, ast.If):
            continue
        tb = [b for b, lab in g.succ[t.id] if lab == "true"]
        fb = [b for b, lab in g.succ[t.id] if lab == "false"]
        if set(nodes) & g.reachable(tb, edge_ok=no_exc) and not (set(nodes) & g.reachable(fb, edge_ok=no_exc)):
            out.append(t.stmt)
    return out[:1]


# ---------------------------------------------------------------------- C23-R5
@R.rule("C23-R5", floor=3, template="T-PATH",
        desc="NestedTransaction.__init__ links _previous_nested before publishing itself; _cancel recurses "
             "through _previous_nested; _deactivate_from_connection restores the previous savepoint")
def r5(ctx):
    f = _nf(ctx, f"{ENG}::NestedTransaction.__init__", "_savepoint_impl")
    g = ctx.cfg(f)
    cparam = f.params[1]
    link = _stores(g, f.node, lambda d: d == "self._previous_nested",
                   lambda v: dotted(v) in (f"{cparam}._nested_transaction", "self.connection._nested_transaction"))
    pub = _stores(g, f.node, lambda d: d in (f"{cparam}._nested_transaction", "self.connection._nested_transaction"),
                  lambda v: isinstance(v, ast.Name) and v.id == "self")
    ctx.require(pub, "NestedTransaction.__init__ does not publish itself on the connection")
    w = None
    for n in pub:
        w = w or g.always_preceded(n, link)
    sp = calls_ending(g, "_savepoint_impl")
    w2 = None
    for n in pub:
        w2 = w2 or (g.always_preceded(n, sp) if sp else ["no _savepoint_impl()"])
    ctx.check(bool(link) and w is None and w2 is None, f.key,
              "the new savepoint publishes itself before remembering the previous one (or before SAVEPOINT succeeded): "
              "the chain of enclosing savepoints is lost",
              "SAVEPOINT -> _previous_nested = connection._nested_transaction -> publish", f.loc, w or w2)
    f = _nf(ctx, f"{ENG}::NestedTransaction._cancel", "_deactivate_from_connection", "_cancel")
    g = ctx.cfg(f)
    off = _stores(g, f.node, lambda d: d == "self.is_active", lambda v: _is_const(v, False))
    deact = call_nodes(g, lambda nm, c: nm == "self._deactivate_from_connection")
    rec = call_nodes(g, lambda nm, c: nm == "self._previous_nested._cancel")
    no_prev = test_edges(g, lambda t, p: t == "self._previous_nested" and p is False)
    # a path on which the savepoint is already inactive owes no `is_active = False` -- but it still owes the
    # unlink and the recursion: an inactive savepoint can still be linked (failed RELEASE, out-of-order rollback)
    already_off = test_edges(g, lambda t, p: t == "self.is_active" and p is False)
    w, missing = None, []
    for through, what, cuts in ((off, "is_active = False", no_prev + already_off),
                                (deact, "_deactivate_from_connection()", []),
                                (rec, "_previous_nested._cancel()", no_prev)):
        if not through:
            missing.append(what)
            w = w or [f"missing: {what}"]
        else:
            w1 = must_pass(g, [g.entry], [g.exit], through, edge_ok=both(no_exc, cut_edges(cuts)))
            if w1 is not None:
                missing.append(what)
                w = w or w1
    ctx.check(w is None, f.key,
              "_cancel can return without " + " / ".join(missing) + ": when the root transaction ends, this savepoint "
              "(or an enclosing one) stays linked as connection._nested_transaction or stays active",
              "is_active=False, unlink, recurse into _previous_nested", f.loc, w)
    f = _nf(ctx, f"{ENG}::NestedTransaction._deactivate_from_connection")
    g = ctx.cfg(f)
    back = _stores(g, f.node, lambda d: d == "self.connection._nested_transaction", lambda v: dotted(v) == "self._previous_nested")
    bad = [n for n in back if ("self.connection._nested_transaction is self", True) not in guard_atoms(g.edge_guards(n))]
    other = [n for d, t, st in attr_stores(f.node) if d == "self.connection._nested_transaction" for n in g.nodes_for(st) if n not in back]
    ctx.check(bool(back) and not bad and not other, f.key,
              "_deactivate_from_connection does not restore the previous savepoint exactly when this one is current",
              "if current: connection._nested_transaction = self._previous_nested", f.loc)


# ---------------------------------------------------------------------- C23-R6
@R.rule("C23-R6", floor=3, template="T-SIBLING",
        desc="Transaction.commit / rollback / close each delegate to the matching _do_* hook on every path")
def r6(ctx):
    for name in ("commit", "rollback", "close"):
        f = _nf(ctx, f"{ENG}::Transaction.{name}", "_do_commit", "_do_rollback", "_do_close")
        g = ctx.cfg(f)
        hooks = {call_name(c) for c in calls_in(f.node) if (call_name(c) or "").startswith("self._do_")}
        good = call_nodes(g, lambda nm, c: nm == f"self._do_{name}")
        w = must_pass(g, [g.entry], [g.exit], good, edge_ok=no_exc) if good else None
        ctx.check(hooks == {f"self._do_{name}"} and w is None, f.key,
                  f"{name}() calls {sorted(hooks) or 'no hook'} instead of exactly self._do_{name}() on every path",
                  f"-> self._do_{name}()", f.loc, w)


# ---------------------------------------------------------------------- C23-R7
# In-progress ("re-entrancy") flags of the transaction machinery: an attribute of `self` that one function sets
# to True and later -- on a path through the same function -- resets to False.  While the flag is True, code
# gated on it is switched off (`Connection._autobegin` does nothing while `__in_begin`), so a flag that survives
# the function silently disables that code for the rest of the object's life.
FLAG_SCOPE = (ENG, UTIL, "engine/default.py")


def _quiet_call(nm):
    return nm in ("isinstance", "len", "bool", "id", "type") or (nm or "").rsplit(".", 1)[-1] in (
        "_log_info", "_log_debug", "debug", "info")


def _flag_sites(ctx):
    """[(FuncInfo, flag, g, set nodes, reset nodes)] for every transient flag in FLAG_SCOPE."""
    out = []
    for rel in FLAG_SCOPE:
        m = ctx.index.module(rel)
        if "= True" not in m.source:
            continue
        for f0 in ctx.index.all_functions(m):
            def _flag_stores(fi):
                on, off = {}, {}
                for d, t, st in attr_stores(fi.node):
                    if d.startswith("self.") and d.count(".") == 1 and isinstance(st, (ast.Assign, ast.AnnAssign)):
                        if _is_const(st.value, True):
                            on.setdefault(d, []).append(st)
                        elif _is_const(st.value, False):
                            off.setdefault(d, []).append(st)
                return on, off
            on, off = _flag_stores(f0)
            if not on and not off:
                continue
            # the set / the reset may sit in an extracted helper: look at the function with its helpers inlined
            f = normal_form(ctx, f0, keep=("_handle_dbapi_exception",), alias=None)
            on, off = _flag_stores(f)
            for d in sorted(set(on) & set(off)):
                g = ctx.cfg(f)
                s_nodes = [n for st in on[d] for n in g.nodes_for(st)]
                r_nodes = [n for st in off[d] for n in g.nodes_for(st)]
                # transient = a reset is reachable after the set (if/else alternatives are configuration, not a flag)
                if not (set(r_nodes) & g.reachable(s_nodes)):
                    continue
                ctx.functions_analysed.add(f.key)
                out.append((f, d, g, on[d], s_nodes, r_nodes))
    return out


@R.rule("C23-R7", floor=4, template="T-PATH",
        desc="every in-progress flag (self.X = True ... self.X = False in one function of engine/base|util|default) "
             "is reset on every exit after it was set (finally), and nothing that can raise sits between the set "
             "and the protected region")
def r7(ctx):
    ix = ctx.index
    for f, flag, g, set_stmts, s_nodes, r_nodes in _flag_sites(ctx):
        attr = flag.split(".", 1)[1]
        readers = sorted({m.qualname for m in (f.cls.methods.values() if f.cls is not None else [])
                          if m.key != f.key and any(isinstance(x, ast.Attribute) and isinstance(x.ctx, ast.Load)
                                                    and dotted(x) == flag for x in walk_local(m.node))})
        gated = f" (read by {', '.join(readers)})" if readers else ""
        pm = parent_map(f.node)
        base_tries = {id(tr) for st in set_stmts for tr, _ in enclosing_try(pm, st)}
        rset = set(r_nodes)
        # the gap: statements executed after the set, before control enters a try statement (or reaches a reset)
        gap, todo = set(), list(s_nodes)
        while todo:
            a = todo.pop()
            for b, lab in g.succ[a]:
                if lab == "exc" or b in gap or b in rset:
                    continue
                st = g.nodes[b].stmt
                if st is not None and st in pm and any(id(tr) not in base_tries for tr, _ in enclosing_try(pm, st)):
                    continue
                if isinstance(st, ast.Try):
                    continue
                gap.add(b)
                todo.append(b)
        calm_nodes = {n.id for n in g.nodes if own_calls(n) and all(_quiet_call(call_name(c)) for c in own_calls(n))}
        calm_ok = cut_exc_out(calm_nodes)
        escaping = []
        for n in sorted((gap | set(s_nodes)) - calm_nodes):
            if g.witness([n], [g.raise_exit], avoid=rset, edge_ok=both(fin_quiet(g), calm_ok), start_edge_ok=EXC):
                escaping.append(n)
        what = sorted({unparse(c.func) for n in escaping for c in own_calls(g.nodes[n])} or
                      {g.nodes[n].describe() for n in escaping})
        ctx.check(not escaping, f"{f.key}:{attr}:nothing-raises-before-protection",
                  f"`{flag} = True` is followed by {', '.join('`' + w + '(...)`' for w in what)} outside the try/finally that resets "
                  f"the flag: if it raises, {f.qualname} is left with the flag set for the rest of the object's life and "
                  f"everything gated on it{gated} is silently disabled",
                  "the set is immediately followed by the protected region", f.loc,
                  [g.nodes[n].describe() for n in escaping] or None)
        w = must_pass(g, s_nodes, [g.exit, g.raise_exit], r_nodes,
                      edge_ok=both(fin_quiet(g), calm_ok, cut_exc_out(escaping)))
        ctx.check(w is None, f"{f.key}:{attr}:reset-on-every-exit",
                  f"an exit of {f.qualname} (normal or exceptional) after `{flag} = True` skips `{flag} = False`: the "
                  f"in-progress flag outlives the operation and everything gated on it{gated} is silently disabled",
                  f"`{flag} = False` on every exit (finally)", f.loc, w)


# ---------------------------------------------------------------------- self-test battery
R.mutant("root-commit-unguarded", ENG,
         sub("    def _do_commit(self) -> None:\n        if self.is_active:\n            assert self.connection._transaction is self\n\n            try:",
             "    def _do_commit(self) -> None:\n        if self.is_active or self.connection._transaction is self:\n            assert self.connection._transaction is self\n\n            try:"), "C23-R1")
R.mutant("root-commit-inactive-returns", ENG,
         sub("            else:\n                raise exc.InvalidRequestError(\"This transaction is inactive\")\n\n        assert not self.is_active\n        assert self.connection._transaction is not self\n\n\nclass NestedTransaction",
             "            else:\n                util.warn(\"This transaction is inactive\")\n\n        assert not self.is_active\n        assert self.connection._transaction is not self\n\n\nclass NestedTransaction"), "C23-R1")
R.mutant("nested-commit-inactive-no-invalid-transaction", ENG,
         sub("            if self.connection._nested_transaction is self:\n                self.connection._invalid_transaction()\n            else:\n                raise exc.InvalidRequestError(\n                    \"This nested transaction is inactive\"\n                )\n",
             "            raise exc.InvalidRequestError(\n                \"This nested transaction is inactive\"\n            )\n"), "C23-R1")
R.mutant("root-close-deactivate-not-in-finally", ENG,
         sub("                self.connection._nested_transaction._cancel()\n        finally:\n            if self.is_active or try_deactivate:\n                self._deactivate_from_connection()\n            if self.connection._transaction is self:\n                self.connection._transaction = None\n",
             "                self.connection._nested_transaction._cancel()\n        finally:\n            if self.connection._transaction is self:\n                self.connection._transaction = None\n        if self.is_active or try_deactivate:\n            self._deactivate_from_connection()\n"), "C23-R2")
R.mutant("root-close-rollback-unguarded", ENG,
         sub("        try:\n            if self.is_active:\n                self._connection_rollback_impl()\n", "        try:\n            self._connection_rollback_impl()\n"), "C23-R2")
R.mutant("root-commit-clears-transaction-in-finally", ENG,
         sub("                self._deactivate_from_connection()\n\n            # ...however only remove", "                self._deactivate_from_connection()\n                self.connection._transaction = None\n\n            # ...however only remove"), "C23-R2")
R.mutant("root-commit-no-cancel-nested", ENG,
         sub("                if self.connection._nested_transaction:\n                    self.connection._nested_transaction._cancel()\n\n                self._deactivate_from_connection()\n", "                self._deactivate_from_connection()\n"), "C23-R2")
R.mutant("nested-close-inactive-not-in-finally", ENG,
         sub("                self.connection._rollback_to_savepoint_impl(self._savepoint)\n        finally:\n            self.is_active = False\n\n            if deactivate_from_connection:",
             "                self.connection._rollback_to_savepoint_impl(self._savepoint)\n            self.is_active = False\n        finally:\n            if deactivate_from_connection:"), "C23-R2")
R.mutant("nested-commit-unlink-in-finally", ENG,
         sub("                self.is_active = False\n\n            # but only de-associate from connection if it succeeded\n            self._deactivate_from_connection()\n",
             "                self.is_active = False\n                self._deactivate_from_connection()\n"), "C23-R2")
R.mutant("connection-rollback-clears-transaction", ENG,
         sub("    def _rollback_impl(self) -> None:\n", "    def _rollback_impl(self) -> None:\n        self._nested_transaction = None\n"), "C23-R3")
R.mutant("connection-commit-impl-clears-transaction", ENG,
         sub("    def _commit_impl(self) -> None:\n", "    def _commit_impl(self) -> None:\n        self._transaction = None\n"), "C23-R3")
R.mutant("exit-commit-regardless-of-exception", UTIL,
         sub("        if type_ is None and self._transaction_is_active():", "        if self._transaction_is_active():"), "C23-R4")
R.mutant("exit-no-rollback-on-commit-failure", UTIL,
         sub("            except:\n                with util.safe_reraise():\n                    if self._rollback_can_be_called():\n                        self.rollback()\n            finally:",
             "            except:\n                raise\n            finally:"), "C23-R4")
R.mutant("exit-error-arm-no-rollback", UTIL,
         sub("                else:\n                    if self._rollback_can_be_called():\n                        self.rollback()\n", "                else:\n                    pass\n"), "C23-R4")
R.mutant("exit-restore-not-in-finally", UTIL,
         sub("                        self.rollback()\n            finally:\n                if not out_of_band_exit:\n                    assert subject is not None\n                    subject._trans_context_manager = self._outer_trans_ctx\n                self._trans_subject = self._outer_trans_ctx = None\n        else:",
             "                        self.rollback()\n            if not out_of_band_exit:\n                assert subject is not None\n                subject._trans_context_manager = self._outer_trans_ctx\n            self._trans_subject = self._outer_trans_ctx = None\n        else:"), "C23-R4")
R.mutant("nested-init-publish-before-link", ENG,
         sub("        self._previous_nested = connection._nested_transaction\n        connection._nested_transaction = self\n", "        connection._nested_transaction = self\n        self._previous_nested = connection._nested_transaction\n"), "C23-R5")
R.mutant("nested-cancel-no-recursion", ENG,
         sub("        self._deactivate_from_connection()\n        if self._previous_nested:\n            self._previous_nested._cancel()\n", "        self._deactivate_from_connection()\n"), "C23-R5")
R.mutant("nested-deactivate-restores-none", ENG,
         sub("            self.connection._nested_transaction = self._previous_nested\n", "            self.connection._nested_transaction = None\n"), "C23-R5")
R.mutant("transaction-commit-calls-do-close", ENG,
         sub("        try:\n            self._do_commit()\n        finally:", "        try:\n            self._do_close()\n        finally:"), "C23-R6")
R.mutant("transaction-rollback-conditional", ENG,
         sub("        try:\n            self._do_rollback()\n        finally:", "        try:\n            if self.is_active:\n                self._do_rollback()\n        finally:"), "C23-R6")
# benign refactors
R.mutant("benign-root-commit-comment-log", ENG,
         sub("            try:\n                self._connection_commit_impl()\n            finally:", "            try:\n                self.connection._log_debug(\"COMMIT\")\n                self._connection_commit_impl()\n            finally:"), None)
R.mutant("benign-exit-rename-local", UTIL, sub("out_of_band_exit", "oob", count=3), None)
R.mutant("benign-nested-init-reorder-independent", ENG,
         sub("        self.is_active = True\n        self._previous_nested = connection._nested_transaction\n", "        self._previous_nested = connection._nested_transaction\n        self.is_active = True\n"), None)

# --- C23-R7 / seeds (round 2)
BEGIN_TRY = ("        try:\n            self.engine.dialect.do_begin(self.connection)\n        except BaseException as e:\n"
             "            self._handle_dbapi_exception(e, None, None, None, None)\n        finally:\n            self.__in_begin = False\n")
TWOPHASE_TRY = ("        try:\n            self.engine.dialect.do_begin_twophase(self, transaction.xid)\n        except BaseException as e:\n"
                "            self._handle_dbapi_exception(e, None, None, None, None)\n        finally:\n            self.__in_begin = False\n")
R.mutant("twophase-flag-reset-in-else", ENG,
         sub(TWOPHASE_TRY, TWOPHASE_TRY.replace("        finally:\n", "        else:\n")), "C23-R7")
R.mutant("twophase-dispatch-after-flag-set", ENG,
         sub("        if self._has_events or self.engine._has_events:\n            self.dispatch.begin_twophase(self, transaction.xid)\n\n        self.__in_begin = True\n",
             "        self.__in_begin = True\n        if self._has_events or self.engine._has_events:\n            self.dispatch.begin_twophase(self, transaction.xid)\n\n"), "C23-R7")
# the repair of the finding: the event dispatch moves INSIDE the protected region (the flag must stay set while the
# listener runs -- a `begin` listener may execute SQL on the connection, test_emit_sql_in_autobegin)
R.mutant("benign-twophase-flag-set-inside-try", ENG,
         sub("        self.__in_begin = True\n        try:\n            self.engine.dialect.do_begin_twophase(self, transaction.xid)\n",
             "        try:\n            self.__in_begin = True\n            self.engine.dialect.do_begin_twophase(self, transaction.xid)\n"), None)
R.mutant("benign-begin-log-after-flag-set", ENG,
         sub("        self.__in_begin = True\n        try:\n            self.engine.dialect.do_begin_twophase(self, transaction.xid)\n",
             "        self.__in_begin = True\n        self._log_debug(\"begin twophase\")\n        try:\n            self.engine.dialect.do_begin_twophase(self, transaction.xid)\n"), None)
# --- C23-R5 / seed 2
R.mutant("seed2-cancel-returns-early-when-inactive", ENG,
         sub("        # without any action being taken\n        self.is_active = False\n        self._deactivate_from_connection()\n",
             "        # without any action being taken\n        if not self.is_active:\n            return\n        self.is_active = False\n        self._deactivate_from_connection()\n"), "C23-R5")
R.mutant("cancel-unlink-only-when-previous", ENG,
         sub("        self.is_active = False\n        self._deactivate_from_connection()\n        if self._previous_nested:\n            self._previous_nested._cancel()\n",
             "        self.is_active = False\n        if self._previous_nested:\n            self._deactivate_from_connection()\n            self._previous_nested._cancel()\n"), "C23-R5")
R.mutant("benign-cancel-flag-cleared-only-if-set", ENG,
         sub("        # without any action being taken\n        self.is_active = False\n        self._deactivate_from_connection()\n",
             "        # without any action being taken\n        if self.is_active:\n            self.is_active = False\n        self._deactivate_from_connection()\n"), None)

# ---------------------------------------------------------------------- rob-A: behaviour-preserving refactorings
# (families of the stored benign/rfA_*.diff + variants in the same spirit; the rules analyse the normal form of
# the anchored functions -- helpers inlined, single-assignment locals resolved -- see _helpers_rob_a)
_CANCEL2 = ("                if self.connection._nested_transaction:\n"
            "                    self.connection._nested_transaction._cancel()\n")
_CANCEL1 = ("            if self.connection._nested_transaction:\n"
            "                self.connection._nested_transaction._cancel()\n")
_CANCEL_HELPER = ("    def _cancel_savepoints(self) -> None:\n"
                  "        innermost = self.connection._nested_transaction\n"
                  "        if innermost:\n"
                  "            innermost._cancel()\n\n")
R.mutant("benign-rob-cancel-savepoints-extracted-helper", ENG,
         chain(sub(_CANCEL2, "                self._cancel_savepoints()\n"),
               sub(_CANCEL1 + "        finally:\n            if self.is_active or try_deactivate:", "            self._cancel_savepoints()\n        finally:\n            if self.is_active or try_deactivate:"),
               sub("    def _close_impl(self, try_deactivate: bool = False) -> None:\n", _CANCEL_HELPER + "    def _close_impl(self, try_deactivate: bool = False) -> None:\n")), None)
_RESTORE = ("                if not out_of_band_exit:\n"
            "                    assert subject is not None\n"
            "                    subject._trans_context_manager = self._outer_trans_ctx\n"
            "                self._trans_subject = self._outer_trans_ctx = None\n")
R.mutant("benign-rob-exit-restore-extracted-helper", UTIL,
         chain(sub(_RESTORE, "                self._restore_outer(subject, out_of_band_exit)\n", count=2),
               sub("    def __exit__(self, type_: Any, value: Any, traceback: Any) -> None:\n",
                   "    def _restore_outer(self, subject: Any, oob: bool) -> None:\n"
                   "        if not oob:\n            assert subject is not None\n"
                   "            subject._trans_context_manager = self._outer_trans_ctx\n"
                   "        self._trans_subject = self._outer_trans_ctx = None\n\n"
                   "    def __exit__(self, type_: Any, value: Any, traceback: Any) -> None:\n")), None)
# the out-of-band flag inlined into its two uses (no local at all)
R.mutant("benign-rob-exit-oob-flag-inlined", UTIL,
         chain(sub("        out_of_band_exit = (\n            subject is None or subject._trans_context_manager is not self\n        )\n", ""),
               sub("                if not out_of_band_exit:\n", "                if not (subject is None or subject._trans_context_manager is not self):\n", count=2)), None)
R.mutant("benign-rob-exit-clean-exit-flag", UTIL,
         sub("        if type_ is None and self._transaction_is_active():\n",
             "        no_error = type_ is None\n        if no_error and self._transaction_is_active():\n"), None)
# the two identical `finally` clauses merged into one around the whole if/else
R.mutant("benign-rob-exit-single-finally", UTIL,
         sub("        if type_ is None and self._transaction_is_active():\n            try:\n                self.commit()\n            except:\n"
             "                with util.safe_reraise():\n                    if self._rollback_can_be_called():\n                        self.rollback()\n"
             "            finally:\n" + _RESTORE +
             "        else:\n            try:\n                if not self._transaction_is_active():\n                    if not self._transaction_is_closed():\n"
             "                        self.close()\n                else:\n                    if self._rollback_can_be_called():\n                        self.rollback()\n"
             "            finally:\n" + _RESTORE,
             "        try:\n            if type_ is None and self._transaction_is_active():\n                try:\n                    self.commit()\n                except:\n"
             "                    with util.safe_reraise():\n                        if self._rollback_can_be_called():\n                            self.rollback()\n"
             "            elif not self._transaction_is_active():\n                if not self._transaction_is_closed():\n                    self.close()\n"
             "            elif self._rollback_can_be_called():\n                self.rollback()\n"
             "        finally:\n" + _RESTORE.replace("                ", "            ")), None)
# local alias of self.connection + early exit for the inactive case (inverted if/else)
R.mutant("benign-rob-root-commit-conn-alias-inverted", ENG,
         sub("    def _do_commit(self) -> None:\n        if self.is_active:\n            assert self.connection._transaction is self\n\n"
             "            try:\n                self._connection_commit_impl()\n            finally:\n"
             "                # whether or not commit succeeds, cancel any\n                # nested transactions, make this transaction \"inactive\"\n"
             "                # and remove it as a reset agent\n" + _CANCEL2 + "\n                self._deactivate_from_connection()\n\n"
             "            # ...however only remove as the connection's current transaction\n            # if commit succeeded.  otherwise it stays on so that a rollback\n"
             "            # needs to occur.\n            self.connection._transaction = None\n        else:\n"
             "            if self.connection._transaction is self:\n                self.connection._invalid_transaction()\n            else:\n"
             "                raise exc.InvalidRequestError(\"This transaction is inactive\")\n",
             "    def _do_commit(self) -> None:\n        conn = self.connection\n        if not self.is_active:\n"
             "            if conn._transaction is self:\n                conn._invalid_transaction()\n"
             "            raise exc.InvalidRequestError(\"This transaction is inactive\")\n\n"
             "        assert conn._transaction is self\n        try:\n            self._connection_commit_impl()\n        finally:\n"
             "            savepoint = conn._nested_transaction\n            if savepoint:\n                savepoint._cancel()\n"
             "            self._deactivate_from_connection()\n        conn._transaction = None\n"), None)
# `a and b and c` split into nested ifs through a local
R.mutant("benign-rob-nested-close-nested-ifs", ENG,
         sub("            if (\n                self.is_active\n                and self.connection._transaction\n                and self.connection._transaction.is_active\n            ):\n"
             "                self.connection._rollback_to_savepoint_impl(self._savepoint)\n",
             "            if self.is_active:\n                root = self.connection._transaction\n                if root and root.is_active:\n"
             "                    self.connection._rollback_to_savepoint_impl(self._savepoint)\n"), None)
# the `clear myself from the connection` step of _close_impl extracted (R2 follows the helper, R3: a private helper
# whose only caller is a listed writer acts for it)
R.mutant("benign-rob-root-close-clear-helper", ENG,
         chain(sub("            if self.connection._transaction is self:\n                self.connection._transaction = None\n\n        assert not self.is_active\n",
                   "            self._detach_from_connection()\n\n        assert not self.is_active\n"),
               sub("    def _close_impl(self, try_deactivate: bool = False) -> None:\n",
                   "    def _detach_from_connection(self) -> None:\n        if self.connection._transaction is self:\n"
                   "            self.connection._transaction = None\n\n    def _close_impl(self, try_deactivate: bool = False) -> None:\n")), None)
# ... but the same helper called from a non-owner is still a foreign writer
R.mutant("rob-clear-helper-called-from-connection", ENG,
         chain(sub("            if self.connection._transaction is self:\n                self.connection._transaction = None\n\n        assert not self.is_active\n",
                   "            self._detach_from_connection()\n\n        assert not self.is_active\n"),
               sub("    def _close_impl(self, try_deactivate: bool = False) -> None:\n",
                   "    def _detach_from_connection(self) -> None:\n        if self.connection._transaction is self:\n"
                   "            self.connection._transaction = None\n\n    def prepare_detach(self) -> None:\n        self._detach_from_connection()\n\n"
                   "    def _close_impl(self, try_deactivate: bool = False) -> None:\n")), "C23-R3")
# a helper that hides the missing obligation is seen through: the savepoints are cancelled only when commit succeeded
R.mutant("rob-cancel-savepoints-helper-not-in-finally", ENG,
         chain(sub(_CANCEL2 + "\n                self._deactivate_from_connection()\n", "                self._deactivate_from_connection()\n            self._cancel_savepoints()\n"),
               sub("    def _close_impl(self, try_deactivate: bool = False) -> None:\n", _CANCEL_HELPER + "    def _close_impl(self, try_deactivate: bool = False) -> None:\n")), "C23-R2")
R.mutant("benign-rob-cancel-early-return", ENG,
         sub("        self._deactivate_from_connection()\n        if self._previous_nested:\n            self._previous_nested._cancel()\n",
             "        self._deactivate_from_connection()\n        outer = self._previous_nested\n        if not outer:\n            return\n        outer._cancel()\n"), None)
# today's text of the two C23-R7 inputs that stopped applying after the `begin` fix
R.mutant("begin-flag-reset-not-in-finally-2", ENG,
         sub("                self._handle_dbapi_exception(e, None, None, None, None)\n        finally:\n            self.__in_begin = False\n\n    def _rollback_impl",
             "                self._handle_dbapi_exception(e, None, None, None, None)\n        finally:\n            pass\n        self.__in_begin = False\n\n    def _rollback_impl"), "C23-R7")
R.mutant("benign-rob-begin-flag-reset-helper", ENG,
         chain(sub("                self._handle_dbapi_exception(e, None, None, None, None)\n        finally:\n            self.__in_begin = False\n\n    def _rollback_impl",
                   "                self._handle_dbapi_exception(e, None, None, None, None)\n        finally:\n            self._end_begin()\n\n    def _rollback_impl"),
               sub("    def _rollback_impl(self) -> None:\n", "    def _end_begin(self) -> None:\n        self.__in_begin = False\n\n    def _rollback_impl(self) -> None:\n")), None)
R.mutant("benign-rob-root-commit-finally-reordered", ENG,
         sub(_CANCEL2 + "\n                self._deactivate_from_connection()\n", "                self._deactivate_from_connection()\n" + _CANCEL2), None)

# ---------------------------------------------------------------------- str2-j: round-2 seeds (C23_3, C23_4)
# --- C23-R4 def-use of the saved outer context
_RESTORE_CLEAR_FIRST = ("                self._trans_subject = self._outer_trans_ctx = None\n"
                        "                if not out_of_band_exit:\n"
                        "                    assert subject is not None\n"
                        "                    subject._trans_context_manager = self._outer_trans_ctx\n")
R.mutant("seed3-exit-outer-cleared-before-restore", UTIL,
         sub("                        self.rollback()\n            finally:\n" + _RESTORE + "        else:",
             "                        self.rollback()\n            finally:\n" + _RESTORE_CLEAR_FIRST + "        else:"), "C23-R4")
R.mutant("exit-error-arm-outer-cleared-before-restore", UTIL,
         sub("                else:\n                    if self._rollback_can_be_called():\n                        self.rollback()\n            finally:\n" + _RESTORE,
             "                else:\n                    if self._rollback_can_be_called():\n                        self.rollback()\n            finally:\n" + _RESTORE_CLEAR_FIRST), "C23-R4")
# the same mistake hidden in the extracted helper
R.mutant("exit-restore-helper-clears-first", UTIL,
         chain(sub(_RESTORE, "                self._restore_outer(subject, out_of_band_exit)\n", count=2),
               sub("    def __exit__(self, type_: Any, value: Any, traceback: Any) -> None:\n",
                   "    def _restore_outer(self, subject: Any, oob: bool) -> None:\n"
                   "        self._trans_subject = self._outer_trans_ctx = None\n"
                   "        if not oob:\n            assert subject is not None\n"
                   "            subject._trans_context_manager = self._outer_trans_ctx\n\n"
                   "    def __exit__(self, type_: Any, value: Any, traceback: Any) -> None:\n")), "C23-R4")
# behaviour preserving: the references are released first, but the value to put back was read before
R.mutant("benign-exit-outer-snapshot-then-clear", UTIL,
         sub(_RESTORE,
             "                outer = self._outer_trans_ctx\n"
             "                self._trans_subject = self._outer_trans_ctx = None\n"
             "                if not out_of_band_exit:\n"
             "                    assert subject is not None\n"
             "                    subject._trans_context_manager = outer\n", count=2), None)
R.mutant("benign-exit-outer-snapshot-at-entry", UTIL,
         chain(sub("        subject = getattr(self, \"_trans_subject\", None)\n",
                   "        subject = getattr(self, \"_trans_subject\", None)\n        enclosing = self._outer_trans_ctx\n"),
               sub(_RESTORE, _RESTORE_CLEAR_FIRST.replace("= self._outer_trans_ctx\n", "= enclosing\n"), count=2)), None)
_ENTER = ("        trans_context = subject._trans_context_manager\n        self._outer_trans_ctx = trans_context\n\n"
          "        self._trans_subject = subject\n        subject._trans_context_manager = self\n")
R.mutant("enter-installs-before-saving-outer", UTIL,
         sub(_ENTER, "        subject._trans_context_manager = self\n        trans_context = subject._trans_context_manager\n"
                     "        self._outer_trans_ctx = trans_context\n\n        self._trans_subject = subject\n"), "C23-R4")
R.mutant("enter-saves-outer-after-install-no-local", UTIL,
         sub(_ENTER, "        self._trans_subject = subject\n        subject._trans_context_manager = self\n"
                     "        self._outer_trans_ctx = subject._trans_context_manager\n"), "C23-R4")
R.mutant("enter-never-saves-outer", UTIL,
         sub(_ENTER, "        self._outer_trans_ctx = None\n        self._trans_subject = subject\n        subject._trans_context_manager = self\n"), "C23-R4")
R.mutant("benign-enter-no-local", UTIL,
         sub(_ENTER, "        self._trans_subject = subject\n        self._outer_trans_ctx = subject._trans_context_manager\n"
                     "        subject._trans_context_manager = self\n"), None)
# the read happens before the install, the store of the value read after it: same behaviour
R.mutant("benign-enter-read-install-store", UTIL,
         sub(_ENTER, "        trans_context = subject._trans_context_manager\n        subject._trans_context_manager = self\n"
                     "        self._trans_subject = subject\n        self._outer_trans_ctx = trans_context\n"), None)
# --- C23-R2 / R1: the guard of the database call is exactly the activity conditions
_NESTED_GUARD = ("            if (\n                self.is_active\n                and self.connection._transaction\n"
                 "                and self.connection._transaction.is_active\n            ):\n"
                 "                self.connection._rollback_to_savepoint_impl(self._savepoint)\n")
R.mutant("seed4-nested-rollback-only-when-innermost", ENG,
         sub(_NESTED_GUARD, _NESTED_GUARD.replace("                self.is_active\n", "                self.is_active\n                and self.connection._nested_transaction is self\n")), "C23-R2")
R.mutant("nested-rollback-only-when-unlinking", ENG,
         sub(_NESTED_GUARD, "            if deactivate_from_connection:\n    " + _NESTED_GUARD.replace("\n            ", "\n                ").replace("\n                self.connection._rollback", "\n                    self.connection._rollback")), "C23-R2")
R.mutant("root-rollback-skipped-for-plain-close", ENG,
         sub("        try:\n            if self.is_active:\n                self._connection_rollback_impl()\n",
             "        try:\n            if self.is_active and try_deactivate:\n                self._connection_rollback_impl()\n"), "C23-R2")
R.mutant("root-rollback-skipped-when-savepoint-open", ENG,
         sub("        try:\n            if self.is_active:\n                self._connection_rollback_impl()\n",
             "        try:\n            if self.is_active:\n                if not self.connection._nested_transaction:\n                    self._connection_rollback_impl()\n"), "C23-R2")
R.mutant("benign-nested-close-inverted-guard", ENG,
         sub(_NESTED_GUARD,
             "            root = self.connection._transaction\n"
             "            if not self.is_active or root is None or not root.is_active:\n                pass\n"
             "            else:\n                self.connection._rollback_to_savepoint_impl(self._savepoint)\n"), None)
R.mutant("benign-nested-close-is-not-none", ENG,
         sub(_NESTED_GUARD, _NESTED_GUARD.replace("and self.connection._transaction\n", "and self.connection._transaction is not None\n")), None)
R.mutant("benign-root-close-active-flag-local", ENG,
         sub("        try:\n            if self.is_active:\n                self._connection_rollback_impl()\n",
             "        try:\n            active = self.is_active\n            if not active:\n                pass\n            else:\n                self._connection_rollback_impl()\n"), None)
R.mutant("nested-release-skipped-when-root-inactive", ENG,
         sub("            try:\n                self.connection._release_savepoint_impl(self._savepoint)\n",
             "            try:\n                if self.connection._transaction.is_active:\n                    self.connection._release_savepoint_impl(self._savepoint)\n"), "C23-R1")
R.mutant("root-commit-skipped-when-savepoint-open", ENG,
         sub("            try:\n                self._connection_commit_impl()\n            finally:",
             "            try:\n                if not self.connection._nested_transaction:\n                    self._connection_commit_impl()\n            finally:"), "C23-R1")
R.mutant("benign-nested-commit-inverted", ENG,
         sub("    def _do_commit(self) -> None:\n        if self.is_active:\n            try:\n                self.connection._release_savepoint_impl(self._savepoint)\n"
             "            finally:\n                # nested trans becomes inactive on failed release\n                # unconditionally.  this prevents it from trying to\n"
             "                # emit SQL when it rolls back.\n                self.is_active = False\n\n            # but only de-associate from connection if it succeeded\n"
             "            self._deactivate_from_connection()\n        else:\n            if self.connection._nested_transaction is self:\n"
             "                self.connection._invalid_transaction()\n            else:\n                raise exc.InvalidRequestError(\n"
             "                    \"This nested transaction is inactive\"\n                )\n",
             "    def _do_commit(self) -> None:\n        conn = self.connection\n        if not self.is_active:\n            if conn._nested_transaction is self:\n"
             "                conn._invalid_transaction()\n            raise exc.InvalidRequestError(\"This nested transaction is inactive\")\n"
             "        try:\n            conn._release_savepoint_impl(self._savepoint)\n        finally:\n            self.is_active = False\n"
             "        self._deactivate_from_connection()\n"), None)
