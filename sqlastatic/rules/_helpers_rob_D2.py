"""Helpers of rob-D2 (C12 / C13): idiom normalisation so that behaviour-preserving refactorings stay silent.

* single-assignment locals (aliases, snapshots, boolean locals) are resolved before names / guard atoms are compared;
* a list is described by HOW IT IS BUILT (`ListBuild`), whether that is written as a comprehension
  `x = [E for t in IT if C]`, as `x = list(E for ...)`, or as `x = []` + `for t in IT: [if C:] x.append(E)` (also through
  a bound-method alias `add = x.append`);
* guards of a statement = lexical guards + dominating CFG branch outcomes (early return / continue), with boolean
  locals expanded;
* dependency closure of an expression over the locals assigned inside a region (which inputs a value is computed from);
* a tiny straight-line interpreter for integer bookkeeping (`total = n // k + (1 if n % k else 0)`, `q, r = divmod(n, k);
  if r: q += 1`, `-(-n // k)`, `math.ceil(n / k)`), so that a formula is judged by its values, not by its spelling.

Nothing here is specific to one source text; nothing imports or runs SQLAlchemy.
"""

from __future__ import annotations

import ast
import copy
import math
from typing import Dict, Iterable, List, Optional, Sequence, Set, Tuple

from ..astutil import (
    ancestors, call_name, enclosing_stmt, lexical_guards, name_stores, test_atoms, unparse, walk_local,
)

FuncNode = (ast.FunctionDef, ast.AsyncFunctionDef, ast.Lambda)


# ---------------------------------------------------------------------- single-assignment locals
def params_of(fnode) -> List[str]:
    a = fnode.args
    out = [x.arg for x in a.posonlyargs + a.args + a.kwonlyargs]
    if a.vararg:
        out.append(a.vararg.arg)
    if a.kwarg:
        out.append(a.kwarg.arg)
    return out


def strip_cast(e):
    """cast(T, x) / typing.cast(T, x) -> x (a cast is the identity at run time)."""
    while isinstance(e, ast.Call) and (call_name(e) or "").rsplit(".", 1)[-1] == "cast" and len(e.args) == 2 and not e.keywords:
        e = e.args[1]
    return e


def single_defs(fnode) -> Dict[str, ast.expr]:
    """name -> value for the locals of `fnode` that are bound exactly once, by a plain `name = value` (or annotated)
    assignment; parameters, loop targets, augmented / tuple-unpacked / walrus-bound names are excluded."""
    count: Dict[str, int] = {}
    val: Dict[str, ast.expr] = {}
    for n, v, st in name_stores(fnode):
        count[n] = count.get(n, 0) + 1
        if v is not None and isinstance(st, (ast.Assign, ast.AnnAssign)):
            val[n] = v
    for n in ast.walk(fnode):
        if isinstance(n, (ast.Global, ast.Nonlocal)):
            for x in n.names:
                count[x] = 99
    ps = set(params_of(fnode))
    return {n: v for n, v in val.items() if count[n] == 1 and n not in ps}


def _is_pure_ref(v) -> bool:
    """Name / attribute chain / constant: reading it twice gives the same object (within one iteration)."""
    v = strip_cast(v)
    while isinstance(v, ast.Attribute):
        v = v.value
    return isinstance(v, (ast.Name, ast.Constant))


def resolve(e, defs: Dict[str, ast.expr], depth: int = 4, pure_only: bool = True):
    """Follow a local alias: Name bound once to <pure reference> (or to anything when pure_only=False)."""
    e = strip_cast(e)
    while depth > 0 and isinstance(e, ast.Name) and e.id in defs:
        v = strip_cast(defs[e.id])
        if pure_only and not _is_pure_ref(v):
            break
        e = v
        depth -= 1
    return e


class _Subst(ast.NodeTransformer):
    def __init__(self, mapping, pred):
        self.mapping = mapping
        self.pred = pred
        self.hit = False

    def visit_Name(self, node):
        if isinstance(node.ctx, ast.Load) and node.id in self.mapping and self.pred(self.mapping[node.id]):
            self.hit = True
            return copy.deepcopy(strip_cast(self.mapping[node.id]))
        return node

    def visit_Lambda(self, node):
        return node

    def visit_ListComp(self, node):
        return node

    visit_SetComp = visit_DictComp = visit_GeneratorExp = visit_ListComp


def _boolish_or_ref(v) -> bool:
    v = strip_cast(v)
    if isinstance(v, (ast.BoolOp, ast.Compare)):
        return True
    if isinstance(v, ast.UnaryOp) and isinstance(v.op, ast.Not):
        return True
    if isinstance(v, ast.Call) and call_name(v) in ("bool", "len") and len(v.args) == 1:
        return True
    return _is_pure_ref(v)


def expand(e, defs: Dict[str, ast.expr], depth: int = 3, pred=_boolish_or_ref):
    """Copy of `e` with single-assignment locals (boolean expressions, aliases, len(..) snapshots) substituted."""
    cur = copy.deepcopy(e)
    for _ in range(depth):
        s = _Subst(defs, pred)
        cur = s.visit(cur)
        if not s.hit:
            break
    return ast.fix_missing_locations(cur)


# ---------------------------------------------------------------------- guards
def guards_of(g, pm, fnode, st: ast.AST, defs: Optional[Dict[str, ast.expr]] = None) -> List[Tuple[ast.expr, bool]]:
    """Branch outcomes under which `st` executes: enclosing if/elif/else/while/ternary arms plus the CFG's dominating
    outcomes (guard clauses with return / continue / raise); tests have boolean locals and aliases expanded."""
    out = list(lexical_guards(pm, st, stop=fnode))
    stmt = st if isinstance(st, ast.stmt) else enclosing_stmt(pm, st)
    seen = {(id(t), p) for t, p in out}
    for nid in g.nodes_for(stmt)[:1]:
        for t, p in g.edge_guards(nid):
            if (id(t), p) not in seen:
                seen.add((id(t), p))
                out.append((t, p))
    if defs:
        out = [(expand(t, defs), p) for t, p in out]
    return out


def atoms_of(guards: Iterable[Tuple[ast.expr, bool]]) -> Set[Tuple[str, bool]]:
    out = set()
    for t, p in guards:
        out.update(test_atoms(t, p))
    return out


def last_component(atom: str) -> str:
    return atom.rsplit(".", 1)[-1]


# ---------------------------------------------------------------------- how a list is built
class ListBuild:
    """One way a local list gets its elements: [elt for target in iter if ifs...]."""

    def __init__(self, name, form, elt, target, iter_, ifs, stmt, holder, init=None):
        self.name = name
        self.form = form          # 'comp' | 'loop' | 'empty' | 'other'
        self.elt = elt            # element expression (None for empty / other)
        self.target = target      # iteration target
        self.iter = iter_         # iterated expression
        self.ifs = ifs            # [(test, polarity)] filters
        self.stmt = stmt          # statement that evaluates `elt`
        self.holder = holder      # statement that stands for the whole construction (the assignment / the for)
        self.init = init          # the `x = []` statement of a loop build

    def text(self) -> str:
        if self.form in ("comp", "loop"):
            cond = "".join(f" if {'' if p else 'not '}{unparse(t)[:40]}" for t, p in self.ifs)
            return f"[{unparse(self.elt)[:60]} for {unparse(self.target)} in {unparse(self.iter)[:50]}{cond}]"
        return self.form


def _is_empty_list(v) -> bool:
    v = strip_cast(v)
    if isinstance(v, (ast.List, ast.Tuple)) and not v.elts:
        return isinstance(v, ast.List)
    return isinstance(v, ast.Call) and call_name(v) == "list" and not v.args and not v.keywords


def _comp_of(v):
    v = strip_cast(v)
    if isinstance(v, ast.ListComp):
        return v
    if isinstance(v, ast.Call) and call_name(v) == "list" and len(v.args) == 1 and isinstance(v.args[0], (ast.GeneratorExp, ast.ListComp)):
        return v.args[0]
    return None


def list_builds(fnode, name: str, pm) -> Optional[List[ListBuild]]:
    """Every construction of the local list `name` in `fnode`; None when the list is changed in a way that is not
    understood (sort / insert / slice store / unknown alias ...)."""
    out: List[ListBuild] = []
    defs = single_defs(fnode)
    inits = []
    for n, v, st in name_stores(fnode):
        if n != name:
            continue
        if v is None:
            if isinstance(st, ast.AnnAssign):
                continue
            return None
        comp = _comp_of(v)
        if comp is not None:
            if len(comp.generators) != 1 or comp.generators[0].is_async:
                out.append(ListBuild(name, "other", None, None, None, [], st, st))
                continue
            gen = comp.generators[0]
            out.append(ListBuild(name, "comp", comp.elt, gen.target, gen.iter, [(c, True) for c in gen.ifs], st, st))
        elif _is_empty_list(v):
            inits.append(st)
            out.append(ListBuild(name, "empty", None, None, None, [], st, st))
        else:
            out.append(ListBuild(name, "other", None, None, None, [], st, st))
    # in-place growth: name.append(E) / alias(E) with alias = name.append
    adders = {n for n, v in defs.items() if isinstance(v, ast.Attribute) and isinstance(v.value, ast.Name)
              and v.value.id == name and v.attr == "append"}
    for c in (x for x in walk_local(fnode) if isinstance(x, ast.Call)):
        fn_ = c.func
        direct = isinstance(fn_, ast.Attribute) and isinstance(fn_.value, ast.Name) and fn_.value.id == name
        via_alias = isinstance(fn_, ast.Name) and fn_.id in adders
        if not (direct or via_alias):
            continue
        meth = fn_.attr if direct else "append"
        if meth in ("copy", "index", "count", "__len__", "__iter__", "__getitem__"):
            continue
        st = enclosing_stmt(pm, c)
        if meth != "append" or len(c.args) != 1 or c.keywords or not (isinstance(st, ast.Expr) and st.value is c):
            if meth == "extend" and len(c.args) == 1 and isinstance(st, ast.Expr) and st.value is c and _comp_of(c.args[0]) is not None:
                comp = _comp_of(c.args[0])
                if len(comp.generators) == 1:
                    gen = comp.generators[0]
                    out.append(ListBuild(name, "loop", comp.elt, gen.target, gen.iter, [(x, True) for x in gen.ifs], st, st,
                                         inits[0] if len(inits) == 1 else None))
                    continue
            return None
        # the innermost enclosing for; only plain `if` arms may lie in between
        loop, ifs, child = None, [], st
        for a in ancestors(pm, st):
            if isinstance(a, FuncNode):
                break
            if isinstance(a, (ast.For, ast.AsyncFor)):
                if any(child is x for x in a.body):
                    loop = a
                break
            if isinstance(a, ast.If):
                if any(child is x for x in a.body):
                    ifs.append((a.test, True))
                else:
                    ifs.append((a.test, False))
            elif not isinstance(a, (ast.Try, ast.With)):
                break
            child = a
        if loop is None:
            return None
        ifs.reverse()
        elt = c.args[0]
        if isinstance(elt, ast.Name) and isinstance(strip_cast(defs.get(elt.id)), ast.Tuple):
            elt = strip_cast(defs[elt.id])     # rec = (a, b, c); x.append(rec)
        out.append(ListBuild(name, "loop", elt, loop.target, loop.iter, ifs, st, loop, inits[0] if len(inits) == 1 else None))
    for n in walk_local(fnode):
        # x += [...], x[i] = ..., del x[...]
        if isinstance(n, ast.AugAssign) and isinstance(n.target, ast.Name) and n.target.id == name:
            return None
        if isinstance(n, (ast.Assign, ast.Delete)):
            for t in n.targets:
                if isinstance(t, ast.Subscript) and isinstance(t.value, ast.Name) and t.value.id == name:
                    return None
    return out


def returned_list_build(ret: ast.Return) -> Optional[List[ListBuild]]:
    """`return [E for t in IT]` / `return list(E for ...)` described like a named list"""
    comp = _comp_of(ret.value)
    if comp is None or len(comp.generators) != 1:
        return None
    gen = comp.generators[0]
    return [ListBuild("<returned>", "comp", comp.elt, gen.target, gen.iter, [(c, True) for c in gen.ifs], ret, ret)]


def loop_builds_fresh(g, builds: Sequence[ListBuild]) -> Optional[List[str]]:
    """For loop builds: every loop is entered with the list freshly emptied (its `x = []` dominates the loop and lies
    between any two fillings: neither the same loop in a later round of an outer loop nor another filling loop adds to
    left-over elements).  None when fine, else a witness path."""
    loops = [b for b in builds if b.form == "loop"]
    if not loops:
        return None
    init_nodes: List[int] = []
    for b in builds:
        if b.form == "empty":
            init_nodes.extend(g.nodes_for(b.holder))
    heads = []
    for b in loops:
        heads.extend(g.nodes_for(b.holder))
    if not init_nodes:
        return ["the list is never (re)initialised to [] before it is filled"]
    for h in heads:
        w = g.always_preceded(h, init_nodes)
        if w is not None:
            return w
    # after a filling loop was entered, no filling loop is entered (again) without passing the initialisation; the
    # loop's own back edge is of course allowed
    hs = set(heads)
    for h in heads:
        w = g.witness([h], heads, avoid=init_nodes, edge_ok=lambda a, b, l: l != "exc" and not (l == "loop" and b in hs))
        if w is not None:
            return g.describe_path(w)
    return None


# ---------------------------------------------------------------------- dependency closure
def dep_closure(fnode, region: ast.AST, exprs: Iterable[ast.AST], stop: Iterable[str] = ()) -> Set[str]:
    """Names an expression is computed from, expanding the locals that are assigned inside `region` (all of their
    bindings: a conservative may-depend relation); names in `stop` are reported but not expanded."""
    stop = set(stop)
    inside = {id(x) for x in ast.walk(region)}
    binds: Dict[str, List[ast.AST]] = {}
    for n in walk_local(fnode):
        if id(n) not in inside:
            continue
        if isinstance(n, ast.Assign):
            for t in n.targets:
                for x in ast.walk(t):
                    if isinstance(x, ast.Name):
                        binds.setdefault(x.id, []).append(n.value)
        elif isinstance(n, (ast.AnnAssign, ast.AugAssign)) and n.value is not None and isinstance(n.target, ast.Name):
            binds.setdefault(n.target.id, []).append(n.value)
        elif isinstance(n, (ast.For, ast.AsyncFor)):
            for x in ast.walk(n.target):
                if isinstance(x, ast.Name):
                    binds.setdefault(x.id, []).append(n.iter)
        elif isinstance(n, ast.NamedExpr) and isinstance(n.target, ast.Name):
            binds.setdefault(n.target.id, []).append(n.value)
        elif isinstance(n, ast.Call) and isinstance(n.func, ast.Attribute) and isinstance(n.func.value, ast.Name) \
                and n.func.attr in ("append", "extend", "update", "add", "insert", "setdefault"):
            binds.setdefault(n.func.value.id, []).extend(n.args)
    seen: Set[str] = set()
    todo = [x.id for e in exprs if e is not None for x in ast.walk(e) if isinstance(x, ast.Name)]
    while todo:
        n = todo.pop()
        if n in seen:
            continue
        seen.add(n)
        if n in stop:
            continue
        for v in binds.get(n, ()):
            todo.extend(x.id for x in ast.walk(v) if isinstance(x, ast.Name))
    return seen


# ---------------------------------------------------------------------- tiny integer interpreter
class NotEvaluable(Exception):
    pass


def eval_arith(e, env, len_of=None):
    """Integer / boolean expression evaluation; `len_of(arg text)` supplies len(<sequence>) values."""
    if isinstance(e, ast.Constant) and isinstance(e.value, (int, bool)):
        return e.value
    if isinstance(e, ast.Name):
        if e.id in env:
            return env[e.id]
        raise NotEvaluable(e.id)
    if isinstance(e, ast.Tuple):
        return tuple(eval_arith(x, env, len_of) for x in e.elts)
    if isinstance(e, ast.Subscript) and isinstance(e.slice, ast.Constant) and isinstance(e.slice.value, int):
        v = eval_arith(e.value, env, len_of)
        if isinstance(v, tuple):
            return v[e.slice.value]
        raise NotEvaluable(unparse(e))
    if isinstance(e, ast.BinOp):
        a, b = eval_arith(e.left, env, len_of), eval_arith(e.right, env, len_of)
        ops = {ast.Add: lambda: a + b, ast.Sub: lambda: a - b, ast.Mult: lambda: a * b, ast.FloorDiv: lambda: a // b,
               ast.Mod: lambda: a % b, ast.Div: lambda: a / b}
        for k, fn in ops.items():
            if isinstance(e.op, k):
                return fn()
        raise NotEvaluable(unparse(e))
    if isinstance(e, ast.UnaryOp):
        v = eval_arith(e.operand, env, len_of)
        if isinstance(e.op, ast.USub):
            return -v
        if isinstance(e.op, ast.Not):
            return not v
        raise NotEvaluable(unparse(e))
    if isinstance(e, ast.IfExp):
        return eval_arith(e.body, env, len_of) if eval_arith(e.test, env, len_of) else eval_arith(e.orelse, env, len_of)
    if isinstance(e, ast.BoolOp):
        r = None
        for v in e.values:
            r = eval_arith(v, env, len_of)
            if isinstance(e.op, ast.And) and not r:
                return r
            if isinstance(e.op, ast.Or) and r:
                return r
        return r
    if isinstance(e, ast.Compare) and len(e.ops) == 1:
        a, b = eval_arith(e.left, env, len_of), eval_arith(e.comparators[0], env, len_of)
        table = {ast.Eq: lambda: a == b, ast.NotEq: lambda: a != b, ast.Gt: lambda: a > b, ast.GtE: lambda: a >= b,
                 ast.Lt: lambda: a < b, ast.LtE: lambda: a <= b}
        for k, fn in table.items():
            if isinstance(e.ops[0], k):
                return fn()
    if isinstance(e, ast.Call) and not e.keywords:
        nm = call_name(e)
        if nm == "len" and len(e.args) == 1 and len_of is not None:
            v = len_of(unparse(strip_cast(e.args[0])))
            if v is not None:
                return v
            raise NotEvaluable(unparse(e))
        if (nm or "").rsplit(".", 1)[-1] == "cast" and len(e.args) == 2:
            return eval_arith(e.args[1], env, len_of)
        args = [eval_arith(a, env, len_of) for a in e.args]
        fns = {"math.ceil": math.ceil, "ceil": math.ceil, "math.floor": math.floor, "int": int, "bool": bool,
               "divmod": divmod, "max": max, "min": min, "abs": abs}
        if nm in fns:
            return fns[nm](*args)
    raise NotEvaluable(unparse(e))


def _stored_names(st) -> Set[str]:
    out = set()
    for n in ast.walk(st):
        if isinstance(n, ast.Name) and isinstance(n.ctx, (ast.Store, ast.Del)):
            out.add(n.id)
    return out


def exec_straight(stmts: Sequence[ast.stmt], env: dict, relevant: Set[str], until: ast.AST, len_of=None) -> bool:
    """Execute, in source order, the statements of `stmts` (descending into if arms whose test can be evaluated) that
    bind a name in `relevant`; everything else is skipped.  Stops at the statement `until` (returns True when it was
    reached).  Raises NotEvaluable for a relevant statement that is not plain integer bookkeeping."""
    for st in stmts:
        if st is until:
            return True
        contains_until = any(x is until for x in ast.walk(st))
        if not (_stored_names(st) & relevant) and not contains_until:
            continue
        if isinstance(st, ast.Assign) and len(st.targets) == 1:
            v = eval_arith(st.value, env, len_of)
            _bind(st.targets[0], v, env)
        elif isinstance(st, ast.AnnAssign):
            if st.value is not None:
                _bind(st.target, eval_arith(st.value, env, len_of), env)
        elif isinstance(st, ast.AugAssign) and isinstance(st.target, ast.Name):
            cur = eval_arith(ast.Name(id=st.target.id, ctx=ast.Load()), env, len_of)
            env[st.target.id] = eval_arith(ast.BinOp(left=ast.Constant(cur), op=st.op, right=st.value), env, len_of)
        elif isinstance(st, ast.If):
            try:
                t = eval_arith(st.test, env, len_of)
            except NotEvaluable:
                # only the path that leads to `until` matters: an undecidable test is followed into the arm holding it
                for arm in (st.body, st.orelse):
                    if any(x is until for s2 in arm for x in ast.walk(s2)):
                        return exec_straight(arm, env, relevant, until, len_of)
                if _stored_names(st) & relevant:
                    raise
                continue
            if exec_straight(st.body if t else st.orelse, env, relevant, until, len_of):
                return True
        else:
            raise NotEvaluable(f"`{unparse(st)[:60]}` binds {sorted(_stored_names(st) & relevant)}")
    return False


def _bind(target, v, env):
    if isinstance(target, ast.Name):
        env[target.id] = v
    elif isinstance(target, (ast.Tuple, ast.List)) and isinstance(v, tuple) and len(v) == len(target.elts):
        for t, x in zip(target.elts, v):
            _bind(t, x, env)
    else:
        raise NotEvaluable(f"binding `{unparse(target)}`")


# ---------------------------------------------------------------------- AST-level self-test edits
def _find_def(tree, qualname: str):
    cur = tree
    for part in qualname.split("."):
        nxt = None
        for n in getattr(cur, "body", []):
            if isinstance(n, (ast.ClassDef, ast.FunctionDef, ast.AsyncFunctionDef)) and n.name == part:
                nxt = n        # the last definition wins (as at run time)
        if nxt is None:
            return None
        cur = nxt
    return cur


def ast_edit(qualname: str, *transforms):
    """Self-test edit that restructures one function at AST level (the module is re-emitted with ast.unparse).
    Each transform(fn_node) returns True when it changed something; otherwise the mutant is 'skipped'."""
    from ..report import MutantNotApplicable

    def edit(src: str) -> str:
        tree = ast.parse(src)
        fn = _find_def(tree, qualname)
        if fn is None:
            raise MutantNotApplicable(f"{qualname} not found")
        for t in transforms:
            if not t(fn):
                raise MutantNotApplicable(f"{getattr(t, '__name__', 't')}: shape not found in {qualname}")
        ast.fix_missing_locations(tree)
        return ast.unparse(tree) + "\n"
    return edit


def _tail_blocks(loop):
    """statement lists inside `loop` whose end is the end of a loop round (the loop body, and recursively the arms of an
    if that is the last statement of such a list)"""
    out, todo = [], [loop.body]
    while todo:
        blk = todo.pop()
        out.append(blk)
        if blk and isinstance(blk[-1], ast.If):
            todo.append(blk[-1].body)
            if blk[-1].orelse:
                todo.append(blk[-1].orelse)
    return out


def t_guard_continue(test_contains: str):
    """`if T: A else: B` in tail position of a loop round -> `if not T: B; continue` followed by A: inverted test,
    early continue, de-nested main branch."""
    def t(fn):
        for loop in ast.walk(fn):
            if not isinstance(loop, (ast.For, ast.While)) or not loop.body:
                continue
            for blk in _tail_blocks(loop):
                last = blk[-1] if blk else None
                if isinstance(last, ast.If) and last.orelse and test_contains in ast.unparse(last.test):
                    guard = ast.If(test=ast.UnaryOp(op=ast.Not(), operand=last.test), body=list(last.orelse) + [ast.Continue()], orelse=[])
                    blk[-1:] = [guard] + list(last.body)
                    return True
        return False
    t.__name__ = "t_guard_continue"
    return t


def t_split_and(test_contains: str):
    """`if a and b: A else: B` -> `if a: if b: A else: B else: B` (nested ifs instead of `and`)."""
    def t(fn):
        for n in ast.walk(fn):
            if isinstance(n, ast.If) and isinstance(n.test, ast.BoolOp) and isinstance(n.test.op, ast.And) and len(n.test.values) == 2 \
                    and test_contains in ast.unparse(n.test):
                a, b = n.test.values
                inner = ast.If(test=b, body=n.body, orelse=copy.deepcopy(n.orelse))
                n.test, n.body = a, [inner]
                return True
        return False
    t.__name__ = "t_split_and"
    return t


def t_elif_chain_to_continues(first_test: str):
    """`for ..: if a: A elif b: B else: C` (the chain being the last statement of the loop body) ->
    `if a: A; continue` / `if b: B; continue` / C."""
    def t(fn):
        for loop in ast.walk(fn):
            if not isinstance(loop, ast.For) or not loop.body:
                continue
            last = loop.body[-1]
            if not (isinstance(last, ast.If) and ast.unparse(last.test) == first_test):
                continue
            out, cur = [], last
            while True:
                out.append(ast.If(test=cur.test, body=list(cur.body) + [ast.Continue()], orelse=[]))
                if len(cur.orelse) == 1 and isinstance(cur.orelse[0], ast.If):
                    cur = cur.orelse[0]
                    continue
                out.extend(cur.orelse)
                break
            loop.body[-1:] = out
            return True
        return False
    t.__name__ = "t_elif_chain_to_continues"
    return t


def t_drop_continue(test_text: str):
    """remove the trailing `continue` of the guard clause `if <test_text>: ...; continue` (breaking edit)"""
    def t(fn):
        for n in ast.walk(fn):
            if isinstance(n, ast.If) and ast.unparse(n.test) == test_text and n.body and isinstance(n.body[-1], ast.Continue) and len(n.body) > 1:
                n.body.pop()
                return True
        return False
    t.__name__ = "t_drop_continue"
    return t


def t_early_return_to_else(test_contains: str):
    """`if T: A; return` followed by REST (function level) -> `if T: A else: REST`"""
    def t(fn):
        for i, st in enumerate(fn.body):
            if isinstance(st, ast.If) and not st.orelse and test_contains in ast.unparse(st.test) and st.body \
                    and isinstance(st.body[-1], ast.Return) and st.body[-1].value is None and len(st.body) > 1 and fn.body[i + 1:]:
                st.body.pop()
                st.orelse = fn.body[i + 1:]
                del fn.body[i + 1:]
                return True
        return False
    t.__name__ = "t_early_return_to_else"
    return t


def t_chain_to_returns(first_test_contains: str):
    """function-level `if a: A elif b: B elif c: C` being the LAST statement of the function ->
    `if a: A; return` / `if b: B; return` / `if c: C`"""
    def t(fn):
        last = fn.body[-1] if fn.body else None
        if not (isinstance(last, ast.If) and first_test_contains in ast.unparse(last.test)):
            return False
        out, cur = [], last
        while True:
            nxt = cur.orelse[0] if len(cur.orelse) == 1 and isinstance(cur.orelse[0], ast.If) else None
            if nxt is None:
                out.append(ast.If(test=cur.test, body=list(cur.body), orelse=[]))
                out.extend(cur.orelse)
                break
            out.append(ast.If(test=cur.test, body=list(cur.body) + [ast.Return(value=None)], orelse=[]))
            cur = nxt
        fn.body[-1:] = out
        return len(out) > 1
    t.__name__ = "t_chain_to_returns"
    return t


def t_drop_return(test_contains: str):
    """remove the trailing `return` of the guard clause whose test contains the text (breaking edit)"""
    def t(fn):
        for n in fn.body:
            if isinstance(n, ast.If) and test_contains in ast.unparse(n.test) and len(n.body) > 1 and isinstance(n.body[-1], ast.Return):
                n.body.pop()
                return True
        return False
    t.__name__ = "t_drop_return"
    return t
