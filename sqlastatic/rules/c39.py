"""C39 -- Cascades follow their configured rules (thin: option / consumer tables)."""

from __future__ import annotations

import ast
import re

from ..astutil import call_name, calls_in, const_str, guard_atoms, lexical_guards, own_exprs, test_atoms, unparse, walk_local
from ..oracles import load
from ..report import Registry, sub
from ..astutil import parent_map
from ._helpers_rob_f2 import env_of, expand_aliases, guard_atoms_at, resolve_name

R = Registry(
    "C39",
    title="Cascades follow their configured rules",
    decides=(
        "CascadeOptions computes each flag attribute from the cascade literal of the same name, 'all' expands to "
        "the documented set, 'none' clears, delete-orphan without delete is reported; each Session API reaches "
        "cascade_iterator()/prop.merge with the cascade type the documentation assigns to that API (oracle "
        "cascade_api.json); Mapper.cascade_iterator skips every relationship whose cascade set lacks the "
        "requested type and forwards that same type; every cascade literal compared with a cascade type or "
        "tested against a cascade set anywhere in orm/ is a real cascade name; every presort_saves/presort_deletes "
        "of a dependency processor that visits children removed from the relationship registers them for deletion "
        "exactly under cascade.delete_orphan (and hasparent(child) is False where only removed children are "
        "visited); every get_all_pending implementation (source of the save-update cascade) consults the "
        "committed original before every non-empty return and returns it, and cascade_iterator reads it exactly "
        "for 'save-update'."
    ),
    not_decided="which objects are reached or deleted for a given object graph and history; the flush-level orphan scan "
                "(Mapper._is_orphan) and the FK nulling in process_saves/process_deletes.",
)

UTIL = "orm/util.py"
SESS = "orm/session.py"
CO = f"{UTIL}::CascadeOptions"


def _strset(v):
    if isinstance(v, (set, frozenset, list, tuple)) and all(isinstance(x, str) for x in v):
        return set(v)
    return None


def _value_set_name(ctx):
    """name of the local of CascadeOptions.__new__ that holds the normalised cascade names: the set handed to
    `super().__new__(cls, <X>)` (the frozenset `self` is built from it)"""
    f = ctx.func(f"{CO}.__new__")
    for c in calls_in(f.node):
        if isinstance(c.func, ast.Attribute) and c.func.attr == "__new__" and isinstance(c.func.value, ast.Call) \
                and isinstance(c.func.value.func, ast.Name) and c.func.value.func.id == "super" and len(c.args) >= 2 \
                and isinstance(c.args[1], ast.Name):
            return c.args[1].id
    ctx.error(f"{CO}.__new__: `super().__new__(cls, <value set>)` not found")


def _fn_guards(ctx, f):
    """atoms(node) -> set of (text, polarity): branch outcomes dominating `node` in function f (CFG: if/else either way
    round, early return/continue, nested ifs), boolean locals and plain aliases with one definition expanded,
    `"x" == t` spelled `t == "x"`"""
    fn = f.node if hasattr(f, "node") else f
    g = ctx.cfg(f)
    pm = parent_map(fn)
    env = env_of(fn)

    def at(node):
        return set(guard_atoms_at(g, pm, node, env, expand=True))
    return at


@R.rule("C39-R1", floor=10, template="T-TABLE",
        desc="CascadeOptions.__new__: flag attribute <-> literal of the same name for all six flags; 'all' expansion; "
             "'none' clears; delete-orphan requires delete")
def r1(ctx):
    orc = load("cascade_api.json")
    cls = ctx.index.cls(CO)
    f = ctx.func(f"{CO}.__new__")
    g = ctx.cfg(f)
    at = _fn_guards(ctx, f)
    env = env_of(f.node)
    vset = _value_set_name(ctx)
    sources = {vset, "self"}  # the normalised set, or the frozenset built from it
    flags = {}
    for n in walk_local(f.node):
        if isinstance(n, ast.Assign) and len(n.targets) == 1 and isinstance(n.targets[0], ast.Attribute) \
                and isinstance(n.targets[0].value, ast.Name) and n.targets[0].value.id == "self":
            v = n.value
            if isinstance(v, ast.Compare) and len(v.ops) == 1 and isinstance(v.ops[0], ast.In) and const_str(v.left) is not None:
                flags[n.targets[0].attr] = (const_str(v.left), unparse(expand_aliases(v.comparators[0], env)), n)
    slots = ctx.ev.class_value(cls, "__slots__")
    slots = list(slots) if isinstance(slots, (list, tuple)) else None
    ctx.require(slots, f"{CO}.__slots__ not evaluable")
    for cascade in orc["cascades"]:
        attr = cascade.replace("-", "_")
        key = f"{CO}.{attr}"
        if attr not in flags:
            ctx.violation(key, f"flag attribute {attr} for documented cascade '{cascade}' is never computed in __new__", f.loc)
            continue
        lit, src, node = flags[attr]
        probs = []
        if lit != cascade:
            probs.append(f"flag {attr} is computed from literal '{lit}' instead of '{cascade}'")
        if src not in sources:
            probs.append(f"flag is computed from `{src}` not from the normalised value set")
        if attr not in slots:
            probs.append("flag missing from __slots__")
        ctx.check(not probs, key, "; ".join(probs), f"'{lit}' in {src}", f"{f.module.path}:{node.lineno}")
    # 'all' expansion
    add = _strset(ctx.ev.class_value(cls, "_add_w_all_cascades"))
    allowed = _strset(ctx.ev.class_value(cls, "_allowed_cascades"))
    ctx.require(add is not None and allowed is not None, f"{CO}: _add_w_all_cascades/_allowed_cascades not evaluable")
    want = set(orc["all_expands_to"])

    def is_all_set(e):
        return unparse(e).endswith("_add_w_all_cascades")

    upd = []  # statements that add the 'all' names to the value set: X.update(S) / X |= S / X = X | S
    clr = []  # statements that empty it: X.clear() / X = set()
    for n in walk_local(f.node):
        if isinstance(n, ast.Expr) and isinstance(n.value, ast.Call):
            c = n.value
            if call_name(c) == f"{vset}.update" and c.args and is_all_set(c.args[0]):
                upd.append(n)
            elif call_name(c) == f"{vset}.clear":
                clr.append(n)
        elif isinstance(n, ast.AugAssign) and isinstance(n.op, ast.BitOr) and isinstance(n.target, ast.Name) and n.target.id == vset and is_all_set(n.value):
            upd.append(n)
        elif isinstance(n, ast.Assign) and len(n.targets) == 1 and isinstance(n.targets[0], ast.Name) and n.targets[0].id == vset:
            v = n.value
            if isinstance(v, ast.BinOp) and isinstance(v.op, ast.BitOr) and (is_all_set(v.left) or is_all_set(v.right)):
                upd.append(n)
            elif isinstance(v, ast.Call) and call_name(v) == f"{vset}.union" and v.args and is_all_set(v.args[0]):
                upd.append(n)
            elif isinstance(v, ast.Call) and call_name(v) in ("set", "frozenset") and not v.args:
                clr.append(n)
    g_ok = bool(upd) and (f"'all' in {vset}", True) in at(upd[0])
    ctx.check(add == want and g_ok, f"{CO}:all",
              f"'all' expands to {sorted(add)} (documented: {sorted(want)}) / expansion not guarded by `'all' in {vset}`",
              f"all -> {sorted(add)}", f.loc)
    ctx.check(allowed == set(orc["cascades"]) | set(orc["pseudo"]), f"{CO}:allowed",
              f"accepted cascade names {sorted(allowed)} differ from the documented ones", f"{sorted(allowed)}", cls.loc)
    n_ok = bool(clr) and (f"'none' in {vset}", True) in at(clr[0])
    # 'none' must be applied after 'all' so that it wins, and before the flags are computed (order on the CFG)
    order_ok = False
    if n_ok and upd:
        cn, un = g.nodes_for(clr[0]), g.nodes_for(upd[0])
        fl = [i for _, _, n in flags.values() for i in g.nodes_for(n)]
        order_ok = (g.witness(un, cn) is not None and g.witness(cn, un) is None
                    and all(g.witness([i], cn) is None for i in fl) and all(g.witness(cn, [i]) is not None for i in fl))
    ctx.check(bool(order_ok), f"{CO}:none", "'none' does not clear the value set after the 'all' expansion and before the flags are computed",
              "none clears", f.loc)
    # delete-orphan requires delete: a warning/raise whose dominating outcomes are `delete-orphan set` and `delete not set`
    orphan_on = {("self.delete_orphan", True)} | {(f"'delete-orphan' in {s_}", True) for s_ in sources}
    delete_off = {("self.delete", False)} | {(f"'delete' in {s_}", False) for s_ in sources}
    ok = False
    for n in walk_local(f.node):
        reports = isinstance(n, ast.Raise) or (isinstance(n, ast.Expr) and isinstance(n.value, ast.Call)
                                               and (call_name(n.value) or "").split(".")[-1] in ("warn", "warn_deprecated", "warn_limited"))
        if reports:
            a_ = at(n)
            if a_ & orphan_on and a_ & delete_off:
                ok = True
    ctx.check(ok, f"{CO}:delete-orphan", "delete-orphan without delete is not reported (warn/raise)", "warns", f.loc)


def _reach(ctx, cls, start, depth=4):
    """methods of cls reachable from method `start` through self.<m>() calls"""
    seen, todo = {start}, [(start, 0)]
    while todo:
        m, d = todo.pop()
        f = cls.methods.get(m)
        if f is None or d >= depth:
            continue
        for c in calls_in(f.node):
            nm = call_name(c) or ""
            if nm.startswith("self.") and nm.count(".") == 1:
                t = nm[5:]
                if t in cls.methods and t not in seen:
                    seen.add(t)
                    todo.append((t, d + 1))
    return seen


@R.rule("C39-R2", floor=13, template="T-TABLE",
        desc="each documented Session API reaches mapper.cascade_iterator(<type>) / prop.merge with the cascade type the "
             "documentation assigns to it, and no cascade_iterator site in Session uses a type foreign to the APIs reaching it")
def r2(ctx):
    orc = load("cascade_api.json")
    api = orc["api"]
    cls = ctx.index.cls(f"{SESS}::Session")
    # literal cascade_iterator sites per method
    sites = {}
    for mname, f in cls.methods.items():
        if not _mentions_walk(f.node):
            continue
        env_f = env_of(f.node)
        for c in calls_in(f.node):
            if _is_walk(c, env_f):  # also `walk = mapper.cascade_iterator; walk(..)`
                lit = const_str(resolve_name(env_f, c.args[0]))  # `cascade_type = "delete"` local
                ctx.require(lit is not None, f"{f.key}: cascade_iterator called with a non-literal type `{unparse(c.args[0])}`")
                sites.setdefault(mname, []).append((lit, c))
                ctx.functions_analysed.add(f.key)  # stored refactors of session.py are replayed by the self-test
    ctx.require(len(sites) >= 4, f"only {len(sites)} Session methods call cascade_iterator (rule went blind)")
    # merge: prop.merge under the 'merge' flag
    rp = ctx.func("orm/relationships.py::RelationshipProperty.merge")
    # the recursion into session._merge (the cascade) happens only where `'merge' in self._cascade` holds
    # the recursion may live in a helper method (`obj = self._merge_related_instance(session, current, ..)`): follow it

    def _merge_helper(call):
        fn = call.func
        if isinstance(fn, ast.Attribute) and isinstance(fn.value, ast.Name) and fn.value.id == "self" and rp.cls is not None:
            m = ctx.index.resolve_method(rp.cls, fn.attr)
            if m is not None and m.node is not rp.node and any((call_name(c) or "").endswith("._merge") for c in calls_in(m.node)):
                ctx.functions_analysed.add(m.key)
                return (m.node, ast.Name(id="self", ctx=ast.Load()))
        return None

    from ._helpers_rob_f2 import inline_local_calls
    rp_nf, _n = inline_local_calls(rp.node, _merge_helper, depth=2)
    rp_at = _fn_guards(ctx, rp_nf)
    rec = [c for c in calls_in(rp_nf) if (call_name(c) or "").endswith("._merge")]
    ctx.require(rec, f"{rp.key}: no session._merge(..) recursion found")
    merge_guard = all({("'merge' in self._cascade", True), ("'merge' in self.cascade", True)} & rp_at(c) for c in rec)
    reach_of = {}
    for a, want in sorted(api.items()):
        key = f"{SESS}::Session.{a}:cascade"
        if a not in cls.methods:
            ctx.violation(key, f"documented Session.{a} not found", cls.loc)
            continue
        reach = _reach(ctx, cls, a)
        reach_of[a] = reach
        types = {lit for m in reach for lit, _ in sites.get(m, [])}
        if want == "merge":
            pm_calls = [c for m in reach for c in calls_in(cls.methods[m].node) if call_name(c) == "prop.merge"]
            ok = bool(pm_calls) and merge_guard
            ctx.check(ok, key, "merge does not propagate through prop.merge() guarded by `'merge' not in self._cascade`",
                      "prop.merge under the merge flag", cls.methods[a].loc)
            continue
        ctx.check(want in types, key,
                  f"Session.{a} is documented to cascade along '{want}' but reaches cascade_iterator only with {sorted(types)}",
                  f"-> cascade_iterator('{want}')", cls.methods[a].loc)
    # no foreign type at a site
    for mname, lst in sorted(sites.items()):
        apis = [a for a, r in reach_of.items() if mname in r]
        allowed = {api[a] for a in apis}
        for lit, c in lst:
            key = f"{SESS}::Session.{mname}:cascade_iterator:{lit}"
            ctx.check(lit in allowed or not apis, key,
                      f"cascade_iterator('{lit}') is reached from {apis} whose documented cascades are {sorted(allowed)}",
                      f"reached from {apis}", f"{cls.module.path}:{c.lineno}", nontrivial=bool(apis))


@R.rule("C39-R3", floor=15, template="T-GUARD",
        desc="Mapper.cascade_iterator skips relationships whose cascade set lacks the requested type and forwards the "
             "same type; every cascade literal compared with a type or tested against a cascade set is a real cascade name")
def r3(ctx):
    # floor: 16 instances today (1 guard + 15 literal tests); 15 so that removing the single `"merge" not in
    # self._cascade` test is reported by C39-R2 as a violation instead of tripping this floor first
    orc = load("cascade_api.json")
    names = set(orc["cascades"]) | set(orc["pseudo"])
    vset = _value_set_name(ctx)
    f = ctx.func("orm/mapper.py::Mapper.cascade_iterator")
    tp = f.params[1]
    g = ctx.cfg(f)
    calls = [c for c in calls_in(f.node) if call_name(c) == "prop.cascade_iterator"]
    ctx.require(calls, f"{f.key}: prop.cascade_iterator call not found")
    c = calls[0]
    probs = []
    if not (c.args and isinstance(c.args[0], ast.Name) and c.args[0].id == tp):
        probs.append(f"forwards `{unparse(c.args[0]) if c.args else '?'}` instead of the requested type `{tp}`")
    atoms = _fn_guards(ctx, f)(c)
    if (f"{tp} in prop.cascade", True) not in atoms:
        probs.append(f"the relationship is traversed without `{tp} in prop.cascade` being established (found {sorted(atoms)[:4]})")
    ctx.check(not probs, f.key, "; ".join(probs), f"guarded by {tp} in prop.cascade; forwards {tp}", f.loc)
    # literal hygiene
    n_lit = 0
    for m in ctx.index.all_modules():
        if not m.relpath.startswith("orm/"):
            continue
        for fi in ctx.index.all_functions(m):
            for n in ast.walk(fi.node):
                if not (isinstance(n, ast.Compare) and len(n.ops) == 1):
                    continue
                l, r_ = n.left, n.comparators[0]
                lit, other, kind = None, None, None
                if isinstance(n.ops[0], (ast.Eq, ast.NotEq)):
                    for a, b in ((l, r_), (r_, l)):
                        if const_str(a) is not None and isinstance(b, ast.Name) and b.id == "type_" and fi.name == "cascade_iterator":
                            lit, other, kind = const_str(a), "type_", "type comparison"
                elif isinstance(n.ops[0], (ast.In, ast.NotIn)) and const_str(l) is not None:
                    tgt = unparse(r_)
                    if tgt.split(".")[-1] in ("cascade", "_cascade") or tgt in (vset, "self") and fi.key.startswith(CO + ".__new__"):
                        lit, other, kind = const_str(l), tgt, "membership test"
                if lit is None:
                    continue
                n_lit += 1
                ctx.functions_analysed.add(fi.key)
                ctx.check(lit in names, f"{fi.key}:literal:{lit}",
                          f"{kind} against `{other}` uses '{lit}', which is not a cascade name ({sorted(names)}): the test can never succeed",
                          kind, f"{fi.module.path}:{n.lineno}", nontrivial=False)
    ctx.require(n_lit >= 5, f"only {n_lit} cascade literal tests found (rule went blind)")


# ------------------------------------------------------------------ R4: delete-orphan decision in presort
DEP = "orm/dependency.py"
DP = f"{DEP}::_DependencyProcessor"


def _is_flag(e, flag="delete_orphan"):
    return isinstance(e, ast.Attribute) and e.attr == flag and "cascade" in unparse(e.value)


def _local_assigns(fn):
    out = {}
    for n in walk_local(fn):
        if isinstance(n, ast.Assign) and len(n.targets) == 1 and isinstance(n.targets[0], ast.Name):
            out.setdefault(n.targets[0].id, []).append((n.value, n))
    return out


def _history_part(e, hist):
    """accessor name when `e` is `<history>.<part>` or `<history>.<part>()`"""
    # `[c for c in history.deleted if ..]`, `list(history.deleted)`, `filter(None, history.deleted)`: the same members
    for _ in range(3):
        if isinstance(e, (ast.ListComp, ast.GeneratorExp, ast.SetComp)) and len(e.generators) == 1 \
                and isinstance(e.elt, ast.Name) and isinstance(e.generators[0].target, ast.Name) \
                and e.elt.id == e.generators[0].target.id:
            e = e.generators[0].iter
        elif isinstance(e, ast.Call) and isinstance(e.func, ast.Name) and e.func.id in ("list", "tuple", "set", "sorted", "iter", "reversed") and len(e.args) == 1:
            e = e.args[0]
        elif isinstance(e, ast.Call) and isinstance(e.func, ast.Name) and e.func.id == "filter" and len(e.args) == 2:
            e = e.args[1]
        else:
            break
    if isinstance(e, ast.Call) and not e.args:
        e = e.func
    if isinstance(e, ast.Attribute) and isinstance(e.value, ast.Name) and e.value.id in hist:
        return e.attr
    return None


_PM_ENV: dict = {}


def _guard_atoms_at(g, node_ast):
    """branch outcomes dominating `node_ast` in the function of CFG g: boolean locals / plain aliases with a single
    definition are expanded (`orphans = self.cascade.delete_orphan`, `orphaned = self.hasparent(c) is False`)"""
    fn = g.fn
    k = id(fn)
    if k not in _PM_ENV or _PM_ENV[k][0] is not fn:
        _PM_ENV[k] = (fn, parent_map(fn), env_of(fn))
    _, pm, env = _PM_ENV[k]
    return set(guard_atoms_at(g, pm, node_ast, env, expand=True))


def _orphan_flag_true(atoms):
    return any(pol and re.fullmatch(r"[\w.]+\.delete_orphan", txt) for txt, pol in atoms)


def _no_parent(atoms, var):
    call = f"self.hasparent({var})"
    return (f"{call} is False", True) in atoms or (call, False) in atoms


@R.rule("C39-R4", floor=5, template="T-SIBLING",
        desc="every presort_saves/presort_deletes of a dependency processor that visits the children REMOVED from the "
             "relationship (history.deleted, or an accessor that includes them) registers them for deletion exactly "
             "under cascade.delete_orphan, and -- where only removed children are visited -- only when the child has "
             "not been re-associated (hasparent(child) is False)")
def r4(ctx):
    parts = load("history_parts.json")
    incl, only = parts["includes_deleted"], set(parts["only_deleted"])
    base = ctx.index.cls(DP)
    classes = [c for c in ctx.index.subclasses(base) if c.module.relpath == DEP]
    ctx.require(len(classes) >= 3, f"only {len(classes)} dependency processor classes found")
    n_sites = 0
    for c in sorted(classes, key=lambda c: c.name):
        for mname in ("presort_deletes", "presort_saves"):
            f = c.methods.get(mname)
            if f is None:
                continue
            fn = f.node
            assigns = _local_assigns(fn)
            hist = {n for n, defs in assigns.items()
                    if any(isinstance(v, ast.Call) and (call_name(v) or "").endswith(".get_attribute_history") for v, _ in defs)}
            if not hist:
                continue
            g = ctx.cfg(f)
            ctx.functions_analysed.add(f.key)
            problems, how = [], []
            found = False
            for loop in [n for n in walk_local(fn) if isinstance(n, ast.For) and isinstance(n.target, ast.Name)]:
                var = loop.target.id
                # which history accessors feed this loop, and where is that decided
                feeds = []
                part = _history_part(loop.iter, hist)
                if part is not None:
                    feeds.append((part, loop))
                elif isinstance(loop.iter, ast.Name):
                    for v, st in assigns.get(loop.iter.id, []):
                        part = _history_part(v, hist)
                        if part is not None:
                            feeds.append((part, st))
                for part, _ in feeds:
                    ctx.require(part in incl, f"{f.key}: History accessor `{part}` not in the oracle")
                removed = [(p_, st) for p_, st in feeds if incl[p_]]
                if not removed:
                    continue
                found = True
                regs = []
                for call in calls_in(loop):
                    if (call_name(call) or "").endswith(".register_object") and call.args \
                            and isinstance(call.args[0], ast.Name) and call.args[0].id == var:
                        regs.append(call)
                deletes = []
                for call in regs:
                    val = None
                    for kw in call.keywords:
                        if kw.arg == "isdelete":
                            val = kw.value
                    if val is None and len(call.args) > 1:
                        val = call.args[1]
                    if val is None or (isinstance(val, ast.Constant) and val.value is False):
                        continue
                    if isinstance(val, ast.Constant) and val.value is True:
                        deletes.append((call, False))
                        continue
                    srcs = [val]
                    if isinstance(val, ast.Name):
                        srcs = [v for v, _ in assigns.get(val.id, [])]
                    ctx.require(srcs and all(_is_flag(v) for v in srcs),
                                f"{f.key}: isdelete= value `{unparse(val)}` of register_object not understood")
                    deletes.append((call, True))
                only_removed = all(p_ in only for p_, _ in removed)
                where = f"`for {var} in {unparse(loop.iter)}`"
                if not deletes:
                    problems.append(
                        f"{where} visits children removed from the relationship but never registers them with "
                        "isdelete=True: with cascade.delete_orphan the de-associated child is not deleted at flush "
                        "(sibling presort methods register it for deletion under delete_orphan)")
                    continue
                for call, by_flag in deletes:
                    atoms = _guard_atoms_at(g, call)
                    if only_removed:
                        if not by_flag and not _orphan_flag_true(atoms):
                            problems.append(f"{where}: `{unparse(call)[:70]}` deletes a de-associated child without "
                                            "cascade.delete_orphan being established")
                        if not _no_parent(atoms, var):
                            problems.append(f"{where}: the child is registered for deletion without "
                                            f"`self.hasparent({var}) is False` (a re-associated child must survive)")
                    else:
                        for p_, st in removed:
                            a2 = _guard_atoms_at(g, st) | atoms
                            if not by_flag and not _orphan_flag_true(a2):
                                problems.append(
                                    f"{where}: the iterable includes removed children (`.{p_}`) and they are registered "
                                    "for deletion without cascade.delete_orphan being established")
                how.append(f"{where}: isdelete under delete_orphan" + (" and hasparent is False" if only_removed else ""))
            if not found:
                continue
            n_sites += 1
            ctx.check(not problems, f"{f.key}:removed-children", "; ".join(problems), "; ".join(how), f.loc)
    ctx.require(n_sites >= 3, f"only {n_sites} presort sites visiting removed children found (rule went blind)")


# ------------------------------------------------------------------ R5: save-update cascade source
ATTR = "orm/attributes.py"


def _reads_attr(node, base, attr):
    return any(isinstance(n, ast.Attribute) and n.attr == attr and isinstance(n.value, ast.Name) and n.value.id == base
               for n in ast.walk(node))


@R.rule("C39-R5", floor=4, template="T-PATH",
        desc="get_all_pending() of every object-attribute implementation (the source of the save-update cascade) returns "
             "current members AND the replaced/removed originals: every non-empty return is preceded by a consultation "
             "of the committed (original) value on every path, and the original flows into a returned value; "
             "RelationshipProperty.cascade_iterator reads get_all_pending exactly for 'save-update'")
def r5(ctx):
    impls = []
    for m in ctx.index.all_modules():
        if not m.relpath.startswith("orm/"):
            continue
        for fi in ctx.index.all_functions(m):
            if fi.name == "get_all_pending" and fi.cls is not None and not fi.type_only:
                body = [st for st in fi.node.body if not (isinstance(st, ast.Expr) and isinstance(st.value, ast.Constant))]
                if len(body) == 1 and isinstance(body[0], ast.Raise):
                    continue  # abstract
                impls.append(fi)
    ctx.require(len(impls) >= 3, f"only {len(impls)} get_all_pending implementations found")
    for f in sorted(impls, key=lambda f: f.key):
        ctx.functions_analysed.add(f.key)
        fn = f.node
        ctx.require(len(f.params) >= 2, f"{f.key}: signature not understood")
        state = f.params[1]
        g = ctx.cfg(f)
        # attributes of a history object whose definition includes the removed members
        hist_attrs = set()
        for c in f.module.classes.values():
            for name, meth in c.methods.items():
                if "property" in " ".join(meth.decorators) and _reads_attr(meth.node, "self", "deleted_items"):
                    hist_attrs.add(name)

        def is_src(node):
            for n in ast.walk(node):
                if isinstance(n, ast.Attribute) and n.attr == "committed_state" and isinstance(n.value, ast.Name) \
                        and n.value.id == state:
                    return True
                if isinstance(n, ast.Attribute) and n.attr in hist_attrs and isinstance(n.ctx, ast.Load):
                    return True
            return False

        src_nodes = set()
        for n in g.nodes:
            if n.stmt is None or not isinstance(n.stmt, ast.stmt) or n.kind in ("with_exit", "handler", "join"):
                continue
            if any(is_src(p) for p in own_exprs(n.stmt)):
                src_nodes.add(n.id)
        rets = [n for n in walk_local(fn) if isinstance(n, ast.Return)]
        problems = []
        nonempty = [r_ for r_ in rets if not (r_.value is None or (isinstance(r_.value, (ast.List, ast.Tuple)) and not r_.value.elts))]
        ctx.require(nonempty, f"{f.key}: no non-empty return found")
        if not src_nodes:
            problems.append("never consults the committed (original) value: objects removed from the attribute are not "
                            "reached by the save-update cascade")
        else:
            for r_ in nonempty:
                for nid in g.nodes_for(r_):
                    wit = g.always_preceded(nid, src_nodes)
                    if wit is not None:
                        problems.append(
                            f"`{unparse(r_)[:60]}` (line {r_.lineno}) is reachable without consulting "
                            f"{state}.committed_state: on that path the replaced/removed original is left out of the "
                            "result, so the save-update cascade does not reach it")
                        break
            # the original must flow into some returned value
            tainted = set()
            changed = True

            def mentions(e):
                return is_src(e) or any(isinstance(n, ast.Name) and n.id in tainted for n in ast.walk(e))

            while changed:
                changed = False
                for n in walk_local(fn):
                    tgt = None
                    if isinstance(n, ast.Assign) and mentions(n.value):
                        tgt = [e.id for t in n.targets for e in ast.walk(t) if isinstance(e, ast.Name)]
                    elif isinstance(n, ast.AugAssign) and mentions(n.value) and isinstance(n.target, ast.Name):
                        tgt = [n.target.id]
                    elif isinstance(n, (ast.For, ast.comprehension)) and mentions(n.iter):
                        tgt = [e.id for e in ast.walk(n.target) if isinstance(e, ast.Name)]
                    elif isinstance(n, ast.Call) and isinstance(n.func, ast.Attribute) and isinstance(n.func.value, ast.Name) \
                            and n.func.attr in ("append", "extend", "add", "update", "insert") \
                            and any(mentions(a) for a in n.args):
                        tgt = [n.func.value.id]
                    for t in tgt or ():
                        if t not in tainted:
                            tainted.add(t)
                            changed = True
            if not any(r_.value is not None and mentions(r_.value) for r_ in rets):
                problems.append("the committed (original) value is consulted but never becomes part of a returned value")
        ctx.check(not problems, f.key, "; ".join(dict.fromkeys(problems)),
                  f"{len(nonempty)} non-empty return(s), each after the original is consulted", f.loc)
    # consumer
    ci = ctx.func("orm/relationships.py::RelationshipProperty.cascade_iterator")
    tp = ci.params[1]
    gc = ctx.cfg(ci)
    calls = [c for c in calls_in(ci.node) if isinstance(c.func, ast.Attribute) and c.func.attr == "get_all_pending"]
    ctx.require(calls, f"{ci.key}: get_all_pending call not found")
    atoms = _guard_atoms_at(gc, calls[0])
    ctx.check((f"{tp} == 'save-update'", True) in atoms, f"{ci.key}:save-update-source",
              f"get_all_pending (current + replaced members) is not read exactly under `{tp} == 'save-update'` (guards: {sorted(atoms)})",
              "get_all_pending under type_ == 'save-update'", ci.loc)


# ------------------------------------------------------------------ R6: lazy cascade walk vs discarding loaded state
STATE = "orm/state.py::InstanceState"
_EAGER_CALLS = {"list", "tuple", "set", "frozenset", "sorted", "deque", "dict"}
_REDUCERS = {"any", "all", "sum", "min", "max", "len"}


def _state_discarders(ctx):
    """InstanceState methods that remove entries from a dictionary they receive as a parameter (the instance
    `__dict__` handed in by the caller): calling one discards loaded attribute values -- the very values a cascade walk
    reads (PASSIVE_NO_INITIALIZE) to find the next objects."""
    cls = ctx.index.cls(STATE)
    out = {}
    for name, f in cls.methods.items():
        params = set(f.params[1:])
        for n in walk_local(f.node):
            if isinstance(n, ast.Call) and isinstance(n.func, ast.Attribute) and n.func.attr in ("pop", "popitem", "clear") \
                    and isinstance(n.func.value, ast.Name) and n.func.value.id in params:
                out[name] = f
            elif isinstance(n, ast.Delete) and any(isinstance(t, ast.Subscript) and isinstance(t.value, ast.Name) and t.value.id in params
                                                   for t in n.targets):
                out[name] = f
    ctx.require(len(out) >= 2, f"{STATE}: only {sorted(out)} found as methods that discard loaded attribute state (rule went blind)")
    return out


def _mentions_walk(fnode) -> bool:
    """cheap pre-check: the function names `cascade_iterator` as an attribute somewhere (call or bound-method alias)"""
    return any(isinstance(n, ast.Attribute) and n.attr == "cascade_iterator" for n in ast.walk(fnode))


def _is_walk(call, env):
    fn = call.func
    if isinstance(fn, ast.Name):
        fn = resolve_name(env, fn)
    return isinstance(fn, ast.Attribute) and fn.attr == "cascade_iterator" and len(call.args) >= 2


_BARE_WALK: dict = {}


def _returns_bare_walk(fnode):
    k = id(fnode)
    if k not in _BARE_WALK or _BARE_WALK[k][0] is not fnode:
        _BARE_WALK[k] = (fnode, _returns_bare_walk_uncached(fnode))
    return _BARE_WALK[k][1]


def _returns_bare_walk_uncached(fnode):
    if not _mentions_walk(fnode):
        return False
    env = env_of(fnode)
    for n in walk_local(fnode):
        if isinstance(n, ast.Return) and n.value is not None:
            v = resolve_name(env, n.value)
            if isinstance(v, ast.Call) and _is_walk(v, env):
                return True
    return False


class _ClassView:
    """self.<m>() resolution inside one class (through the static MRO) with the summaries the walk rule needs"""

    def __init__(self, ctx, cls, discarders):
        self.ctx, self.cls, self.discarders = ctx, cls, discarders
        self._disc = {}
        self._walks = {}

    def method(self, call):
        fn = call.func
        if isinstance(fn, ast.Attribute) and isinstance(fn.value, ast.Name) and fn.value.id == "self" and self.cls is not None:
            return self.ctx.index.resolve_method(self.cls, fn.attr)
        return None

    def is_discard_call(self, c):
        return isinstance(c.func, ast.Attribute) and c.func.attr in self.discarders \
            and not (isinstance(c.func.value, ast.Name) and c.func.value.id in ("self", "cls", "super"))

    def discards(self, fi, depth=3):
        """does the method (through self.<m>() calls) discard loaded state of some object"""
        k = fi.key
        if k in self._disc:
            return self._disc[k]
        self._disc[k] = False
        res = False
        for c in calls_in(fi.node):
            if self.is_discard_call(c):
                res = True
            elif depth > 0:
                m = self.method(c)
                if m is not None and m.node is not fi.node and self.discards(m, depth - 1):
                    res = True
        self._disc[k] = res
        return res

    def has_walk(self, fi):
        k = fi.key
        if k not in self._walks:
            self._walks[k] = False
            if _mentions_walk(fi.node):
                env = env_of(fi.node)
                self._walks[k] = any(_is_walk(c, env) for c in calls_in(fi.node))
        return self._walks[k]

    def resolver(self):
        def resolve(call):
            m = self.method(call)
            if m is None:
                return None
            if self.discards(m) or self.has_walk(m):
                self.ctx.functions_analysed.add(m.key)
                return (m.node, ast.Name(id="self", ctx=ast.Load()))
            return None
        return resolve


class _InlinePureReturns(ast.NodeTransformer):
    """`self.<helper>(args)` anywhere in an expression (a `for` iterable, an argument) -> the helper's returned
    expression with the parameters substituted, for helpers whose body is just `return <expr>` and that hand out a
    cascade walk (inline_local_calls only follows statement-level calls and `if` tests)."""

    def __init__(self, view, own):
        self.view, self.own, self.n = view, own, 0

    def visit_Call(self, node):
        self.generic_visit(node)
        m = self.view.method(node)
        if m is None or m.node is self.own or not _returns_bare_walk(m.node):
            return node
        body = [st for st in m.node.body if not (isinstance(st, ast.Expr) and isinstance(st.value, ast.Constant))]
        a = m.node.args
        if len(body) != 1 or not isinstance(body[0], ast.Return) or a.vararg or a.kwarg or a.kwonlyargs or node.keywords \
                or any(isinstance(x, ast.Starred) for x in node.args):
            return node
        params = [p.arg for p in a.posonlyargs + a.args][1:]
        if len(params) != len(node.args):
            return node
        from ._helpers_rob_g1 import substitute
        self.n += 1
        self.view.ctx.functions_analysed.add(m.key)
        return ast.copy_location(substitute(body[0].value, dict(zip(params, node.args))), node)


def _stmts_under(body):
    for st in body:
        yield st
        if isinstance(st, (ast.FunctionDef, ast.AsyncFunctionDef, ast.ClassDef)):
            continue
        for fld in ("body", "orelse", "finalbody"):
            sub_ = getattr(st, fld, None)
            if isinstance(sub_, list) and sub_ and isinstance(sub_[0], ast.stmt):
                yield from _stmts_under(sub_)
        for hd in getattr(st, "handlers", []) or []:
            yield from _stmts_under(hd.body)
        for case in getattr(st, "cases", []) or []:
            yield from _stmts_under(case.body)


def _between(g, starts, targets):
    """nodes on some path start -> target that does not pass a start node again"""
    starts, targets = set(starts), set(targets)
    fwd = g.reachable(starts, avoid=(), include_starts=False)
    pred = {}
    for a in range(len(g.nodes)):
        for b, _lab in g.succ[a]:
            pred.setdefault(b, []).append(a)
    bwd, todo = set(targets), list(targets)
    while todo:
        b = todo.pop()
        for a in pred.get(b, ()):
            if a not in bwd and a not in starts:
                bwd.add(a)
                todo.append(a)
    return (fwd & bwd) - starts


def _walk_consumption(call, pm, env, nf):
    """how the generator returned by a cascade_iterator call is consumed:
    ('eager', how) | ('loop', [For]) | ('bound', assign stmt, [For loops], [eager use stmts], escapes) | ('returned',) | ('other', text)"""
    cur, p = call, pm.get(call)
    while isinstance(p, ast.Call) and isinstance(p.func, ast.Name) and p.func.id == "iter" and len(p.args) == 1 and p.args[0] is cur:
        cur, p = p, pm.get(p)
    if isinstance(p, ast.Call) and any(a is cur for a in p.args):
        nm = (call_name(p) or "").split(".")[-1]
        if nm in _EAGER_CALLS:
            return ("eager", f"{nm}(..)")
    if isinstance(p, ast.comprehension) and p.iter is cur:
        comp = pm.get(p)
        if isinstance(comp, (ast.ListComp, ast.SetComp, ast.DictComp)):
            return ("eager", "comprehension")
        gp = pm.get(comp)
        if isinstance(gp, ast.Call) and (call_name(gp) or "").split(".")[-1] in _EAGER_CALLS | _REDUCERS:
            return ("eager", f"{call_name(gp)}(<generator>)")
        return ("other", "generator expression")
    if isinstance(p, (ast.For, ast.AsyncFor)) and p.iter is cur:
        return ("loop", [p])
    if isinstance(p, ast.Return):
        return ("returned",)
    if isinstance(p, (ast.Assign, ast.AnnAssign)) and p.value is cur:
        tgts = p.targets if isinstance(p, ast.Assign) else [p.target]
        if len(tgts) == 1 and isinstance(tgts[0], ast.Name):
            name = tgts[0].id
            loops, eager, escapes = [], [], False
            for n in walk_local(nf):
                if isinstance(n, ast.Name) and n.id == name and isinstance(n.ctx, ast.Load):
                    q = pm.get(n)
                    if isinstance(q, (ast.For, ast.AsyncFor)) and q.iter is n:
                        loops.append(q)
                    elif isinstance(q, ast.Call) and any(a is n for a in q.args) and (call_name(q) or "").split(".")[-1] in _EAGER_CALLS:
                        st = q
                        while st is not None and not isinstance(st, ast.stmt):
                            st = pm.get(st)
                        eager.append(st)
                    elif isinstance(q, ast.comprehension) and q.iter is n and isinstance(pm.get(q), (ast.ListComp, ast.SetComp, ast.DictComp)):
                        st = q
                        while st is not None and not isinstance(st, ast.stmt):
                            st = pm.get(st)
                        eager.append(st)
                    else:
                        escapes = True
            return ("bound", p, loops, eager, escapes)
    return ("other", type(p).__name__)


@R.rule("C39-R6", floor=6, template="T-ORDER",
        desc="Mapper.cascade_iterator is a lazy generator that reads the walked objects' loaded attributes: wherever a "
             "cascade walk is consumed in orm/, the loaded state of the lead object is not discarded before the walk, and "
             "while the generator is still being consumed (a `for` directly over it, or between binding it to a local and "
             "exhausting it) no walked object's loaded state is discarded (InstanceState._expire/_expire_attributes/..., "
             "directly or through self.<helper>()); materialising the walk first (list(..)) is the safe form")
def r6(ctx):
    from ._helpers_rob_f2 import inline_local_calls
    from ..astutil import names_in
    from ..cfg import no_exc
    mp = ctx.func("orm/mapper.py::Mapper.cascade_iterator")
    lazy = any(isinstance(n, (ast.Yield, ast.YieldFrom)) for n in walk_local(mp.node))
    discarders = _state_discarders(ctx)
    views = {}
    n_sites = 0
    for m in ctx.index.all_modules():
        if not m.relpath.startswith("orm/") or "cascade_iterator" not in m.source:
            continue
        seen_nodes = set()
        for fi in ctx.index.all_functions(m):
            if id(fi.node) in seen_nodes or fi.type_only:
                continue
            seen_nodes.add(id(fi.node))
            view = views.setdefault(fi.cls.key if fi.cls is not None else None, _ClassView(ctx, fi.cls, discarders))
            own_calls = calls_in(fi.node)
            helper_calls = [(c, view.method(c)) for c in own_calls
                            if isinstance(c.func, ast.Attribute) and isinstance(c.func.value, ast.Name) and c.func.value.id == "self"]
            helper_calls = [(c, mm) for c, mm in helper_calls if mm is not None and mm.node is not fi.node]
            lexical = []
            if _mentions_walk(fi.node):
                env0 = env_of(fi.node)
                lexical = [c for c in own_calls if _is_walk(c, env0)]
            via_helper = [c for c, mm in helper_calls if _returns_bare_walk(mm.node)]
            if not lexical and not via_helper:
                # a helper performs the walk and this function discards state on its own (`self._expire(x); ys = self._walk(x)`)
                walkers = [c for c, mm in helper_calls if view.has_walk(mm)]
                others = [c for c in calls_in(fi.node) if not any(c is w for w in walkers) and (
                    view.is_discard_call(c) or (view.method(c) is not None and view.method(c).node is not fi.node and view.discards(view.method(c))))]
                if not (walkers and others):
                    continue
            ctx.functions_analysed.add(fi.key)
            nf, _n = inline_local_calls(fi.node, view.resolver(), depth=3)
            nf = ast.fix_missing_locations(_InlinePureReturns(view, fi.node).visit(nf))
            g = ctx.cfg(nf)
            pm = parent_map(nf)
            env = env_of(nf)
            # every call that discards loaded state of some object: (call, names of the object expression, text)
            disc = []
            for c in calls_in(nf):
                if view.is_discard_call(c):
                    recv = expand_aliases(c.func.value, env)
                    disc.append((c, names_in(c.func.value) | names_in(recv), unparse(recv)))
                else:
                    mm = view.method(c)
                    if mm is not None and mm.node is not fi.node and view.discards(mm):  # helper that could not be inlined
                        for a in list(c.args) + [k.value for k in c.keywords]:
                            ea = expand_aliases(a, env)
                            disc.append((c, names_in(a) | names_in(ea), unparse(ea)))
            used = {}
            for c in calls_in(nf):
                if not _is_walk(c, env):
                    continue
                lit = const_str(resolve_name(env, c.args[0]))
                label = lit if lit is not None else unparse(c.args[0])
                used[label] = used.get(label, 0) + 1
                key = f"{fi.key}:walk[{label}]" + (f"#{used[label]}" if used[label] > 1 else "")
                n_sites += 1
                loc = f"{fi.module.path}:{getattr(c, 'lineno', fi.node.lineno)}"
                if not lazy:
                    ctx.ok(key, "Mapper.cascade_iterator is not a generator: the walk is complete when the call returns")
                    continue
                lead = expand_aliases(c.args[1], env)
                lead_txt, lead_names = unparse(lead), names_in(c.args[1]) | names_in(lead)
                site_nodes = g.nodes_containing(c)
                ctx.require(site_nodes, f"{fi.key}: cascade_iterator call not found in the CFG")
                problems = []
                # (a) the lead object's loaded state is intact when the walk starts
                rebinding = set()
                for n in walk_local(nf):
                    tnames = set()
                    if isinstance(n, (ast.For, ast.AsyncFor)):
                        tnames = names_in(n.target)
                    elif isinstance(n, ast.Assign):
                        tnames = set().union(*[names_in(t) for t in n.targets if not isinstance(t, (ast.Attribute, ast.Subscript))] or [set()])
                    if tnames & lead_names:
                        rebinding.update(i for i in g.nodes_for(n) if g.node(i).kind in ("for", "stmt"))
                for dc, _names, txt in disc:
                    if txt != lead_txt:
                        continue
                    dn = g.nodes_containing(dc)
                    w = g.witness(dn, site_nodes, avoid=rebinding - set(dn), edge_ok=no_exc)
                    if w is not None and not (set(dn) & set(site_nodes)):
                        problems.append(f"`{unparse(dc)[:60]}` (line {dc.lineno}) discards the loaded attributes of the lead object `{lead_txt}` "
                                        "before the cascade is collected: the walk reads the relationships from the instance dict and finds nothing")
                # (b) nothing walked is discarded while the generator is still being consumed
                kind = _walk_consumption(c, pm, env, nf)
                how = ""
                live, derived = set(), set()
                if kind[0] == "eager":
                    how = f"materialised by {kind[1]} before anything is done with the members"
                elif kind[0] == "returned":
                    how = "generator handed to the caller (judged where the caller consumes it)"
                elif kind[0] == "loop":
                    loops = kind[1]
                elif kind[0] == "bound":
                    _k, st, loops, eager_uses, escapes = kind
                    if escapes and not loops and not eager_uses:
                        how = "generator bound to a local that is handed on (not decided here)"
                    use_nodes = [i for u in loops + eager_uses for i in g.nodes_for(u)]
                    live |= _between(g, g.nodes_for(st), use_nodes)
                else:
                    how = f"consumed inside one expression ({kind[1]})"
                    loops = []
                if kind[0] in ("loop", "bound"):
                    for lp in loops:
                        derived |= names_in(lp.target)
                        for st2 in _stmts_under(lp.body):
                            live.update(g.nodes_for(st2))
                    for _ in range(3):
                        for n in walk_local(nf):
                            if isinstance(n, ast.Assign) and names_in(n.value) & derived:
                                for t in n.targets:
                                    if isinstance(t, ast.Name):
                                        derived.add(t.id)
                    for dc, names, txt in disc:
                        if not (names & (derived | lead_names)):
                            continue
                        if set(g.nodes_containing(dc)) & live:
                            problems.append(
                                f"the generator of cascade_iterator({label!r}, {lead_txt}) is still being consumed when "
                                f"`{unparse(dc)[:60]}` (line {dc.lineno}) discards loaded attributes of `{txt}`: the walk yields an object before "
                                "it reads that object's relationships, so everything below it is no longer reached (collect the walk "
                                "with list(..) first)")
                    how = how or "consumed lazily; nothing in the consumption window discards loaded state of the walked objects"
                ctx.check(not problems, key, "; ".join(dict.fromkeys(problems)), how, loc)
    ctx.require(n_sites >= 4, f"only {n_sites} cascade walks found in orm/ (rule went blind)")


# ------------------------------------------------------------------ R7: membership changes made by the cascade listeners
UOW = "orm/unitofwork.py"
_IDENTITY_MUTATORS = {"add": "add", "replace": "add", "_add_unpresent": "add",
                      "safe_discard": "remove", "discard": "remove", "_fast_discard": "remove", "_manage_removed_state": "remove"}
_MEMBER_SETS = ("_new", "_deleted", "identity_map")


def _session_sites(ctx, cls):
    sites = {}
    for mname, f in cls.methods.items():
        if not _mentions_walk(f.node):
            continue
        env_f = env_of(f.node)
        for c in calls_in(f.node):
            if _is_walk(c, env_f):
                lit = const_str(resolve_name(env_f, c.args[0]))
                if lit is not None:
                    sites.setdefault(mname, []).append((lit, c))
    return sites


def _membership_effect(node, owner="self"):
    """{'add', 'remove'}: how the statements of `node` change the membership collections of the Session `owner`"""
    out = set()
    for n in walk_local(node):
        if isinstance(n, (ast.Assign, ast.AugAssign, ast.Delete)):
            tg = n.targets if not isinstance(n, ast.AugAssign) else [n.target]
            for t in tg:
                if isinstance(t, ast.Subscript) and isinstance(t.value, ast.Attribute) and t.value.attr in _MEMBER_SETS \
                        and unparse(t.value.value) == owner:
                    out.add("remove" if isinstance(n, ast.Delete) else "add")
        elif isinstance(n, ast.Call) and isinstance(n.func, ast.Attribute) and isinstance(n.func.value, ast.Attribute) \
                and n.func.value.attr in _MEMBER_SETS and unparse(n.func.value.value) == owner:
            a = n.func.attr
            if n.func.value.attr == "identity_map":
                if a in _IDENTITY_MUTATORS:
                    out.add(_IDENTITY_MUTATORS[a])
            elif a in ("pop", "popitem", "clear", "discard", "remove", "__delitem__"):
                out.add("remove")
            elif a in ("add", "update", "setdefault", "__setitem__"):
                out.add("add")
    return out


def _is_session_expr(e, env):
    e = resolve_name(env, e)
    if isinstance(e, ast.Attribute) and e.attr == "session":
        return True
    if isinstance(e, ast.Call) and (call_name(e) or "").split(".")[-1] in ("_state_session", "object_session"):
        return True
    return False


@R.rule("C39-R7", floor=3, template="T-SIBLING",
        desc="the attribute-event listeners of _track_cascade_events (append / remove / set) change session membership "
             "only through Session methods that apply the matching cascade: every Session method they call that "
             "(through self.<m>()) adds to or removes from _new/_deleted/identity_map also reaches "
             "Mapper.cascade_iterator -- with 'save-update' when it adds, 'expunge' when it only removes -- and no "
             "listener edits those collections directly")
def r7(ctx):
    from ._helpers_rob_f2 import inline_local_calls
    cls = ctx.index.cls(f"{SESS}::Session")
    sites = _session_sites(ctx, cls)
    ctx.require(len(sites) >= 4, f"only {len(sites)} Session methods call cascade_iterator (rule went blind)")
    im = ctx.index.cls("orm/identity.py::IdentityMap")
    gone = sorted(m_ for m_ in _IDENTITY_MUTATORS if m_ not in im.methods and not any(m_ in k.methods for k in ctx.index.subclasses(im)))
    ctx.require(not gone, f"orm/identity.py::IdentityMap: membership mutators {gone} no longer exist (table _IDENTITY_MUTATORS is stale)")
    outer = ctx.func(f"{UOW}::_track_cascade_events")
    closures = {n.name: n for n in outer.node.body if isinstance(n, ast.FunctionDef)}
    module_fns = {name: fi.node for name, fi in outer.module.functions.items() if fi.node is not outer.node}
    env_outer = env_of(outer.node)
    listeners = []
    for c in calls_in(outer.node):
        if (call_name(c) or "").endswith("listen") and len(c.args) >= 3:
            fn = resolve_name(env_outer, c.args[2])
            if isinstance(fn, ast.Name) and fn.id in closures and closures[fn.id] not in listeners:
                listeners.append(closures[fn.id])
    ctx.require(len(listeners) >= 3, f"{outer.key}: only {len(listeners)} event listeners registered (append/remove/set expected)")

    def resolve(call):
        if isinstance(call.func, ast.Name):
            return closures.get(call.func.id) or module_fns.get(call.func.id)
        return None

    eff_cache = {}

    def effect_of(mname):
        if mname not in eff_cache:
            eff, types = set(), set()
            for x in _reach(ctx, cls, mname):
                fx = ctx.index.resolve_method(cls, x)
                if fx is not None:
                    eff |= _membership_effect(fx.node)
                types |= {lit for lit, _ in sites.get(x, [])}
            eff_cache[mname] = (eff, types)
        return eff_cache[mname]

    for ln in listeners:
        nf, _n = inline_local_calls(ln, resolve, depth=3)
        env = env_of(nf)
        base = f"{UOW}::_track_cascade_events.{ln.name}"
        # direct edits of the membership collections
        direct = []
        for n in walk_local(nf):
            tgt = None
            if isinstance(n, ast.Call) and isinstance(n.func, ast.Attribute) and isinstance(n.func.value, ast.Attribute) \
                    and n.func.value.attr in _MEMBER_SETS and _is_session_expr(n.func.value.value, env):
                if n.func.attr in ("pop", "popitem", "clear", "discard", "remove", "add", "update", "setdefault", "replace", "safe_discard"):
                    tgt = n
            elif isinstance(n, (ast.Assign, ast.Delete)):
                for t in n.targets:
                    if isinstance(t, ast.Subscript) and isinstance(t.value, ast.Attribute) and t.value.attr in _MEMBER_SETS \
                            and _is_session_expr(t.value.value, env):
                        tgt = n
            if tgt is not None:
                direct.append(tgt)
        for d in direct:
            ctx.violation(f"{base}:direct-membership-edit",
                          f"`{unparse(d)[:70]}` edits the session's membership collections from the attribute listener: no cascade is applied "
                          "to the objects reachable from the added/removed one", f"{outer.module.path}:{d.lineno}")
        for c in calls_in(nf):
            cf = resolve_name(env, c.func) if isinstance(c.func, ast.Name) else c.func  # `expunge = sess.expunge; expunge(x)`
            if not (isinstance(cf, ast.Attribute) and _is_session_expr(cf.value, env)):
                continue
            mname = cf.attr
            if ctx.index.resolve_method(cls, mname) is None:
                continue
            eff, types = effect_of(mname)
            if not eff:
                continue
            want = "save-update" if "add" in eff else "expunge"
            what = "adds objects to" if "add" in eff else "removes objects from"
            ctx.check(want in types, f"{base}:{mname}",
                      f"the `{ln.name}` listener calls Session.{mname}(), which {what} the session but "
                      + (f"reaches cascade_iterator only with {sorted(types)}" if types else "never walks a cascade")
                      + f": the objects reachable from the argument along the '{want}' cascade are left "
                      + ("out of" if want == "save-update" else "behind in") + " the session (sibling listeners go through the cascading API)",
                      f"Session.{mname} -> cascade_iterator('{want}')", f"{outer.module.path}:{c.lineno}")


# ------------------------------------------------------------------ R8: only persistent objects are marked for deletion
def _persistence_tested(atoms, var):
    """a dominating outcome that says something about `var` having a database identity"""
    for txt, _pol in atoms:
        if re.search(rf"\b{re.escape(var)}\.(key|has_identity|persistent|pending|transient|_is_persistent)\b", txt):
            return True
        if re.search(rf"(is_deleted|_contains_state|in [\w.]*identity_map|in [\w.]*_new)\b.*\b{re.escape(var)}\b|\b{re.escape(var)}\b in [\w.]*(identity_map|_new)\b", txt):
            return True
    return False


@R.rule("C39-R8", floor=4, template="T-SIBLING",
        desc="objects marked for deletion by a delete / delete-orphan cascade have a row: Session._delete_impl skips a cascaded "
             "object without identity key, and every presort_deletes/presort_saves of a dependency processor that registers "
             "children with isdelete=True either draws them from History parts that were loaded from / flushed to the "
             "database (unchanged, deleted) or tests the child's persistence first when the accessor includes `added` members")
def r8(ctx):
    added = load("history_added.json")["includes_added"]
    # reference sibling: the session-level delete cascade
    di = ctx.func(f"{SESS}::Session._delete_impl")
    g = ctx.cfg(di)
    st_param = di.params[1]
    marks = [n for n in walk_local(di.node) if isinstance(n, ast.Assign) and any(
        isinstance(t, ast.Subscript) and unparse(t.value) == "self._deleted" for t in n.targets)]
    ctx.require(marks, f"{di.key}: `self._deleted[..] = ..` not found")
    at = _fn_guards(ctx, di)
    ok = all((f"{st_param}.key is None", False) in at(mk) or (f"{st_param}.key", True) in at(mk)
             or any(t.startswith(f"{st_param}.has_identity") and p for t, p in at(mk)) for mk in marks)
    ctx.check(ok, f"{di.key}:persistent-only", f"an object is put into Session._deleted without `{st_param}.key is None` having been excluded: "
              "a pending object reached by the delete cascade would be DELETEd although it has no row",
              f"marked only when {st_param}.key is not None", di.loc)
    base = ctx.index.cls(DP)
    classes = [c for c in ctx.index.subclasses(base) if c.module.relpath == DEP]
    ctx.require(len(classes) >= 3, f"only {len(classes)} dependency processor classes found")
    n_sites = 0
    for c in sorted(classes, key=lambda c: c.name):
        for mname in ("presort_deletes", "presort_saves"):
            f = c.methods.get(mname)
            if f is None:
                continue
            fn = f.node
            assigns = _local_assigns(fn)
            hist = {n for n, defs in assigns.items()
                    if any(isinstance(v, ast.Call) and (call_name(v) or "").endswith(".get_attribute_history") for v, _ in defs)}
            if not hist:
                continue
            g = ctx.cfg(f)
            problems, how = [], []
            found = False
            for loop in [n for n in walk_local(fn) if isinstance(n, ast.For) and isinstance(n.target, ast.Name)]:
                var = loop.target.id
                parts = []
                p0 = _history_part(loop.iter, hist)
                if p0 is not None:
                    parts.append(p0)
                elif isinstance(loop.iter, ast.Name):
                    for v, _st in assigns.get(loop.iter.id, []):
                        p1 = _history_part(v, hist)
                        if p1 is not None:
                            parts.append(p1)
                if not parts:
                    continue
                for p_ in parts:
                    ctx.require(p_ in added, f"{f.key}: History accessor `{p_}` not in the oracle history_added.json")
                for call in calls_in(loop):
                    if not ((call_name(call) or "").endswith(".register_object") and call.args
                            and isinstance(call.args[0], ast.Name) and call.args[0].id == var):
                        continue
                    val = None
                    for kw in call.keywords:
                        if kw.arg == "isdelete":
                            val = kw.value
                    if val is None and len(call.args) > 1:
                        val = call.args[1]
                    if val is None or (isinstance(val, ast.Constant) and not val.value):
                        continue
                    found = True
                    risky = sorted(p_ for p_ in parts if added[p_])
                    if not risky:
                        how.append(f"`for {var} in {unparse(loop.iter)}`: members known to the database")
                        continue
                    atoms = _guard_atoms_at(g, call)
                    if _persistence_tested(atoms, var):
                        how.append(f"`for {var} in {unparse(loop.iter)}`: persistence of {var} tested")
                    else:
                        problems.append(
                            f"`for {var} in ...` draws the children from History.{'/'.join(risky)}, which include objects ADDED since the "
                            f"last flush, and registers them with isdelete=True without testing that `{var}` is persistent "
                            f"(e.g. `{var}.key` / `{var}.has_identity`): a pending object assigned to the relationship is DELETEd with a "
                            "primary key it never had when the parent is deleted (Session._delete_impl skips such objects)")
            if not found:
                continue
            n_sites += 1
            ctx.functions_analysed.add(f.key)
            ctx.check(not problems, f"{f.key}:deleted-children-persistent", "; ".join(dict.fromkeys(problems)), "; ".join(dict.fromkeys(how)), f.loc)
    ctx.require(n_sites >= 2, f"only {n_sites} presort sites registering children for deletion found (rule went blind)")


# --------------------------------------------------------------------------------------- self-test
R.mutant("flag-from-wrong-literal", UTIL,
         sub("        self.refresh_expire = \"refresh-expire\" in values\n", "        self.refresh_expire = \"refresh_expire\" in values\n"), "C39-R1")
R.mutant("flags-swapped", UTIL,
         sub("        self.merge = \"merge\" in values\n        self.expunge = \"expunge\" in values\n", "        self.merge = \"expunge\" in values\n        self.expunge = \"merge\" in values\n"),
         "C39-R1")
R.mutant("all-includes-delete-orphan", UTIL,
         sub("        [\"all\", \"none\", \"delete-orphan\"]\n", "        [\"all\", \"none\"]\n"), "C39-R1")
R.mutant("none-before-all", UTIL,
         sub("        if \"all\" in values:\n            values.update(cls._add_w_all_cascades)\n        if \"none\" in values:\n            values.clear()\n",
             "        if \"none\" in values:\n            values.clear()\n        if \"all\" in values:\n            values.update(cls._add_w_all_cascades)\n"),
         "C39-R1")
R.mutant("expunge-uses-refresh-expire", SESS,
         sub("state.manager.mapper.cascade_iterator(\"expunge\", state)", "state.manager.mapper.cascade_iterator(\"refresh-expire\", state)"), "C39-R2")
R.mutant("add-uses-merge-cascade", SESS,
         sub("        for o, m, st_, dct_ in mapper.cascade_iterator(\n            \"save-update\", state, halt_on=self._contains_state\n",
             "        for o, m, st_, dct_ in mapper.cascade_iterator(\n            \"merge\", state, halt_on=self._contains_state\n"),
         "C39-R2")
R.mutant("merge-flag-not-checked", "orm/relationships.py",
         sub("        if \"merge\" not in self._cascade:\n            return\n\n", ""), "C39-R2")
R.mutant("mapper-iterator-no-flag-check", "orm/mapper.py",
         sub("                if not prop.cascade or type_ not in prop.cascade:\n                    continue\n", "                if not prop.cascade:\n                    continue\n"),
         "C39-R3")
R.mutant("mapper-iterator-forwards-constant", "orm/mapper.py",
         sub("                    prop.cascade_iterator(\n                        type_,\n", "                    prop.cascade_iterator(\n                        \"save-update\",\n"),
         "C39-R3")
R.mutant("relationship-literal-typo", "orm/relationships.py",
         sub("        if type_ == \"save-update\":\n            tuples = state.manager[self.key].impl.get_all_pending(state, dict_)\n",
             "        if type_ == \"save_update\":\n            tuples = state.manager[self.key].impl.get_all_pending(state, dict_)\n"),
         "C39-R3")
# R4
R.mutant("o2m-presort-deletes-orphan-not-deleted", DEP,
         sub("                        if self.cascade.delete_orphan:\n                            uowcommit.register_object(child, isdelete=True)\n                        else:\n                            uowcommit.register_object(child)\n",
             "                        uowcommit.register_object(child)\n"),
         "C39-R4")
R.mutant("m2m-presort-saves-ignores-reassociation", DEP,
         sub("                for child in history.deleted:\n                    if self.hasparent(child) is False:\n                        uowcommit.register_object(\n",
             "                for child in history.deleted:\n                    if child is not None:\n                        uowcommit.register_object(\n"),
         "C39-R4")
R.mutant("m2o-presort-deletes-sum-under-delete", DEP,
         sub("                    if self.cascade.delete_orphan:\n                        todelete = history.sum()\n",
             "                    if self.cascade.delete:\n                        todelete = history.sum()\n"),
         "C39-R4")
R.mutant("m2m-presort-saves-no-orphan-flag", DEP,
         sub("        if not self.cascade.delete_orphan:\n            return\n\n", ""),
         "C39-R4")
R.mutant("m2o-presort-saves-flag-is-delete", DEP,
         sub("            uowcommit.register_object(state, operation=\"add\", prop=self.prop)\n            if self.cascade.delete_orphan:\n",
             "            uowcommit.register_object(state, operation=\"add\", prop=self.prop)\n            if self.cascade.delete:\n"),
         "C39-R4")
# R5
R.mutant("scalar-pending-early-return-on-none", ATTR,
         sub("        else:\n            ret = [(None, None)]\n", "        else:\n            return [(None, None)]\n"),
         "C39-R5")
R.mutant("scalar-pending-original-not-appended", ATTR,
         sub("                ret.append((instance_state(original), original))\n", "                pass\n"),
         "C39-R5")
R.mutant("writeonly-pending-without-deleted", "orm/writeonly.py",
         sub("        return [(attributes.instance_state(x), x) for x in c.all_items]\n",
             "        return [\n            (attributes.instance_state(x), x) for x in c.added_plus_unchanged\n        ]\n"),
         "C39-R5")
R.mutant("collection-pending-current-only", ATTR,
         sub("        current = getattr(current, \"_sa_adapter\")\n\n        if self.key in state.committed_state:\n",
             "        current = getattr(current, \"_sa_adapter\")\n        if not state.modified:\n            return [(instance_state(o), o) for o in current]\n\n        if self.key in state.committed_state:\n"),
         "C39-R5")
R.mutant("cascade-iterator-pending-for-wrong-type", "orm/relationships.py",
         sub("        if type_ == \"save-update\":\n            tuples = state.manager[self.key].impl.get_all_pending(state, dict_)\n",
             "        if type_ == \"merge\":\n            tuples = state.manager[self.key].impl.get_all_pending(state, dict_)\n"),
         "C39-R5")
# benign
R.mutant("benign-o2m-presort-deletes-flag-as-value", DEP,
         sub("                        if self.cascade.delete_orphan:\n                            uowcommit.register_object(child, isdelete=True)\n                        else:\n                            uowcommit.register_object(child)\n",
             "                        uowcommit.register_object(\n                            child, isdelete=self.cascade.delete_orphan\n                        )\n"),
         None)
R.mutant("benign-o2m-presort-deletes-arms-swapped", DEP,
         sub("                        if self.cascade.delete_orphan:\n                            uowcommit.register_object(child, isdelete=True)\n                        else:\n                            uowcommit.register_object(child)\n",
             "                        if not self.cascade.delete_orphan:\n                            uowcommit.register_object(child)\n                        else:\n                            uowcommit.register_object(child, isdelete=True)\n"),
         None)
R.mutant("benign-scalar-pending-get-original", ATTR,
         sub("        if self.key in state.committed_state:\n            original = state.committed_state[self.key]\n            if (\n                original is not None\n                and original is not PASSIVE_NO_RESULT\n                and original is not NO_VALUE\n                and original is not current\n            ):\n                ret.append((instance_state(original), original))\n        return ret\n",
             "        original = state.committed_state.get(self.key, NO_VALUE)\n        if (\n            original is not None\n            and original is not PASSIVE_NO_RESULT\n            and original is not NO_VALUE\n            and original is not current\n        ):\n            ret.append((instance_state(original), original))\n        return ret\n"),
         None)
R.mutant("benign-rename-values", UTIL,
         sub("        self = super().__new__(cls, values)\n", "        n_values = len(values)\n        self = super().__new__(cls, values)\n"), None)
R.mutant("benign-mapper-split-test", "orm/mapper.py",
         sub("                if not prop.cascade or type_ not in prop.cascade:\n                    continue\n",
             "                if not prop.cascade:\n                    continue\n                if type_ not in prop.cascade:\n                    continue\n"),
         None)
R.mutant("benign-session-local", SESS,
         sub("        cascaded = list(\n            state.manager.mapper.cascade_iterator(\"expunge\", state)\n        )\n",
             "        mp = state.manager.mapper\n        cascaded = list(mp.cascade_iterator(\"expunge\", state))\n"),
         None)


# -------------------------------------------------------------------------------------- rob-F2: benign refactor families
def _chain(*edits):
    def edit(src):
        for e in edits:
            src = e(src)
        return src
    return edit


def _rename_in(start_marker, end_marker, old, new):
    """rename identifier `old` to `new` between two markers of the source (a local of one function)"""
    import re as _re

    def edit(src):
        from ..report import MutantNotApplicable
        a = src.find(start_marker)
        b = src.find(end_marker, a + 1)
        if a < 0 or b < 0:
            raise MutantNotApplicable(f"markers not found: {start_marker!r} .. {end_marker!r}")
        return src[:a] + _re.sub(rf"\b{old}\b", new, src[a:b]) + src[b:]
    return edit


# family rfF_15: renamed cascade-tuple locals, inverted nested `if head: raise / else: return`
R.mutant("benign-session-cascade-tuple-locals-renamed", SESS,
         _chain(sub("        for o, m, st_, dct_ in mapper.cascade_iterator(\n            \"save-update\", state, halt_on=self._contains_state\n        ):\n            self._save_or_update_impl(st_)\n",
                    "        cascade_type = \"save-update\"\n        for _obj, _mapper, cascaded_state, _dict in mapper.cascade_iterator(\n            cascade_type, state, halt_on=self._contains_state\n        ):\n            self._save_or_update_impl(cascaded_state)\n"),
                sub("            if head:\n                raise sa_exc.InvalidRequestError(\n                    \"Instance '%s' is not persisted\" % state_str(state)\n                )\n            else:\n                return\n",
                    "            if not head:\n                return\n\n            raise sa_exc.InvalidRequestError(\n                \"Instance '%s' is not persisted\" % state_str(state)\n            )\n")),
         None)
# family rfF_14: Mapper._is_orphan restructured with the same truth table
R.mutant("benign-mapper-is-orphan-restructured", "orm/mapper.py",
         _chain(sub("                if self.legacy_is_orphan and has_parent:\n                    return False\n                elif not self.legacy_is_orphan and not has_parent:\n                    return True\n",
                    "                if self.legacy_is_orphan:\n                    if has_parent:\n                        return False\n                elif not has_parent:\n                    return True\n"),
                sub("        if self.legacy_is_orphan:\n            return orphan_possible\n        else:\n            return False\n",
                    "        if not self.legacy_is_orphan:\n            return False\n\n        return orphan_possible\n")),
         None)
# CascadeOptions.__new__: the normalised set under another name, flags read from the frozenset itself, nested warning test
R.mutant("benign-cascade-options-value-set-renamed", UTIL,
         _rename_in("        values = set(value_list)\n", "    def __repr__(self):\n        return \"CascadeOptions(", "values", "normalized"),
         None)
R.mutant("benign-cascade-options-flags-from-self-nested-warning", UTIL,
         _chain(sub("        self.save_update = \"save-update\" in values\n        self.delete = \"delete\" in values\n", "        self.save_update = \"save-update\" in self\n        self.delete = \"delete\" in self\n"),
                sub("        if self.delete_orphan and not self.delete:\n            util.warn(\"The 'delete-orphan' cascade option requires 'delete'.\")\n",
                    "        if self.delete_orphan:\n            if not self.delete:\n                util.warn(\n                    \"The 'delete-orphan' cascade option requires 'delete'.\"\n                )\n")),
         None)
R.mutant("benign-cascade-options-all-none-flags", UTIL,
         sub("        if \"all\" in values:\n            values.update(cls._add_w_all_cascades)\n        if \"none\" in values:\n            values.clear()\n",
             "        expand_all = \"all\" in values\n        if expand_all:\n            values |= cls._add_w_all_cascades\n        if \"none\" not in values:\n            pass\n        else:\n            values.clear()\n"),
         None)
# RelationshipProperty.merge: flag test through an alias
R.mutant("benign-relationship-merge-flag-alias", "orm/relationships.py",
         sub("        if \"merge\" not in self._cascade:\n            return\n\n", "        cascades = self._cascade\n        cascades_merge = \"merge\" in cascades\n        if not cascades_merge:\n            return\n\n"),
         None)
# Mapper.cascade_iterator: cascade set in a local
R.mutant("benign-mapper-cascade-set-alias", "orm/mapper.py",
         sub("                if not prop.cascade or type_ not in prop.cascade:\n                    continue\n",
             "                cascade = prop.cascade\n                if not cascade:\n                    continue\n                follows = type_ in cascade\n                if not follows:\n                    continue\n"),
         None)
# presort: flag and hasparent test in locals, early continue
R.mutant("benign-o2m-presort-deletes-flag-locals-early-continue", DEP,
         sub("                for child in history.deleted:\n                    if child is not None and self.hasparent(child) is False:\n                        if self.cascade.delete_orphan:\n                            uowcommit.register_object(child, isdelete=True)\n                        else:\n                            uowcommit.register_object(child)\n",
             "                delete_orphans = self.cascade.delete_orphan\n                for child in history.deleted:\n                    if child is None:\n                        continue\n                    orphaned = self.hasparent(child) is False\n                    if not orphaned:\n                        continue\n"
             "                    if delete_orphans:\n                        uowcommit.register_object(child, isdelete=True)\n                    else:\n                        uowcommit.register_object(child)\n"),
         None)
# relationship cascade_iterator: comparison written the other way round
R.mutant("benign-relationship-cascade-iterator-yoda", "orm/relationships.py",
         sub("        if type_ == \"save-update\":\n            tuples = state.manager[self.key].impl.get_all_pending(state, dict_)\n",
             "        impl = state.manager[self.key].impl\n        if \"save-update\" == type_:\n            tuples = impl.get_all_pending(state, dict_)\n"),
         None)
# breaking edits on top of the refactored shapes
R.mutant("value-set-renamed-flag-from-wrong-literal", UTIL,
         _chain(_rename_in("        values = set(value_list)\n", "    def __repr__(self):\n        return \"CascadeOptions(", "values", "normalized"),
                sub("        self.expunge = \"expunge\" in normalized\n", "        self.expunge = \"merge\" in normalized\n")),
         "C39-R1")
R.mutant("flags-from-raw-argument", UTIL,
         sub("        self.delete = \"delete\" in values\n", "        self.delete = \"delete\" in value_list\n"), "C39-R1")
R.mutant("all-flag-local-from-none-literal", UTIL,
         sub("        if \"all\" in values:\n            values.update(cls._add_w_all_cascades)\n",
             "        expand_all = \"none\" in values\n        if expand_all:\n            values |= cls._add_w_all_cascades\n"),
         "C39-R1")
R.mutant("nested-orphan-warning-wrong-polarity", UTIL,
         sub("        if self.delete_orphan and not self.delete:\n            util.warn(\"The 'delete-orphan' cascade option requires 'delete'.\")\n",
             "        if self.delete_orphan:\n            if self.delete:\n                util.warn(\n                    \"The 'delete-orphan' cascade option requires 'delete'.\"\n                )\n"),
         "C39-R1")
R.mutant("merge-flag-alias-tests-emptiness-only", "orm/relationships.py",
         sub("        if \"merge\" not in self._cascade:\n            return\n\n", "        cascades = self._cascade\n        cascades_merge = bool(cascades)\n        if not cascades_merge:\n            return\n\n"),
         "C39-R2")
R.mutant("session-cascade-type-local-wrong", SESS,
         sub("        for o, m, st_, dct_ in mapper.cascade_iterator(\n            \"save-update\", state, halt_on=self._contains_state\n",
             "        cascade_type = \"refresh-expire\"\n        for o, m, st_, dct_ in mapper.cascade_iterator(\n            cascade_type, state, halt_on=self._contains_state\n"),
         "C39-R2")
R.mutant("mapper-cascade-alias-follows-any", "orm/mapper.py",
         sub("                if not prop.cascade or type_ not in prop.cascade:\n                    continue\n",
             "                cascade = prop.cascade\n                if not cascade:\n                    continue\n                follows = type_ in cascade or True\n                if not follows:\n                    continue\n"),
         "C39-R3")
R.mutant("o2m-presort-deletes-early-continue-inverted", DEP,
         sub("                for child in history.deleted:\n                    if child is not None and self.hasparent(child) is False:\n                        if self.cascade.delete_orphan:\n                            uowcommit.register_object(child, isdelete=True)\n                        else:\n                            uowcommit.register_object(child)\n",
             "                delete_orphans = self.cascade.delete_orphan\n                for child in history.deleted:\n                    if child is None:\n                        continue\n                    orphaned = self.hasparent(child) is False\n                    if orphaned:\n                        continue\n"
             "                    if delete_orphans:\n                        uowcommit.register_object(child, isdelete=True)\n                    else:\n                        uowcommit.register_object(child)\n"),
         "C39-R4")
R.mutant("o2m-presort-deletes-flag-local-is-delete", DEP,
         sub("                for child in history.deleted:\n                    if child is not None and self.hasparent(child) is False:\n                        if self.cascade.delete_orphan:\n",
             "                delete_orphans = self.cascade.delete\n                for child in history.deleted:\n                    if child is not None and self.hasparent(child) is False:\n                        if delete_orphans:\n"),
         "C39-R4")
R.mutant("relationship-cascade-iterator-yoda-wrong-type", "orm/relationships.py",
         sub("        if type_ == \"save-update\":\n            tuples = state.manager[self.key].impl.get_all_pending(state, dict_)\n",
             "        impl = state.manager[self.key].impl\n        if \"delete\" == type_:\n            tuples = impl.get_all_pending(state, dict_)\n"),
         "C39-R5")
R.mutant("benign-o2m-presort-deletes-filtered-comprehension", DEP,
         sub("                for child in history.deleted:\n                    if child is not None and self.hasparent(child) is False:\n                        if self.cascade.delete_orphan:\n",
             "                removed = [c for c in history.deleted if c is not None]\n                for child in removed:\n                    if self.hasparent(child) is False:\n                        if self.cascade.delete_orphan:\n"),
         None)
R.mutant("o2m-presort-deletes-filtered-comprehension-no-hasparent", DEP,
         sub("                for child in history.deleted:\n                    if child is not None and self.hasparent(child) is False:\n                        if self.cascade.delete_orphan:\n",
             "                removed = [c for c in history.deleted if c is not None]\n                for child in removed:\n                    if child is not None:\n                        if self.cascade.delete_orphan:\n"),
         "C39-R4")


# -------------------------------------------------------------------------------------- str2-r: round-2 seeds (C39-R6/R7/R8)
_EXPIRE_WALK = ("            cascaded = list(\n                state.manager.mapper.cascade_iterator(\"refresh-expire\", state)\n            )\n"
                "            self._conditional_expire(state)\n            for o, m, st_, dct_ in cascaded:\n                self._conditional_expire(st_)\n")
_COND_EXPIRE_AT = "    def _conditional_expire(\n"
# seed C39_3: the pre-fetched list became a streaming loop over the generator
R.mutant("seed3-refresh-expire-walk-streamed", SESS,
         sub(_EXPIRE_WALK, "            for o, m, st_, dct_ in state.manager.mapper.cascade_iterator(\n                \"refresh-expire\", state\n            ):\n"
                           "                self._conditional_expire(st_)\n            self._conditional_expire(state)\n"), "C39-R6")
R.mutant("refresh-expire-lead-expired-before-walk", SESS,
         sub(_EXPIRE_WALK, "            self._conditional_expire(state)\n            cascaded = list(\n                state.manager.mapper.cascade_iterator(\"refresh-expire\", state)\n            )\n"
                           "            for o, m, st_, dct_ in cascaded:\n                self._conditional_expire(st_)\n"), "C39-R6")
R.mutant("refresh-expire-generator-bound-not-collected", SESS,
         sub(_EXPIRE_WALK, "            cascaded = state.manager.mapper.cascade_iterator(\n                \"refresh-expire\", state\n            )\n"
                           "            for o, m, st_, dct_ in cascaded:\n                self._conditional_expire(st_)\n            self._conditional_expire(state)\n"), "C39-R6")
R.mutant("refresh-expire-helper-returns-generator-streamed", SESS,
         _chain(sub(_EXPIRE_WALK, "            for o, m, st_, dct_ in self._refresh_expire_cascade(state):\n                self._conditional_expire(st_)\n            self._conditional_expire(state)\n"),
                sub(_COND_EXPIRE_AT, "    def _refresh_expire_cascade(self, state):\n        return state.manager.mapper.cascade_iterator(\"refresh-expire\", state)\n\n" + _COND_EXPIRE_AT)),
         "C39-R6")
R.mutant("refresh-expire-streamed-direct-expire-call", SESS,
         sub(_EXPIRE_WALK, "            walk = state.manager.mapper.cascade_iterator\n            for member in walk(\"refresh-expire\", state):\n                cascaded_state = member[2]\n"
                           "                if cascaded_state.key:\n                    cascaded_state._expire(\n                        cascaded_state.dict, self.identity_map._modified\n                    )\n"
                           "            self._conditional_expire(state)\n"), "C39-R6")
R.mutant("benign-refresh-expire-walk-comprehension", SESS,
         sub(_EXPIRE_WALK, "            cascaded = [\n                member\n                for member in state.manager.mapper.cascade_iterator(\n                    \"refresh-expire\", state\n                )\n            ]\n"
                           "            self._conditional_expire(state)\n            for member in cascaded:\n                self._conditional_expire(member[2])\n"), None)
R.mutant("benign-refresh-expire-walk-helpers", SESS,
         _chain(sub(_EXPIRE_WALK, "            cascaded = self._refresh_expire_cascade(state)\n            self._conditional_expire(state)\n            self._expire_cascaded(cascaded)\n"),
                sub(_COND_EXPIRE_AT, "    def _refresh_expire_cascade(self, state):\n        return list(\n            state.manager.mapper.cascade_iterator(\"refresh-expire\", state)\n        )\n\n"
                                     "    def _expire_cascaded(self, cascaded):\n        for o, m, st_, dct_ in cascaded:\n            self._conditional_expire(st_)\n\n" + _COND_EXPIRE_AT)),
         None)
R.mutant("refresh-expire-helper-walk-after-lead-expired", SESS,
         _chain(sub(_EXPIRE_WALK, "            self._conditional_expire(state)\n            cascaded = self._refresh_expire_cascade(state)\n            self._expire_cascaded(cascaded)\n"),
                sub(_COND_EXPIRE_AT, "    def _refresh_expire_cascade(self, state):\n        return list(\n            state.manager.mapper.cascade_iterator(\"refresh-expire\", state)\n        )\n\n"
                                     "    def _expire_cascaded(self, cascaded):\n        for o, m, st_, dct_ in cascaded:\n            self._conditional_expire(st_)\n\n" + _COND_EXPIRE_AT)),
         "C39-R6")
R.mutant("benign-refresh-expire-generator-helper-collected-by-caller", SESS,
         _chain(sub(_EXPIRE_WALK, "            cascaded = tuple(self._refresh_expire_cascade(state))\n            self._conditional_expire(state)\n            for o, m, st_, dct_ in cascaded:\n                self._conditional_expire(st_)\n"),
                sub(_COND_EXPIRE_AT, "    def _refresh_expire_cascade(self, state):\n        return state.manager.mapper.cascade_iterator(\"refresh-expire\", state)\n\n" + _COND_EXPIRE_AT)),
         None)
R.mutant("benign-refresh-expire-inverted-branch-alias", SESS,
         sub("        if attribute_names:\n            state._expire_attributes(state.dict, attribute_names)\n        else:\n            # pre-fetch the full cascade since the expire is going to\n            # remove associations\n" + _EXPIRE_WALK,
             "        if not attribute_names:\n            walk = state.manager.mapper.cascade_iterator\n            lead = state\n            cascaded = list(walk(\"refresh-expire\", lead))\n"
             "            self._conditional_expire(lead)\n            for o, m, st_, dct_ in cascaded:\n                self._conditional_expire(st_)\n            return\n\n"
             "        state._expire_attributes(state.dict, attribute_names)\n"), None)
R.mutant("benign-refresh-expire-bound-generator-collected-before-expire", SESS,
         sub(_EXPIRE_WALK, "            walk = state.manager.mapper.cascade_iterator(\"refresh-expire\", state)\n            cascaded = list(walk)\n"
                           "            self._conditional_expire(state)\n            for o, m, st_, dct_ in cascaded:\n                self._conditional_expire(st_)\n"), None)
# seed C39_4: the cascade listeners bypass the cascading Session API
_SET_EXPUNGE = "                    sess.expunge(oldvalue)\n"
_REMOVE_EXPUNGE = "                if sess and item_state in sess._new:\n                    sess.expunge(item)\n"
_TRACK_AT = "def _track_cascade_events(descriptor, prop):\n"
R.mutant("seed4-set-listener-expunges-state-without-cascade", UOW,
         sub(_SET_EXPUNGE, "                    sess._expunge_states([oldvalue_state])\n"), "C39-R7")
R.mutant("remove-listener-expunges-state-without-cascade", UOW,
         sub(_REMOVE_EXPUNGE, "                if sess and item_state in sess._new:\n                    sess._expunge_states([item_state])\n"), "C39-R7")
R.mutant("append-listener-saves-without-cascade", UOW,
         sub("                sess._save_or_update_state(item_state)\n", "                sess._save_or_update_impl(item_state)\n"), "C39-R7")
R.mutant("set-listener-pops-new-directly", UOW,
         sub(_SET_EXPUNGE, "                    sess._new.pop(oldvalue_state)\n                    oldvalue_state._detach(sess)\n"), "C39-R7")
R.mutant("listener-helper-expunges-state-without-cascade", UOW,
         _chain(sub(_SET_EXPUNGE, "                    _expunge_pending_orphan(sess, oldvalue_state, oldvalue)\n"),
                sub(_REMOVE_EXPUNGE, "                if sess and item_state in sess._new:\n                    _expunge_pending_orphan(sess, item_state, item)\n"),
                sub(_TRACK_AT, "def _expunge_pending_orphan(session, orphan_state, orphan):\n    session._expunge_states([orphan_state])\n\n\n" + _TRACK_AT)),
         "C39-R7")
R.mutant("benign-listener-helper-expunges-through-public-api", UOW,
         _chain(sub(_SET_EXPUNGE, "                    _expunge_pending_orphan(sess, oldvalue_state, oldvalue)\n"),
                sub(_REMOVE_EXPUNGE, "                if sess and item_state in sess._new:\n                    _expunge_pending_orphan(sess, item_state, item)\n"),
                sub(_TRACK_AT, "def _expunge_pending_orphan(session, orphan_state, orphan):\n    # the public method applies the expunge cascade\n    session.expunge(orphan)\n\n\n" + _TRACK_AT)),
         None)
R.mutant("benign-set-listener-early-return-bound-method-alias", UOW,
         _chain(sub("        sess = state.session\n        if sess:\n            if sess._warn_on_events:\n                sess._flush_warning(\"related attribute set\")\n",
                    "        owning_session = state.session\n        if not owning_session:\n            return newvalue\n        sess = owning_session\n        expunge = sess.expunge\n        if sess:\n            if sess._warn_on_events:\n                sess._flush_warning(\"related attribute set\")\n"),
                sub(_SET_EXPUNGE, "                    expunge(oldvalue)\n")),
         None)
R.mutant("benign-remove-listener-inverted-branch", UOW,
         sub("                if sess and item_state in sess._new:\n                    sess.expunge(item)\n                else:\n",
             "                pending_here = bool(sess) and item_state in sess._new\n                if pending_here:\n                    state.session.expunge(item)\n                if not pending_here:\n"),
         None)
# C39-R8
R.mutant("delete-impl-marks-pending-cascaded-object", SESS,
         sub("        if state.key is None:\n            if head:\n                raise sa_exc.InvalidRequestError(\n                    \"Instance '%s' is not persisted\" % state_str(state)\n                )\n            else:\n                return\n",
             "        if state.key is None and head:\n            raise sa_exc.InvalidRequestError(\n                \"Instance '%s' is not persisted\" % state_str(state)\n            )\n"),
         "C39-R8")
R.mutant("o2m-presort-deletes-includes-added-children", DEP,
         sub("                for child in history.deleted:\n                    if child is not None and self.hasparent(child) is False:\n                        if self.cascade.delete_orphan:\n                            uowcommit.register_object(child, isdelete=True)\n",
             "                for child in history.sum():\n                    if child is not None and self.hasparent(child) is False:\n                        if self.cascade.delete_orphan:\n                            uowcommit.register_object(child, isdelete=True)\n"),
         "C39-R8")
R.mutant("m2o-presort-saves-deletes-whole-history", DEP,
         sub("                if history:\n                    for child in history.deleted:\n                        if self.hasparent(child) is False:\n                            uowcommit.register_object(\n                                child,\n                                isdelete=True,\n                                operation=\"delete\",\n                                prop=self.prop,\n                            )\n\n                            t = self.mapper.cascade_iterator(\"delete\", child)\n",
             "                if history:\n                    for child in history.sum():\n                        if self.hasparent(child) is False:\n                            uowcommit.register_object(\n                                child,\n                                isdelete=True,\n                                operation=\"delete\",\n                                prop=self.prop,\n                            )\n\n                            t = self.mapper.cascade_iterator(\"delete\", child)\n"),
         "C39-R8")
R.mutant("benign-m2o-presort-deletes-skips-pending", DEP,
         sub("                    for child in todelete:\n                        if child is None:\n                            continue\n",
             "                    for child in todelete:\n                        if child is None or not child.has_identity:\n                            continue\n"),
         None)
R.mutant("benign-delete-impl-truthiness-test-nested", SESS,
         sub("        if state.key is None:\n            if head:\n                raise sa_exc.InvalidRequestError(\n                    \"Instance '%s' is not persisted\" % state_str(state)\n                )\n            else:\n                return\n",
             "        identity_key = state.key\n        if not identity_key:\n            if not head:\n                return\n            raise sa_exc.InvalidRequestError(\n                \"Instance '%s' is not persisted\" % state_str(state)\n            )\n"),
         None)
R.mutant("benign-o2m-presort-deletes-removed-renamed", DEP,
         sub("                for child in history.deleted:\n                    if child is not None and self.hasparent(child) is False:\n                        if self.cascade.delete_orphan:\n                            uowcommit.register_object(child, isdelete=True)\n                        else:\n                            uowcommit.register_object(child)\n",
             "                for removed in list(history.deleted):\n                    if removed is not None and self.hasparent(removed) is False:\n                        if self.cascade.delete_orphan:\n                            uowcommit.register_object(removed, isdelete=True)\n                        else:\n                            uowcommit.register_object(removed)\n"),
         None)

# family rfI_9: the merge recursion extracted into a method of RelationshipProperty
_MERGE_REC = ("                current_state = attributes.instance_state(current)\n                current_dict = attributes.instance_dict(current)\n                _recursive[(current_state, self)] = True\n"
              "                obj = session._merge(\n                    current_state,\n                    current_dict,\n                    load=load,\n                    _recursive=_recursive,\n"
              "                    _resolve_conflict_map=_resolve_conflict_map,\n                )\n")
_MERGE_CALL = "                obj = self._merge_related_instance(\n                    session, current, load, _recursive, _resolve_conflict_map\n                )\n"
_MERGE_HELPER = ("    def _merge_related_instance(\n        self, session, current, load, _recursive, _resolve_conflict_map\n    ):\n        current_state = attributes.instance_state(current)\n"
                 "        current_dict = attributes.instance_dict(current)\n        _recursive[(current_state, self)] = True\n        return session._merge(\n            current_state,\n            current_dict,\n"
                 "            load=load,\n            _recursive=_recursive,\n            _resolve_conflict_map=_resolve_conflict_map,\n        )\n\n")
_MERGE_AT = "    def _value_as_iterable(\n"
R.mutant("benign-relationship-merge-recursion-extracted", "orm/relationships.py",
         _chain(sub(_MERGE_REC, _MERGE_CALL, count=2), sub(_MERGE_AT, _MERGE_HELPER + _MERGE_AT)), None)
R.mutant("relationship-merge-recursion-extracted-flag-not-checked", "orm/relationships.py",
         _chain(sub(_MERGE_REC, _MERGE_CALL, count=2), sub(_MERGE_AT, _MERGE_HELPER + _MERGE_AT),
                sub("        if \"merge\" not in self._cascade:\n            return\n\n", "")), "C39-R2")
