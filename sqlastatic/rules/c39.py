"""C39 -- Cascades follow their configured rules (thin: option / consumer tables)."""

from __future__ import annotations

import ast

from ..astutil import call_name, calls_in, const_str, guard_atoms, lexical_guards, test_atoms, unparse, walk_local
from ..oracles import load
from ..report import Registry, sub

R = Registry(
    "C39",
    title="Cascades follow their configured rules",
    decides=(
        "CascadeOptions computes each flag attribute from the cascade literal of the same name, 'all' expands to "
        "the documented set, 'none' clears, delete-orphan without delete is reported; each Session API reaches "
        "cascade_iterator()/prop.merge with the cascade type the documentation assigns to that API (oracle "
        "cascade_api.json); Mapper.cascade_iterator skips every relationship whose cascade set lacks the "
        "requested type and forwards that same type; every cascade literal compared with a cascade type or "
        "tested against a cascade set anywhere in orm/ is a real cascade name."
    ),
    not_decided="which objects are reached or deleted for a given object graph and history; delete-orphan processing in the unit of work.",
)

UTIL = "orm/util.py"
SESS = "orm/session.py"
CO = f"{UTIL}::CascadeOptions"


def _strset(v):
    if isinstance(v, (set, frozenset, list, tuple)) and all(isinstance(x, str) for x in v):
        return set(v)
    return None


@R.rule("C39-R1", floor=10, template="T-TABLE",
        desc="CascadeOptions.__new__: flag attribute <-> literal of the same name for all six flags; 'all' expansion; "
             "'none' clears; delete-orphan requires delete")
def r1(ctx):
    orc = load("cascade_api.json")
    cls = ctx.index.cls(CO)
    f = ctx.func(f"{CO}.__new__")
    pm = f.module.parents()
    flags = {}
    for n in walk_local(f.node):
        if isinstance(n, ast.Assign) and len(n.targets) == 1 and isinstance(n.targets[0], ast.Attribute) \
                and isinstance(n.targets[0].value, ast.Name) and n.targets[0].value.id == "self":
            v = n.value
            if isinstance(v, ast.Compare) and len(v.ops) == 1 and isinstance(v.ops[0], ast.In) and const_str(v.left) is not None:
                flags[n.targets[0].attr] = (const_str(v.left), unparse(v.comparators[0]), n)
    slots = ctx.ev.class_value(cls, "__slots__")
    slots = list(slots) if isinstance(slots, (list, tuple)) else None
    ctx.require(slots, f"{CO}.__slots__ not evaluable")
    for cascade in orc["cascades"]:
        attr = cascade.replace("-", "_")
        key = f"{CO}.{attr}"
        if attr not in flags:
            ctx.violation(key, f"flag attribute {attr} for documented cascade '{cascade}' is never computed in __new__", f.loc)
            continue
        lit, src, node = flags[attr]
        probs = []
        if lit != cascade:
            probs.append(f"flag {attr} is computed from literal '{lit}' instead of '{cascade}'")
        if src != "values":
            probs.append(f"flag is computed from `{src}` not from the normalised value set")
        if attr not in slots:
            probs.append("flag missing from __slots__")
        ctx.check(not probs, key, "; ".join(probs), f"'{lit}' in values", f"{f.module.path}:{node.lineno}")
    # 'all' expansion
    add = _strset(ctx.ev.class_value(cls, "_add_w_all_cascades"))
    allowed = _strset(ctx.ev.class_value(cls, "_allowed_cascades"))
    ctx.require(add is not None and allowed is not None, f"{CO}: _add_w_all_cascades/_allowed_cascades not evaluable")
    want = set(orc["all_expands_to"])
    upd = [c for c in calls_in(f.node) if call_name(c) == "values.update" and unparse(c.args[0]).endswith("_add_w_all_cascades")]
    g_ok = bool(upd) and ("'all' in values", True) in guard_atoms(lexical_guards(pm, upd[0], stop=f.node))
    ctx.check(add == want and g_ok, f"{CO}:all",
              f"'all' expands to {sorted(add)} (documented: {sorted(want)}) / expansion not guarded by `'all' in values`",
              f"all -> {sorted(add)}", f.loc)
    ctx.check(allowed == set(orc["cascades"]) | set(orc["pseudo"]), f"{CO}:allowed",
              f"accepted cascade names {sorted(allowed)} differ from the documented ones", f"{sorted(allowed)}", cls.loc)
    clr = [c for c in calls_in(f.node) if call_name(c) == "values.clear"]
    n_ok = bool(clr) and ("'none' in values", True) in guard_atoms(lexical_guards(pm, clr[0], stop=f.node))
    # 'none' must be applied after 'all' so that it wins, and before the flags are computed
    order_ok = n_ok and upd and clr[0].lineno > upd[0].lineno and all(clr[0].lineno < n.lineno for _, _, n in flags.values())
    ctx.check(bool(order_ok), f"{CO}:none", "'none' does not clear the value set after the 'all' expansion and before the flags are computed",
              "none clears", f.loc)
    # delete-orphan requires delete
    ok = False
    for n in walk_local(f.node):
        if isinstance(n, ast.If):
            if set(test_atoms(n.test, True)) == {("self.delete_orphan", True), ("self.delete", False)}:
                ok = any((call_name(c) or "").split(".")[-1] in ("warn", "warn_deprecated") for st in n.body for c in calls_in(st)) \
                     or any(isinstance(st, ast.Raise) for st in n.body)
    ctx.check(ok, f"{CO}:delete-orphan", "delete-orphan without delete is not reported (warn/raise)", "warns", f.loc)


def _reach(ctx, cls, start, depth=4):
    """methods of cls reachable from method `start` through self.<m>() calls"""
    seen, todo = {start}, [(start, 0)]
    while todo:
        m, d = todo.pop()
        f = cls.methods.get(m)
        if f is None or d >= depth:
            continue
        for c in calls_in(f.node):
            nm = call_name(c) or ""
            if nm.startswith("self.") and nm.count(".") == 1:
                t = nm[5:]
                if t in cls.methods and t not in seen:
                    seen.add(t)
                    todo.append((t, d + 1))
    return seen


@R.rule("C39-R2", floor=13, template="T-TABLE",
        desc="each documented Session API reaches mapper.cascade_iterator(<type>) / prop.merge with the cascade type the "
             "documentation assigns to it, and no cascade_iterator site in Session uses a type foreign to the APIs reaching it")
def r2(ctx):
    orc = load("cascade_api.json")
    api = orc["api"]
    cls = ctx.index.cls(f"{SESS}::Session")
    # literal cascade_iterator sites per method
    sites = {}
    for mname, f in cls.methods.items():
        for c in calls_in(f.node):
            if (call_name(c) or "").endswith(".cascade_iterator") and c.args:
                lit = const_str(c.args[0])
                ctx.require(lit is not None, f"{f.key}: cascade_iterator called with a non-literal type `{unparse(c.args[0])}`")
                sites.setdefault(mname, []).append((lit, c))
    ctx.require(len(sites) >= 4, f"only {len(sites)} Session methods call cascade_iterator (rule went blind)")
    # merge: prop.merge under the 'merge' flag
    rp = ctx.func("orm/relationships.py::RelationshipProperty.merge")
    merge_guard = False
    for n in walk_local(rp.node):
        if isinstance(n, ast.If) and unparse(n.test).replace(" ", "") in ("'merge'notinself._cascade", "'merge'notinself.cascade") \
                and n.body and isinstance(n.body[0], ast.Return):
            merge_guard = True
    reach_of = {}
    for a, want in sorted(api.items()):
        key = f"{SESS}::Session.{a}:cascade"
        if a not in cls.methods:
            ctx.violation(key, f"documented Session.{a} not found", cls.loc)
            continue
        reach = _reach(ctx, cls, a)
        reach_of[a] = reach
        types = {lit for m in reach for lit, _ in sites.get(m, [])}
        if want == "merge":
            pm_calls = [c for m in reach for c in calls_in(cls.methods[m].node) if call_name(c) == "prop.merge"]
            ok = bool(pm_calls) and merge_guard
            ctx.check(ok, key, "merge does not propagate through prop.merge() guarded by `'merge' not in self._cascade`",
                      "prop.merge under the merge flag", cls.methods[a].loc)
            continue
        ctx.check(want in types, key,
                  f"Session.{a} is documented to cascade along '{want}' but reaches cascade_iterator only with {sorted(types)}",
                  f"-> cascade_iterator('{want}')", cls.methods[a].loc)
    # no foreign type at a site
    for mname, lst in sorted(sites.items()):
        apis = [a for a, r in reach_of.items() if mname in r]
        allowed = {api[a] for a in apis}
        for lit, c in lst:
            key = f"{SESS}::Session.{mname}:cascade_iterator:{lit}"
            ctx.check(lit in allowed or not apis, key,
                      f"cascade_iterator('{lit}') is reached from {apis} whose documented cascades are {sorted(allowed)}",
                      f"reached from {apis}", f"{cls.module.path}:{c.lineno}", nontrivial=bool(apis))


@R.rule("C39-R3", floor=15, template="T-GUARD",
        desc="Mapper.cascade_iterator skips relationships whose cascade set lacks the requested type and forwards the "
             "same type; every cascade literal compared with a type or tested against a cascade set is a real cascade name")
def r3(ctx):
    # floor: 16 instances today (1 guard + 15 literal tests); 15 so that removing the single `"merge" not in
    # self._cascade` test is reported by C39-R2 as a violation instead of tripping this floor first
    orc = load("cascade_api.json")
    names = set(orc["cascades"]) | set(orc["pseudo"])
    f = ctx.func("orm/mapper.py::Mapper.cascade_iterator")
    tp = f.params[1]
    g = ctx.cfg(f)
    calls = [c for c in calls_in(f.node) if call_name(c) == "prop.cascade_iterator"]
    ctx.require(calls, f"{f.key}: prop.cascade_iterator call not found")
    c = calls[0]
    probs = []
    if not (c.args and isinstance(c.args[0], ast.Name) and c.args[0].id == tp):
        probs.append(f"forwards `{unparse(c.args[0]) if c.args else '?'}` instead of the requested type `{tp}`")
    nodes = g.nodes_containing(c)
    atoms = set()
    for nid in nodes:
        for t, pol in g.edge_guards(nid):
            atoms |= set(test_atoms(t, pol))
    if (f"{tp} in prop.cascade", True) not in atoms:
        probs.append(f"the relationship is traversed without `{tp} in prop.cascade` being established (found {sorted(atoms)[:4]})")
    ctx.check(not probs, f.key, "; ".join(probs), f"guarded by {tp} in prop.cascade; forwards {tp}", f.loc)
    # literal hygiene
    n_lit = 0
    for m in ctx.index.all_modules():
        if not m.relpath.startswith("orm/"):
            continue
        for fi in ctx.index.all_functions(m):
            for n in ast.walk(fi.node):
                if not (isinstance(n, ast.Compare) and len(n.ops) == 1):
                    continue
                l, r_ = n.left, n.comparators[0]
                lit, other, kind = None, None, None
                if isinstance(n.ops[0], (ast.Eq, ast.NotEq)):
                    for a, b in ((l, r_), (r_, l)):
                        if const_str(a) is not None and isinstance(b, ast.Name) and b.id == "type_" and fi.name == "cascade_iterator":
                            lit, other, kind = const_str(a), "type_", "type comparison"
                elif isinstance(n.ops[0], (ast.In, ast.NotIn)) and const_str(l) is not None:
                    tgt = unparse(r_)
                    if tgt.split(".")[-1] in ("cascade", "_cascade") or tgt in ("values",) and fi.key.startswith(CO):
                        lit, other, kind = const_str(l), tgt, "membership test"
                if lit is None:
                    continue
                n_lit += 1
                ctx.functions_analysed.add(fi.key)
                ctx.check(lit in names, f"{fi.key}:literal:{lit}",
                          f"{kind} against `{other}` uses '{lit}', which is not a cascade name ({sorted(names)}): the test can never succeed",
                          kind, f"{fi.module.path}:{n.lineno}", nontrivial=False)
    ctx.require(n_lit >= 5, f"only {n_lit} cascade literal tests found (rule went blind)")


# --------------------------------------------------------------------------------------- self-test
R.mutant("flag-from-wrong-literal", UTIL,
         sub("        self.refresh_expire = \"refresh-expire\" in values\n", "        self.refresh_expire = \"refresh_expire\" in values\n"), "C39-R1")
R.mutant("flags-swapped", UTIL,
         sub("        self.merge = \"merge\" in values\n        self.expunge = \"expunge\" in values\n", "        self.merge = \"expunge\" in values\n        self.expunge = \"merge\" in values\n"),
         "C39-R1")
R.mutant("all-includes-delete-orphan", UTIL,
         sub("        [\"all\", \"none\", \"delete-orphan\"]\n", "        [\"all\", \"none\"]\n"), "C39-R1")
R.mutant("none-before-all", UTIL,
         sub("        if \"all\" in values:\n            values.update(cls._add_w_all_cascades)\n        if \"none\" in values:\n            values.clear()\n",
             "        if \"none\" in values:\n            values.clear()\n        if \"all\" in values:\n            values.update(cls._add_w_all_cascades)\n"),
         "C39-R1")
R.mutant("expunge-uses-refresh-expire", SESS,
         sub("state.manager.mapper.cascade_iterator(\"expunge\", state)", "state.manager.mapper.cascade_iterator(\"refresh-expire\", state)"), "C39-R2")
R.mutant("add-uses-merge-cascade", SESS,
         sub("        for o, m, st_, dct_ in mapper.cascade_iterator(\n            \"save-update\", state, halt_on=self._contains_state\n",
             "        for o, m, st_, dct_ in mapper.cascade_iterator(\n            \"merge\", state, halt_on=self._contains_state\n"),
         "C39-R2")
R.mutant("merge-flag-not-checked", "orm/relationships.py",
         sub("        if \"merge\" not in self._cascade:\n            return\n\n", ""), "C39-R2")
R.mutant("mapper-iterator-no-flag-check", "orm/mapper.py",
         sub("                if not prop.cascade or type_ not in prop.cascade:\n                    continue\n", "                if not prop.cascade:\n                    continue\n"),
         "C39-R3")
R.mutant("mapper-iterator-forwards-constant", "orm/mapper.py",
         sub("                    prop.cascade_iterator(\n                        type_,\n", "                    prop.cascade_iterator(\n                        \"save-update\",\n"),
         "C39-R3")
R.mutant("relationship-literal-typo", "orm/relationships.py",
         sub("        if type_ == \"save-update\":\n            tuples = state.manager[self.key].impl.get_all_pending(state, dict_)\n",
             "        if type_ == \"save_update\":\n            tuples = state.manager[self.key].impl.get_all_pending(state, dict_)\n"),
         "C39-R3")
# benign
R.mutant("benign-rename-values", UTIL,
         sub("        self = super().__new__(cls, values)\n", "        n_values = len(values)\n        self = super().__new__(cls, values)\n"), None)
R.mutant("benign-mapper-split-test", "orm/mapper.py",
         sub("                if not prop.cascade or type_ not in prop.cascade:\n                    continue\n",
             "                if not prop.cascade:\n                    continue\n                if type_ not in prop.cascade:\n                    continue\n"),
         None)
R.mutant("benign-session-local", SESS,
         sub("        cascaded = list(\n            state.manager.mapper.cascade_iterator(\"expunge\", state)\n        )\n",
             "        mp = state.manager.mapper\n        cascaded = list(mp.cascade_iterator(\"expunge\", state))\n"),
         None)
