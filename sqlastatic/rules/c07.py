"""C07 -- IN / NOT IN with expanding parameters: empty-set rendering tables and negation flow."""

from __future__ import annotations

import ast
import re

from ..astutil import (
    call_name, calls_in, calls_named, dotted, guard_atoms, lexical_guards, returns_of, unparse,
    walk_local,
)
from ..evalx import Sym, Unknown
from ..index import ClassInfo
from ..report import Registry, sub
from ._helpers_rules_a import str_constants

R = Registry(
    "C07",
    title="IN / NOT IN with expanding parameters follows SQL semantics",
    decides=(
        "every dialect's statement compiler has a non-raising visit_empty_set_expr; the empty-set "
        "fragments of visit_empty_set_op_expr are (NULL-list) AND constant-false for IN and (NULL-list) OR "
        "constant-true for NOT IN, in scalar and tuple arms with balanced parenthesis splice, the NOT IN "
        "visitor brackets the OR form, no infix operator can bind between IN and the injected AND; each "
        "dialect empty-set SELECT has a constant-false WHERE (and one column per element type where tuple "
        "IN reaches it); negating an IN flips the expanding parameter's expand_op on a clone, and every "
        "empty-set call site passes the parameter's expand_op."
    ),
    not_decided="three-valued truth for non-empty lists on a backend; re-binding cached statements with other lengths.",
)

COMP = "sql/compiler.py"
ELEM = "sql/elements.py"
BASE = f"{COMP}::SQLCompiler"

# dialect classes that legitimately resolve to the abstract base compiler
ABSTRACT_DIALECTS = {
    "engine/default.py::DefaultDialect": "generic base dialect, never registered under a database name; "
                                         "the base compiler documents NotImplementedError for empty sets",
    "dialects/mysql/_mariadb_shim.py::MariaDBShim": "mixin; the concrete MySQL/MariaDB dialects resolve "
                                                    "statement_compiler to MySQLCompiler through the MRO",
}


def _returns_normally(ctx, fn) -> bool:
    g = ctx.cfg(fn)
    return g.exit in g.reachable([g.entry])


@R.rule("C07-R1", floor=36, template="T-EXHAUST",
        desc="the statement_compiler of every dialect class resolves visit_empty_set_expr to an "
             "implementation that returns (the base one only raises NotImplementedError)")
def r1(ctx):
    ix = ctx.index
    dd = ix.cls("engine/default.py::DefaultDialect")
    base = ix.cls(BASE)
    basem = base.methods.get("visit_empty_set_expr")
    ctx.require(basem is not None, "SQLCompiler.visit_empty_set_expr vanished")
    ctx.require(not _returns_normally(ctx, basem),
                "SQLCompiler.visit_empty_set_expr no longer only raises; the exhaustiveness rule must be re-derived")
    for d in [dd] + sorted(ix.subclasses(dd), key=lambda c: c.key):
        owner, nodes = ix.class_attr_nodes(d, "statement_compiler")
        ctx.require(nodes, f"{d.key}: no statement_compiler attribute in the MRO")
        comp = ix.resolve(owner.module, dotted(nodes[-1]) or "")
        ctx.require(isinstance(comp, ClassInfo), f"{d.key}: statement_compiler `{unparse(nodes[-1])}` is not a class")
        m = ix.resolve_method(comp, "visit_empty_set_expr")
        if d.key in ABSTRACT_DIALECTS:
            ctx.require(comp is base, f"{d.key} is listed as abstract but now has compiler {comp.key}")
            ctx.note(f"{d.key}: exempt ({ABSTRACT_DIALECTS[d.key]})")
            continue
        if m is None:
            ctx.violation(d.key, f"{comp.key} has no visit_empty_set_expr", comp.loc)
            continue
        ctx.check(_returns_normally(ctx, m), d.key,
                  f"statement compiler {comp.key} resolves visit_empty_set_expr to {m.key}, which only raises: "
                  f"`col IN ()` cannot be compiled on this dialect",
                  f"{comp.qualname} -> {m.qualname}", comp.loc)


# ------------------------------------------------------------------------------------------ R2
_FRAG = re.compile(r"^(?P<list>\(%s\)|NULL)\)\s+(?P<conn>AND|OR)\s+\((?P<a>\d+)\s*(?P<op>=|!=|<>)\s*(?P<b>\d+)$")
_WHERE = re.compile(r"WHERE\s+(?P<a>\d+)\s*(?P<op>=|!=|<>)\s*(?P<b>\d+)\s*$")


def _const_pred(a, op, b) -> bool:
    return (int(a) == int(b)) if op == "=" else (int(a) != int(b))


def _template(expr):
    """(format string, args node or None) of a `"..." % (...)` or constant return expression."""
    if isinstance(expr, ast.Constant) and isinstance(expr.value, str):
        return expr.value, None
    if isinstance(expr, ast.BinOp) and isinstance(expr.op, ast.Mod) and isinstance(expr.left, ast.Constant) \
            and isinstance(expr.left.value, str):
        return expr.left.value, expr.right
    return None, None


def _iterates_over(node, name: str) -> bool:
    """Does `node` contain a comprehension whose iterable mentions `name` (one item per element)?"""
    for n in ast.walk(node):
        if isinstance(n, (ast.GeneratorExp, ast.ListComp)):
            for g in n.generators:
                if any(isinstance(x, ast.Name) and x.id == name for x in ast.walk(g.iter)):
                    return True
    return False


NON_INFIX_LOW = {
    "and_": "the AND connective itself", "or_": "binds looser than AND",
    "comma_op": "list separator", "as_": "alias/label suffix", "desc_op": "ORDER BY modifier",
    "asc_op": "ORDER BY modifier", "nulls_first_op": "ORDER BY modifier", "nulls_last_op": "ORDER BY modifier",
    "collate": "postfix modifier of a string operand", "exists": "function-style prefix",
    "_asbool": "internal marker, renders nothing",
}


@R.rule("C07-R2", floor=14, template="T-TABLE (SQL fragment micro-parser)",
        desc="visit_empty_set_op_expr: IN -> `<NULLs>) AND (<const false>`, NOT IN -> `<NULLs>) OR (<const true>` "
             "for scalar and tuple arms, otherwise delegation to visit_empty_set_expr; NOT IN visitor "
             "brackets; dialect empty-set SELECTs end in a constant-false WHERE")
def r2(ctx):
    ix = ctx.index
    base = ix.cls(BASE)
    f = base.methods.get("visit_empty_set_op_expr")
    ctx.require(f is not None, "SQLCompiler.visit_empty_set_op_expr vanished")
    ctx.functions_analysed.add(f.key)
    p_types, p_op = f.params[1], f.params[2]
    pm = f.module.parents()
    seen = {}
    for r in returns_of(f.node):
        atoms = guard_atoms(lexical_guards(pm, r, stop=f.node))
        branch = None
        for a, pol in atoms:
            t = a.replace("operators.", "")
            if t == f"{p_op} is not_in_op" and pol:
                branch = "not_in"
            elif t == f"{p_op} is in_op" and pol:
                branch = "in"
        tuple_arm = None
        for a, pol in atoms:
            if a.replace(" ", "") == f"len({p_types})>1":
                tuple_arm = pol
        if branch is None:
            # the remaining arm: must hand over to the dialect's empty set SELECT
            v = r.value
            ok = isinstance(v, ast.Call) and dotted(v.func) == "self.visit_empty_set_expr" and v.args \
                and isinstance(v.args[0], ast.Name) and v.args[0].id == p_types
            ctx.check(ok, f.key + ":other-op",
                      f"for an expand_op that is neither in_op nor not_in_op the method returns `{unparse(v)}` "
                      f"instead of self.visit_empty_set_expr({p_types})", "delegates to visit_empty_set_expr", f.loc)
            continue
        ctx.require(tuple_arm is not None, f"{f.key}: a return in the {branch} branch is not under a len({p_types}) > 1 test")
        arm = "tuple" if tuple_arm else "scalar"
        key = f"{f.key}:{branch}:{arm}"
        fmt, args = _template(r.value)
        ctx.require(fmt is not None, f"{key}: return value `{unparse(r.value)}` is not a string template")
        m = _FRAG.match(fmt.strip())
        if not m:
            ctx.violation(key, f"fragment {fmt!r} is not of the form `<NULL list>) AND|OR (<n> <op> <n>` "
                               f"(it must close the IN parenthesis and open the one the template closes)",
                          f"{f.module.path}:{r.lineno}")
            seen[(branch, arm)] = True
            continue
        problems = []
        truth = _const_pred(m["a"], m["op"], m["b"])
        if branch == "in":
            if m["conn"] != "AND":
                problems.append(f"IN over the empty set is joined with {m['conn']} (must be AND <false>)")
            if truth:
                problems.append(f"constant predicate {m['a']} {m['op']} {m['b']} is true: `x IN ()` would not be false")
        else:
            if m["conn"] != "OR":
                problems.append(f"NOT IN over the empty set is joined with {m['conn']} (must be OR <true>)")
            if not truth:
                problems.append(f"constant predicate {m['a']} {m['op']} {m['b']} is false: `NULL NOT IN ()` would be NULL, not true")
        if arm == "tuple":
            if m["list"] != "(%s)":
                problems.append("tuple arm does not render a parenthesised row of NULLs")
            elif args is None or not _iterates_over(args, p_types) or "NULL" not in str_constants(args):
                problems.append(f"tuple arm does not render one NULL per element of `{p_types}`")
        elif m["list"] != "NULL":
            problems.append("scalar arm does not render a single NULL")
        ctx.check(not problems, key, "; ".join(problems), f"{fmt!r}", f"{f.module.path}:{r.lineno}")
        seen[(branch, arm)] = True
    for b in ("in", "not_in"):
        for a in ("scalar", "tuple"):
            if (b, a) not in seen:
                ctx.violation(f"{f.key}:{b}:{a}", f"no fragment for the {b} / {a} case", f.loc)

    # NOT IN renders `x NOT IN (NULL) OR (1 = 1)`: the visitor has to bracket the whole thing
    ni = base.methods.get("visit_not_in_op_binary")
    ctx.require(ni is not None, "SQLCompiler.visit_not_in_op_binary vanished")
    ctx.functions_analysed.add(ni.key)
    ok = False
    for r in returns_of(ni.node):
        fmt, args = _template(r.value)
        if fmt is not None and fmt.strip().startswith("(") and fmt.strip().endswith(")") and fmt.count("%s") == 1:
            ok = True
    ctx.check(ok, ni.key, "NOT IN is not rendered inside parentheses although its empty-set form contains a top-level OR",
              "(… NOT IN … )", ni.loc)
    for cls in ix.subclasses(base):
        o = cls.methods.get("visit_not_in_op_binary")
        if o is not None:
            good = any((_template(r.value)[0] or "").strip().startswith("(") for r in returns_of(o.node)) \
                or bool(calls_named(o.node, "visit_not_in_op_binary"))
            ctx.check(good, o.key, "override of visit_not_in_op_binary drops the brackets", "brackets kept", o.loc)

    # IN renders `x IN (NULL) AND (1 != 1)` unbracketed: nothing may bind between IN and AND
    prec = ctx.ev.module_value(ix.module("sql/operators.py"), "_PRECEDENCE")
    ctx.require(isinstance(prec, dict) and prec, "_PRECEDENCE is not a literal table")
    byname = {}
    for k, v in prec.items():
        ctx.require(isinstance(k, Sym) and isinstance(v, int), f"_PRECEDENCE entry {k!r}: {v!r} not understood")
        byname[k.short] = v
    ctx.require("in_op" in byname and "and_" in byname, "_PRECEDENCE lacks in_op / and_")
    between = sorted(n for n, p in byname.items() if p < byname["in_op"])
    unknown = [n for n in between if n not in NON_INFIX_LOW]
    bad = [n for n in unknown]
    ctx.check(not bad and byname["and_"] < byname["in_op"], "sql/operators.py::_PRECEDENCE:in_op-vs-injected-AND",
              f"operator(s) {bad} rank below in_op, so `x IN ()` is not bracketed under them and the injected "
              f"`AND (1 != 1)` is captured by the parent operator",
              f"only {between} rank below in_op", None)

    # dialect SELECTs
    routed = set()  # classes whose IN / NOT IN empty sets go through visit_empty_set_expr
    for cls in [base] + ix.subclasses(base):
        o = cls.methods.get("visit_empty_set_op_expr")
        if o is not None and cls is not base:
            ctx.functions_analysed.add(o.key)
            rets = returns_of(o.node)
            deleg = rets and all(isinstance(r.value, ast.Call) and dotted(r.value.func) == "self.visit_empty_set_expr"
                                 and r.value.args and isinstance(r.value.args[0], ast.Name)
                                 and r.value.args[0].id == o.params[1] for r in rets)
            ctx.require(deleg, f"{o.key}: override is not a plain delegation to visit_empty_set_expr (unknown idiom)")
            routed.add(cls.key)
            for s in ix.subclasses(cls):
                routed.add(s.key)
    for cls in sorted(ix.subclasses(base), key=lambda c: c.key):
        o = cls.methods.get("visit_empty_set_expr")
        if o is None:
            continue
        ctx.functions_analysed.add(o.key)
        rets = returns_of(o.node)
        ctx.require(rets, f"{o.key}: no return")
        problems = []
        for r in rets:
            fmt, args = _template(r.value)
            if fmt is None and isinstance(r.value, ast.BinOp):
                fmt, args = _template(r.value)
            ctx.require(fmt is not None, f"{o.key}: return `{unparse(r.value)[:60]}` is not a string template")
            m = _WHERE.search(fmt.strip())
            if not fmt.strip().upper().startswith("SELECT"):
                problems.append(f"{fmt!r} is not a SELECT")
            if not m:
                problems.append(f"{fmt!r} does not end in a constant WHERE predicate")
            elif _const_pred(m["a"], m["op"], m["b"]):
                problems.append(f"WHERE {m['a']}{m['op']}{m['b']} is true: the 'empty' set has a row")
            if cls.key in routed and not (args is not None and _iterates_over(args, o.params[1])):
                problems.append("tuple IN reaches this SELECT but it renders a fixed number of columns")
        ctx.check(not problems, o.key, "; ".join(problems), "SELECT … WHERE <constant false>", o.loc)


# ------------------------------------------------------------------------------------------ R3
@R.rule("C07-R3", floor=8, template="T-FLOW",
        desc="BinaryExpression._negate routes the right operand through _negate_in_binary(negate, operator); "
             "BindParameter._negate_in_binary flips expand_op on a clone exactly when it equals the original "
             "operator; the IN coercion stamps expand_op; every empty-set call site passes parameter.expand_op")
def r3(ctx):
    ix = ctx.index
    f = ctx.func(f"{ELEM}::BinaryExpression._negate")
    ctor = [c for c in calls_in(f.node) if (call_name(c) or "") == "BinaryExpression"]
    ctx.require(ctor, "BinaryExpression._negate does not construct a BinaryExpression")
    c = ctor[0]
    problems = []
    right = c.args[1] if len(c.args) > 1 else None
    if not (isinstance(right, ast.Call) and dotted(right.func) == "self.right._negate_in_binary"):
        problems.append(f"right operand is `{unparse(right)}`; it does not pass through self.right._negate_in_binary()")
    else:
        a = [unparse(x) for x in right.args]
        if a != ["self.negate", "self.operator"]:
            problems.append(f"_negate_in_binary is called with ({', '.join(a)}), expected (self.negate, self.operator)")
    if len(c.args) < 3 or unparse(c.args[2]) != "self.negate":
        problems.append("the negated expression's operator is not self.negate")
    kw = {k.arg: unparse(k.value) for k in c.keywords}
    if kw.get("negate") != "self.operator":
        problems.append("the negated expression's negate is not self.operator")
    if len(c.args) < 1 or unparse(c.args[0]) != "self.left":
        problems.append("left operand is not self.left")
    ctx.check(not problems, f.key, "; ".join(problems), "right._negate_in_binary(self.negate, self.operator)", f.loc)

    f = ctx.func(f"{ELEM}::BindParameter._negate_in_binary")
    p_neg, p_orig = f.params[1], f.params[2]
    problems = []
    pm = f.module.parents()
    clones = {n.targets[0].id for n in walk_local(f.node)
              if isinstance(n, ast.Assign) and len(n.targets) == 1 and isinstance(n.targets[0], ast.Name)
              and isinstance(n.value, ast.Call) and dotted(n.value.func) in ("self._clone", "ClauseElement._clone")}
    stores = [n for n in walk_local(f.node) if isinstance(n, ast.Assign) and len(n.targets) == 1
              and isinstance(n.targets[0], ast.Attribute) and n.targets[0].attr == "expand_op"]
    if len(stores) != 1:
        problems.append(f"{len(stores)} stores to expand_op (expected one)")
    else:
        st = stores[0]
        tgt = st.targets[0].value
        if not (isinstance(tgt, ast.Name) and tgt.id in clones):
            problems.append(f"expand_op is stored on `{unparse(tgt)}`, which is not a fresh clone (the cached original would flip)")
        if not (isinstance(st.value, ast.Name) and st.value.id == p_neg):
            problems.append(f"expand_op is set to `{unparse(st.value)}` instead of the negated operator `{p_neg}`")
        atoms = guard_atoms(lexical_guards(pm, st, stop=f.node))
        if (f"self.expand_op is {p_orig}", True) not in atoms:
            problems.append(f"the flip is not guarded by `self.expand_op is {p_orig}`")
        rets = returns_of(f.node)
        g_ret = [r for r in rets if (f"self.expand_op is {p_orig}", True) in guard_atoms(lexical_guards(pm, r, stop=f.node))]
        if not (g_ret and all(isinstance(r.value, ast.Name) and r.value.id in clones for r in g_ret)):
            problems.append("the flipped clone is not what is returned")
        others = [r for r in rets if r not in g_ret]
        if not (others and all(isinstance(r.value, ast.Name) and r.value.id == "self" for r in others)):
            problems.append("a parameter with a different expand_op is not returned unchanged")
    ctx.check(not problems, f.key, "; ".join(problems), "clone.expand_op = negated_op iff expand_op is original_op", f.loc)

    ce = ix.cls(f"{ELEM}::ClauseElement")
    hook = ix.resolve_method(ce, "_negate_in_binary")
    if hook is None:
        hook = ix.resolve_method(ix.cls(f"{ELEM}::ColumnElement"), "_negate_in_binary")
    ctx.require(hook is not None, "no base _negate_in_binary hook")
    ctx.functions_analysed.add(hook.key)
    rets = returns_of(hook.node)
    ctx.check(bool(rets) and all(isinstance(r.value, ast.Name) and r.value.id == "self" for r in rets), hook.key,
              "the default _negate_in_binary hook does not return self", "returns self", hook.loc)

    f = ctx.func("sql/coercions.py::InElementImpl._post_coercion")
    p_operator = "operator"
    ctx.require(p_operator in f.params, "InElementImpl._post_coercion has no `operator` parameter")
    stores = [n for n in walk_local(f.node) if isinstance(n, ast.Assign) and len(n.targets) == 1
              and isinstance(n.targets[0], ast.Attribute) and n.targets[0].attr in ("expand_op", "expanding")]
    by = {n.targets[0].attr: n for n in stores}
    problems = []
    if "expand_op" not in by or not (isinstance(by["expand_op"].value, ast.Name) and by["expand_op"].value.id == p_operator):
        problems.append("expand_op is not set to the IN operator on the coerced bind parameter")
    if "expanding" not in by or unparse(by["expanding"].value) != "True":
        problems.append("expanding is not set")
    for n in stores:
        tgt = n.targets[0].value
        fresh = any(isinstance(a, ast.Assign) and isinstance(a.targets[0], ast.Name) and isinstance(tgt, ast.Name)
                    and a.targets[0].id == tgt.id and isinstance(a.value, ast.Call)
                    and (dotted(a.value.func) or "").endswith("._clone") for a in walk_local(f.node))
        if not fresh:
            problems.append(f"`{unparse(n)}` mutates a parameter that was not cloned first")
    ctx.check(not problems, f.key, "; ".join(problems), "clone.expanding = True; clone.expand_op = operator", f.loc)

    n_sites = 0
    for m in ix.all_modules():
        if "visit_empty_set_op_expr" not in m.source:
            continue
        for fn in ix.all_functions(m):
            for c in calls_named(fn.node, "visit_empty_set_op_expr"):
                n_sites += 1
                ctx.functions_analysed.add(fn.key)
                arg = c.args[1] if len(c.args) > 1 else None
                ok = isinstance(arg, ast.Attribute) and arg.attr == "expand_op"
                ctx.check(ok, f"{fn.key}:call#{n_sites}",
                          f"`{unparse(c)[:80]}` does not pass the parameter's expand_op", unparse(arg) if arg else "",
                          f"{m.path}:{c.lineno}")


# ------------------------------------------------------------------------------------------ self test
R.mutant("r1-str-dialect-uses-base-compiler", "engine/default.py",
         sub("    statement_compiler = compiler.StrSQLCompiler\n", "    statement_compiler = compiler.SQLCompiler\n"), "C07-R1")
R.mutant("r1-mssql-dialect-uses-base-compiler", "dialects/mssql/base.py",
         sub("    statement_compiler = MSSQLCompiler\n", "    statement_compiler = compiler.SQLCompiler\n"), "C07-R1")
R.mutant("r1-oracle-raises-for-tuples", "dialects/oracle/base.py",
         sub('        return "SELECT 1 FROM DUAL WHERE 1!=1"\n',
             '        raise NotImplementedError()\n        return "SELECT 1 FROM DUAL WHERE 1!=1"\n'), "C07-R1")
R.mutant("r2-not-in-const-false", COMP, sub('return "NULL) OR (1 = 1"', 'return "NULL) OR (1 != 1"'), "C07-R2")
R.mutant("r2-in-joined-with-or", COMP, sub('return "NULL) AND (1 != 1"', 'return "NULL) OR (1 != 1"'), "C07-R2")
R.mutant("r2-swap-branches", COMP,
         sub("        if expand_op is operators.not_in_op:\n            if len(type_) > 1:\n                return \"(%s)) OR (1 = 1\"",
             "        if expand_op is operators.in_op:\n            if len(type_) > 1:\n                return \"(%s)) OR (1 = 1\""), "C07-R2")
R.mutant("r2-sqlite-where-true", "dialects/sqlite/base.py",
         sub('        return "SELECT %s FROM (SELECT %s) WHERE 1!=1" % (', '        return "SELECT %s FROM (SELECT %s) WHERE 1=1" % ('), "C07-R2")
R.mutant("r2-not-in-unbracketed", COMP,
         sub('        return "(%s)" % self._generate_generic_binary(\n            binary, OPERATORS[operator], **kw\n        )\n\n    def visit_empty_set_op_expr',
             '        return "%s" % self._generate_generic_binary(\n            binary, OPERATORS[operator], **kw\n        )\n\n    def visit_empty_set_op_expr'), "C07-R2")
R.mutant("r3-negate-keeps-right", ELEM,
         sub("                self.right._negate_in_binary(self.negate, self.operator),\n", "                self.right,\n"), "C07-R3")
R.mutant("r3-flip-on-self", ELEM,
         sub("            bind = self._clone()\n            bind.expand_op = negated_op\n            return bind\n",
             "            self.expand_op = negated_op\n            return self\n"), "C07-R3")
R.mutant("r3-flip-to-original", ELEM, sub("            bind.expand_op = negated_op\n", "            bind.expand_op = original_op\n"), "C07-R3")
R.mutant("r3-callsite-drops-expand-op", COMP,
         sub("                ) + self.visit_empty_set_op_expr(\n                    parameter.type.types, parameter.expand_op\n",
             "                ) + self.visit_empty_set_op_expr(\n                    parameter.type.types, None\n"), "C07-R3")
# benign
R.mutant("benign-rename-clone", ELEM,
         sub("            bind = self._clone()\n            bind.expand_op = negated_op\n            return bind\n",
             "            flipped = self._clone()\n            flipped.expand_op = negated_op\n            return flipped\n"), None)
R.mutant("benign-equivalent-constants", COMP, sub('return "NULL) AND (1 != 1"', 'return "NULL) AND (0 = 1"'), None)
R.mutant("benign-added-dialect-comment-and-log", "dialects/sqlite/base.py",
         sub("        return self.visit_empty_set_expr(type_)\n", "        _n = len(type_)\n        return self.visit_empty_set_expr(type_)\n"), None)
