"""C07 -- IN / NOT IN with expanding parameters: empty-set rendering tables and negation flow."""

from __future__ import annotations

import ast
import re

from ..astutil import (
    call_name, calls_in, calls_named, dotted, guard_atoms, lexical_guards, returns_of, unparse,
    walk_local,
)
from ..evalx import Sym, Unknown
from ..index import ClassInfo
from ..report import Registry, chain, sub
from ._helpers_rules_a import str_constants
from ._helpers_rob_c1 import (
    Opaque, PyLite, SStr, Unsupported, bind_call_args, feasible_reachable, inline_locals, label_of, returned_values,
)

R = Registry(
    "C07",
    title="IN / NOT IN with expanding parameters follows SQL semantics",
    decides=(
        "every dialect's statement compiler has a non-raising visit_empty_set_expr; the empty-set "
        "fragments of visit_empty_set_op_expr are (NULL-list) AND constant-false for IN and (NULL-list) OR "
        "constant-true for NOT IN, in scalar and tuple arms with balanced parenthesis splice, the NOT IN "
        "visitor brackets the OR form, no infix operator can bind between IN and the injected AND; each "
        "dialect empty-set SELECT has a constant-false WHERE (and one column per element type where tuple "
        "IN reaches it); negating an IN flips the expanding parameter's expand_op on a clone, and every "
        "empty-set call site passes the parameter's expand_op; the literal and the bound expansion of an IN "
        "list render one item per element (no filter/slice/mutation between the list and the rendered items, "
        "every arm iterates the whole list, empty-set rendering selected by emptiness alone) and agree with "
        "each other on the row test, the empty arms and the list syntax; expanded elements are looked up in "
        "the bind-processor mapping by the raw bind name and their processors are registered under the keys "
        "put into the parameter dictionary; generated element names are compared with the existing bind names; no function "
        "of sql/coercions.py (the IN coercion in particular) stores on / mutates an object that is not a fresh copy on every path "
        "to the store, so a caller's bindparam shared between an IN and a NOT IN statement keeps its expand_op; the text an "
        "expander returned is spliced into the statement whole, never taken apart again at a separator."
    ),
    not_decided="three-valued truth of the backend's IN for non-empty lists; what the literal/bind processors "
                "of a type do to a value; re-binding cached statements with other lengths beyond the clauses above.",
)

COMP = "sql/compiler.py"
ELEM = "sql/elements.py"
BASE = f"{COMP}::SQLCompiler"

# dialect classes that legitimately resolve to the abstract base compiler
ABSTRACT_DIALECTS = {
    "engine/default.py::DefaultDialect": "generic base dialect, never registered under a database name; "
                                         "the base compiler documents NotImplementedError for empty sets",
    "dialects/mysql/_mariadb_shim.py::MariaDBShim": "mixin; the concrete MySQL/MariaDB dialects resolve "
                                                    "statement_compiler to MySQLCompiler through the MRO",
}


def _returns_normally(ctx, fn) -> bool:
    g = ctx.cfg(fn)
    return g.exit in g.reachable([g.entry])


@R.rule("C07-R1", floor=36, template="T-EXHAUST",
        desc="the statement_compiler of every dialect class resolves visit_empty_set_expr to an "
             "implementation that returns (the base one only raises NotImplementedError)")
def r1(ctx):
    ix = ctx.index
    dd = ix.cls("engine/default.py::DefaultDialect")
    base = ix.cls(BASE)
    basem = base.methods.get("visit_empty_set_expr")
    ctx.require(basem is not None, "SQLCompiler.visit_empty_set_expr vanished")
    ctx.require(not _returns_normally(ctx, basem),
                "SQLCompiler.visit_empty_set_expr no longer only raises; the exhaustiveness rule must be re-derived")
    for d in [dd] + sorted(ix.subclasses(dd), key=lambda c: c.key):
        owner, nodes = ix.class_attr_nodes(d, "statement_compiler")
        ctx.require(nodes, f"{d.key}: no statement_compiler attribute in the MRO")
        comp = ix.resolve(owner.module, dotted(nodes[-1]) or "")
        ctx.require(isinstance(comp, ClassInfo), f"{d.key}: statement_compiler `{unparse(nodes[-1])}` is not a class")
        m = ix.resolve_method(comp, "visit_empty_set_expr")
        if d.key in ABSTRACT_DIALECTS:
            ctx.require(comp is base, f"{d.key} is listed as abstract but now has compiler {comp.key}")
            ctx.note(f"{d.key}: exempt ({ABSTRACT_DIALECTS[d.key]})")
            continue
        if m is None:
            ctx.violation(d.key, f"{comp.key} has no visit_empty_set_expr", comp.loc)
            continue
        ctx.check(_returns_normally(ctx, m), d.key,
                  f"statement compiler {comp.key} resolves visit_empty_set_expr to {m.key}, which only raises: "
                  f"`col IN ()` cannot be compiled on this dialect",
                  f"{comp.qualname} -> {m.qualname}", comp.loc)


# ------------------------------------------------------------------------------------------ R2
_FRAG = re.compile(r"^(?P<list>\((?P<row>[^()]*)\)|[^()\s]+)\)\s+(?P<conn>AND|OR)\s+\((?P<a>\d+)\s*(?P<op>=|!=|<>)\s*(?P<b>\d+)$")
_WHERE = re.compile(r"WHERE\s+(?P<a>\d+)\s*(?P<op>=|!=|<>)\s*(?P<b>\d+)\s*$")


def _const_pred(a, op, b) -> bool:
    return (int(a) == int(b)) if op == "=" else (int(a) != int(b))


def _template(expr):
    """(format string, args node or None) of a `"..." % (...)` or constant return expression."""
    if isinstance(expr, ast.Constant) and isinstance(expr.value, str):
        return expr.value, None
    if isinstance(expr, ast.BinOp) and isinstance(expr.op, ast.Mod) and isinstance(expr.left, ast.Constant) \
            and isinstance(expr.left.value, str):
        return expr.left.value, expr.right
    return None, None


def _render(ctx, f, cls, args, no_follow=(), truth=None):
    """Interpret method `f` (PyLite: no SQLAlchemy code is run, the AST is evaluated on opaque inputs) and return
    ('return', value) / ('raise', name).  What the text looks like for a given operator / number of element types
    is read from the *result*, so %-formatting, f-strings, a shared suffix local, a loop that collects the items
    or a private helper all read the same.  A construct the interpreter does not know is an analysis error."""
    try:
        return PyLite(ctx, f.module, truth=truth, cls=cls, no_follow=no_follow).run(f, args)
    except Unsupported as e:
        ctx.error(f"{f.key}: cannot be evaluated: {e} (unknown idiom)")


def _text(v):
    """Rendered text of an interpreter value (opaque fragments as \x00?), or None when it is not a string."""
    if isinstance(v, str):
        return v
    if isinstance(v, SStr):
        return v.text()
    return None


NON_INFIX_LOW = {
    "and_": "the AND connective itself", "or_": "binds looser than AND",
    "comma_op": "list separator", "as_": "alias/label suffix", "desc_op": "ORDER BY modifier",
    "asc_op": "ORDER BY modifier", "nulls_first_op": "ORDER BY modifier", "nulls_last_op": "ORDER BY modifier",
    "collate": "postfix modifier of a string operand", "exists": "function-style prefix",
    "_asbool": "internal marker, renders nothing",
}


@R.rule("C07-R2", floor=14, template="T-TABLE (SQL fragment micro-parser)",
        desc="visit_empty_set_op_expr: IN -> `<NULLs>) AND (<const false>`, NOT IN -> `<NULLs>) OR (<const true>` "
             "for scalar and tuple arms, otherwise delegation to visit_empty_set_expr; NOT IN visitor "
             "brackets; dialect empty-set SELECTs end in a constant-false WHERE")
def r2(ctx):
    ix = ctx.index
    base = ix.cls(BASE)
    f = base.methods.get("visit_empty_set_op_expr")
    ctx.require(f is not None, "SQLCompiler.visit_empty_set_op_expr vanished")
    ctx.functions_analysed.add(f.key)
    ctx.require(len(f.params) >= 3, "visit_empty_set_op_expr(self, type_, expand_op) signature changed")
    p_types = f.params[1]
    ops = {b: ctx.ev.eval(ast.parse(f"operators.{n}", mode="eval").body, f.module)
           for b, n in (("in", "in_op"), ("not_in", "not_in_op"), ("other", "eq"))}
    ctx.require(all(isinstance(v, Sym) for v in ops.values()), "operators.in_op / not_in_op not resolved from sql/compiler.py")
    # the method is evaluated for each expand_op and for 1, 2 and 3 element types
    for branch in ("in", "not_in"):
        per_arm = {"scalar": [], "tuple": []}
        shown = {}
        for n in (1, 2, 3):
            arm = "tuple" if n > 1 else "scalar"
            types = [Opaque(f"{p_types}[{i}]") for i in range(n)]
            kind, val = _render(ctx, f, base, [Opaque("self"), types, ops[branch]], no_follow=("visit_empty_set_expr",))
            problems = per_arm[arm]
            txt = _text(val) if kind == "return" else None
            if txt is None:
                problems.append(f"for {n} element type(s) the method {'raises ' + str(val) if kind == 'raise' else 'returns `' + label_of(val) + '`'}"
                                f" instead of an SQL fragment")
                continue
            shown[arm] = txt
            m = _FRAG.match(txt.strip())
            if not m:
                problems.append(f"fragment {txt!r} is not of the form `<NULL list>) AND|OR (<n> <op> <n>` "
                                f"(it must close the IN parenthesis and open the one the template closes)")
                continue
            truth = _const_pred(m["a"], m["op"], m["b"])
            if branch == "in":
                if m["conn"] != "AND":
                    problems.append(f"IN over the empty set is joined with {m['conn']} (must be AND <false>)")
                if truth:
                    problems.append(f"constant predicate {m['a']} {m['op']} {m['b']} is true: `x IN ()` would not be false")
            else:
                if m["conn"] != "OR":
                    problems.append(f"NOT IN over the empty set is joined with {m['conn']} (must be OR <true>)")
                if not truth:
                    problems.append(f"constant predicate {m['a']} {m['op']} {m['b']} is false: `NULL NOT IN ()` would be NULL, not true")
            if arm == "tuple":
                row = m["row"]
                if row is None:
                    problems.append("tuple arm does not render a parenthesised row of NULLs")
                elif [x.strip() for x in row.split(",")] != ["NULL"] * n:
                    problems.append(f"tuple arm does not render one NULL per element of `{p_types}` ({n} types -> `({row})`)")
            elif m["list"] != "NULL":
                problems.append("scalar arm does not render a single NULL")
        for arm in ("scalar", "tuple"):
            uniq = list(dict.fromkeys(per_arm[arm]))
            ctx.check(not uniq, f"{f.key}:{branch}:{arm}", "; ".join(uniq), repr(shown.get(arm, "")), f.loc)
    # the remaining arm: must hand over to the dialect's empty set SELECT
    types = [Opaque(f"{p_types}[{i}]") for i in range(2)]
    kind, val = _render(ctx, f, base, [Opaque("self"), types, ops["other"]], no_follow=("visit_empty_set_expr",))
    ok = kind == "return" and isinstance(val, Opaque) and val.call is not None and val.call[0] == "self.visit_empty_set_expr" \
        and val.call[1] and val.call[1][0] is types
    ctx.check(ok, f.key + ":other-op",
              f"for an expand_op that is neither in_op nor not_in_op the method {'returns `' + label_of(val) + '`' if kind == 'return' else 'raises ' + str(val)} "
              f"instead of self.visit_empty_set_expr({p_types})", "delegates to visit_empty_set_expr", f.loc)

    # NOT IN renders `x NOT IN (NULL) OR (1 = 1)`: the visitor has to bracket the whole thing
    def bracketed(cls, m):
        kind, val = _render(ctx, m, cls, [Opaque("self")] + [Opaque(p) for p in m.params[1:3]])
        if kind != "return":
            return False, False
        txt = _text(val)
        deleg = isinstance(val, Opaque) and val.call is not None and val.call[0].endswith(".visit_not_in_op_binary")
        return (txt is not None and txt.strip().startswith("(") and txt.strip().endswith(")")), deleg

    ni = base.methods.get("visit_not_in_op_binary")
    ctx.require(ni is not None, "SQLCompiler.visit_not_in_op_binary vanished")
    ctx.functions_analysed.add(ni.key)
    ok, _ = bracketed(base, ni)
    ctx.check(ok, ni.key, "NOT IN is not rendered inside parentheses although its empty-set form contains a top-level OR",
              "(… NOT IN … )", ni.loc)
    for cls in ix.subclasses(base):
        o = cls.methods.get("visit_not_in_op_binary")
        if o is not None:
            ctx.functions_analysed.add(o.key)
            ok, deleg = bracketed(cls, o)
            ctx.check(ok or deleg, o.key, "override of visit_not_in_op_binary drops the brackets", "brackets kept", o.loc)

    # IN renders `x IN (NULL) AND (1 != 1)` unbracketed: nothing may bind between IN and AND
    prec = ctx.ev.module_value(ix.module("sql/operators.py"), "_PRECEDENCE")
    ctx.require(isinstance(prec, dict) and prec, "_PRECEDENCE is not a literal table")
    byname = {}
    for k, v in prec.items():
        ctx.require(isinstance(k, Sym) and isinstance(v, int), f"_PRECEDENCE entry {k!r}: {v!r} not understood")
        byname[k.short] = v
    ctx.require("in_op" in byname and "and_" in byname, "_PRECEDENCE lacks in_op / and_")
    between = sorted(n for n, p in byname.items() if p < byname["in_op"])
    unknown = [n for n in between if n not in NON_INFIX_LOW]
    bad = [n for n in unknown]
    ctx.check(not bad and byname["and_"] < byname["in_op"], "sql/operators.py::_PRECEDENCE:in_op-vs-injected-AND",
              f"operator(s) {bad} rank below in_op, so `x IN ()` is not bracketed under them and the injected "
              f"`AND (1 != 1)` is captured by the parent operator",
              f"only {between} rank below in_op", None)

    # dialect SELECTs
    routed = set()  # classes whose IN / NOT IN empty sets go through visit_empty_set_expr
    for cls in [base] + ix.subclasses(base):
        o = cls.methods.get("visit_empty_set_op_expr")
        if o is not None and cls is not base:
            ctx.functions_analysed.add(o.key)
            for b in ("in", "not_in", "other"):
                types = [Opaque("t0"), Opaque("t1")]
                kind, val = _render(ctx, o, cls, [Opaque("self"), types, ops[b]], no_follow=("visit_empty_set_expr",))
                deleg = kind == "return" and isinstance(val, Opaque) and val.call is not None \
                    and val.call[0] == "self.visit_empty_set_expr" and val.call[1] and val.call[1][0] is types
                ctx.require(deleg, f"{o.key}: override is not a plain delegation to visit_empty_set_expr (unknown idiom)")
            routed.add(cls.key)
            for s in ix.subclasses(cls):
                routed.add(s.key)
    for cls in sorted(ix.subclasses(base), key=lambda c: c.key):
        o = cls.methods.get("visit_empty_set_expr")
        if o is None:
            continue
        ctx.functions_analysed.add(o.key)
        problems = []
        commas = {}
        for n in (1, 3):
            kind, val = _render(ctx, o, cls, [Opaque("self"), [Opaque(f"t{i}") for i in range(n)]])
            ctx.require(kind == "return", f"{o.key}: raises {val} (C07-R1 judges that)")
            fmt = _text(val)
            ctx.require(fmt is not None, f"{o.key}: returns `{label_of(val)[:60]}`, not a string")
            m = _WHERE.search(fmt.strip())
            if not fmt.strip().upper().startswith("SELECT"):
                problems.append(f"{fmt!r} is not a SELECT")
            if not m:
                problems.append(f"{fmt!r} does not end in a constant WHERE predicate")
            elif _const_pred(m["a"], m["op"], m["b"]):
                problems.append(f"WHERE {m['a']}{m['op']}{m['b']} is true: the 'empty' set has a row")
            commas[n] = fmt.count(",")
        if cls.key in routed and not commas[3] - commas[1] >= 2:
            problems.append("tuple IN reaches this SELECT but it renders a fixed number of columns")
        problems = list(dict.fromkeys(problems))
        ctx.check(not problems, o.key, "; ".join(problems), "SELECT … WHERE <constant false>", o.loc)


# ------------------------------------------------------------------------------------------ R3
# floor: 4 anchors (_negate, BindParameter._negate_in_binary, the base hook, InElementImpl._post_coercion) + at least one
# empty-set site per expander (2).  Today there are 4 sites (tuple / scalar arm x 2 expanders); merging the arms into one
# call, or the calls into a helper, is a refactoring and must not look like a vanished anchor.
@R.rule("C07-R3", floor=6, template="T-FLOW",
        desc="BinaryExpression._negate routes the right operand through _negate_in_binary(negate, operator); "
             "BindParameter._negate_in_binary flips expand_op on a clone exactly when it equals the original "
             "operator; the IN coercion stamps expand_op; every empty-set call site passes parameter.expand_op")
def r3(ctx):
    ix = ctx.index
    # every BinaryExpression that _negate can return, read independently of its shape: locals bound once are
    # inlined (`negated_op = self.negate`), `return self.<helper>(...)` is followed, keyword / positional
    # arguments are mapped onto the constructor's parameters
    f = ctx.func(f"{ELEM}::BinaryExpression._negate")
    init = ctx.func(f"{ELEM}::BinaryExpression.__init__")
    iparams = [p for p in init.params if p != "self"]
    ctx.require({"left", "right", "operator", "negate"} <= set(iparams), "BinaryExpression.__init__ lost left/right/operator/negate")
    ctor = [v for v in returned_values(ix, f.cls, f.node, depth=2)
            if isinstance(v, ast.Call) and (call_name(v) or "") == "BinaryExpression"]
    ctx.require(ctor, "BinaryExpression._negate does not construct a BinaryExpression")
    problems = []
    for c in ctor:
        b = bind_call_args(c, iparams)
        ctx.require(b is not None, "BinaryExpression._negate builds its result with */** arguments (unknown idiom)")
        right = b.get("right")
        if not (isinstance(right, ast.Call) and dotted(right.func) == "self.right._negate_in_binary"):
            problems.append(f"right operand is `{unparse(right) if right is not None else None}`; it does not pass through self.right._negate_in_binary()")
        else:
            hb = bind_call_args(right, ["negated_op", "original_op"])
            a = [unparse(hb[k]) if hb and k in hb else "?" for k in ("negated_op", "original_op")]
            if a != ["self.negate", "self.operator"]:
                problems.append(f"_negate_in_binary is called with ({', '.join(a)}), expected (self.negate, self.operator)")
        got = {k: unparse(v) for k, v in b.items()}
        if got.get("operator") != "self.negate":
            problems.append("the negated expression's operator is not self.negate")
        if got.get("negate") != "self.operator":
            problems.append("the negated expression's negate is not self.operator")
        if got.get("left") != "self.left":
            problems.append("left operand is not self.left")
    ctx.check(not problems, f.key, "; ".join(problems), "right._negate_in_binary(self.negate, self.operator)", f.loc)

    # BindParameter._negate_in_binary, read on the CFG under the two outcomes of `self.expand_op is original_op`
    # (spelled as an if/else, its inversion, an early return, `==`, or through a local alias)
    f = ctx.func(f"{ELEM}::BindParameter._negate_in_binary")
    p_neg, p_orig = f.params[1], f.params[2]
    problems = []
    g = ctx.cfg(f)
    clones = {n.targets[0].id for n in walk_local(f.node)
              if isinstance(n, ast.Assign) and len(n.targets) == 1 and isinstance(n.targets[0], ast.Name)
              and isinstance(n.value, ast.Call) and dotted(n.value.func) in ("self._clone", "ClauseElement._clone")}
    stores = [n for n in walk_local(f.node) if isinstance(n, ast.Assign) and len(n.targets) == 1
              and isinstance(n.targets[0], ast.Attribute) and n.targets[0].attr == "expand_op"]

    def tri_same(t, same: bool):
        """Truth of a test when `self.expand_op is <original>` is `same`."""
        if isinstance(t, ast.UnaryOp) and isinstance(t.op, ast.Not):
            v = tri_same(t.operand, same)
            return None if v is None else not v
        if isinstance(t, ast.BoolOp):
            vals = [tri_same(v, same) for v in t.values]
            if isinstance(t.op, ast.And):
                return False if False in vals else (True if all(v is True for v in vals) else None)
            return True if True in vals else (False if all(v is False for v in vals) else None)
        if isinstance(t, ast.Compare) and len(t.ops) == 1 and isinstance(t.ops[0], (ast.Is, ast.IsNot, ast.Eq, ast.NotEq)):
            sides = {unparse(t.left), unparse(t.comparators[0])}
            if sides == {"self.expand_op", p_orig}:
                return same == isinstance(t.ops[0], (ast.Is, ast.Eq))
        return None

    live_same = feasible_reachable(g, lambda t: tri_same(inline_locals(f.node, t), True))
    live_other = feasible_reachable(g, lambda t: tri_same(inline_locals(f.node, t), False))
    ctx.require(live_same != live_other, f"{f.key}: no branch on `self.expand_op is {p_orig}` found (unknown idiom)")
    if len(stores) != 1:
        problems.append(f"{len(stores)} stores to expand_op (expected one)")
    else:
        st = stores[0]
        tgt = st.targets[0].value
        if not (isinstance(tgt, ast.Name) and tgt.id in clones):
            problems.append(f"expand_op is stored on `{unparse(tgt)}`, which is not a fresh clone (the cached original would flip)")
        val = inline_locals(f.node, st.value)
        if not (isinstance(val, ast.Name) and val.id == p_neg):
            problems.append(f"expand_op is set to `{unparse(st.value)}` instead of the negated operator `{p_neg}`")
        st_nodes = set(g.nodes_for(st))
        if (st_nodes & live_other) or not (st_nodes & live_same):
            problems.append(f"the flip is not guarded by `self.expand_op is {p_orig}`")
        rets = returns_of(f.node)
        g_ret = [r for r in rets if set(g.nodes_for(r)) & live_same]
        before_flip = feasible_reachable(g, lambda t: tri_same(inline_locals(f.node, t), True), avoid=st_nodes)
        if not (g_ret and all(isinstance(r.value, ast.Name) and r.value.id in clones for r in g_ret)
                and isinstance(tgt, ast.Name) and all(r.value.id == tgt.id for r in g_ret)
                and not any(set(g.nodes_for(r)) & before_flip for r in g_ret)):
            problems.append("the flipped clone is not what is returned")
        others = [r for r in rets if set(g.nodes_for(r)) & live_other]
        if not (others and all(isinstance(r.value, ast.Name) and r.value.id == "self" for r in others)):
            problems.append("a parameter with a different expand_op is not returned unchanged")
    ctx.check(not problems, f.key, "; ".join(problems), "clone.expand_op = negated_op iff expand_op is original_op", f.loc)

    ce = ix.cls(f"{ELEM}::ClauseElement")
    hook = ix.resolve_method(ce, "_negate_in_binary")
    if hook is None:
        hook = ix.resolve_method(ix.cls(f"{ELEM}::ColumnElement"), "_negate_in_binary")
    ctx.require(hook is not None, "no base _negate_in_binary hook")
    ctx.functions_analysed.add(hook.key)
    rets = returns_of(hook.node)
    ctx.check(bool(rets) and all(isinstance(r.value, ast.Name) and r.value.id == "self" for r in rets), hook.key,
              "the default _negate_in_binary hook does not return self", "returns self", hook.loc)

    f = ctx.func("sql/coercions.py::InElementImpl._post_coercion")
    p_operator = "operator"
    ctx.require(p_operator in f.params, "InElementImpl._post_coercion has no `operator` parameter")

    def stamps(fi, opname, depth=0):
        """[(attribute, value expression, name of the IN operator in that scope)] for the stores of expanding / expand_op in
        the hook and in the helpers of sql/coercions.py it hands the element to."""
        out = [(n.targets[0].attr, n.value, opname) for n in walk_local(fi.node) if isinstance(n, ast.Assign) and len(n.targets) == 1
               and isinstance(n.targets[0], ast.Attribute) and n.targets[0].attr in ("expand_op", "expanding")]
        if depth < 2:
            for c in calls_in(fi.node):
                for t in _r7_callees(ix, fi.module, fi, c):
                    if t.node is fi.node or t.name in COERCION_HOOKS:
                        continue
                    b = bind_call_args(c, [q for q in t.params if q not in ("self", "cls")]) or {}
                    op2 = next((q for q, a in b.items() if isinstance(a, ast.Name) and a.id == opname), None)
                    ctx.functions_analysed.add(t.key)
                    out.extend(stamps(t, op2, depth + 1))
        return out

    by = {}
    for attr, val, opname in stamps(f, p_operator):
        by.setdefault(attr, []).append((val, opname))
    problems = []
    if not by.get("expand_op") or not all(isinstance(v, ast.Name) and v.id == opn for v, opn in by["expand_op"]):
        problems.append("expand_op is not set to the IN operator on the coerced bind parameter")
    if not by.get("expanding") or not all(unparse(v) == "True" for v, _ in by["expanding"]):
        problems.append("expanding is not set")
    # (that the stamped object is a copy and not the caller's parameter is C07-R7, on the CFG)
    ctx.check(not problems, f.key, "; ".join(problems), "clone.expanding = True; clone.expand_op = operator", f.loc)

    # every place that asks for the empty-set rendering passes the parameter's own expand_op: direct calls of
    # visit_empty_set_op_expr, and calls of a helper that makes the call for its `parameter` argument (the helper's
    # own call is judged like any other; its callers must hand it a parameter object, not something made up)
    n_sites = 0
    for m in ix.all_modules():
        if "visit_empty_set_op_expr" not in m.source:
            continue
        helpers = {}
        for fn in ix.all_functions(m):
            for c in calls_named(fn.node, "visit_empty_set_op_expr"):
                n_sites += 1
                ctx.functions_analysed.add(fn.key)
                arg = c.args[1] if len(c.args) > 1 else next((k.value for k in c.keywords if k.arg == "expand_op"), None)
                arg = inline_locals(fn.node, arg) if arg is not None else None
                ok = isinstance(arg, ast.Attribute) and arg.attr == "expand_op"
                ctx.check(ok, f"{fn.key}:call#{n_sites}",
                          f"`{unparse(c)[:80]}` does not pass the parameter's expand_op", unparse(arg) if arg else "",
                          f"{m.path}:{c.lineno}")
                if ok and isinstance(arg.value, ast.Name) and arg.value.id in fn.params and fn.cls is not None \
                        and not fn.name.startswith(EXPANDERS_PREFIX) and _is_empty_set_helper(ctx, fn.cls, fn.name):
                    helpers[fn.name] = (fn, arg.value.id)
        for fn in ix.all_functions(m) if helpers else ():
            for c in calls_in(fn.node):
                if not (isinstance(c.func, ast.Attribute) and c.func.attr in helpers and unparse(c.func.value) == "self"):
                    continue
                h, prm = helpers[c.func.attr]
                if fn.cls is None or ix.resolve_method(fn.cls, h.name) is not h:
                    continue
                n_sites += 1
                ctx.functions_analysed.add(fn.key)
                b = bind_call_args(c, [p_ for p_ in h.params if p_ != "self"])
                arg = inline_locals(fn.node, b[prm]) if b and prm in b else None
                ok = isinstance(arg, ast.Name) and arg.id in fn.params
                ctx.check(ok, f"{fn.key}:call#{n_sites}",
                          f"`{unparse(c)[:80]}` does not hand its own parameter object to {h.qualname}, which renders the "
                          f"empty set for `{prm}.expand_op`", f"{unparse(arg) if arg is not None else ''}.expand_op via {h.qualname}",
                          f"{m.path}:{c.lineno}")


# ------------------------------------------------------------------------------------------ R4
# The literal path (`literal_execute` / `literal_binds`) and the bound path of an expanding parameter are
# two siblings that turn the same `values` list into the text that replaces __[POSTCOMPILE_x]: the
# property ("bound once, rendered literally, or re-bound") needs both to render one item per element
# of the list, in order, and to treat "empty" identically.
COMPS = (ast.ListComp, ast.GeneratorExp, ast.SetComp, ast.DictComp)
PRESERVING_CALLS = {"list", "tuple"}          # element preserving re-wrapping of the list
ITER_WRAPPERS = {"enumerate", "zip", "reversed", "iter"}   # iterate their argument element by element
DROPPING_CALLS = {"filter", "set", "frozenset", "compress", "takewhile", "dropwhile", "islice"}
DROPPING_METHODS = {"remove", "pop", "clear", "discard", "__delitem__"}
EXPANDERS_PREFIX = "_literal_execute_expanding_parameter"


def _iter_base(it):
    """Names whose elements the iterable expression `it` walks one by one: `xs`, `enumerate(xs, 1)`,
    `zip(xs, other)` -> {xs, other}."""
    if isinstance(it, ast.Name):
        return {it.id}
    if isinstance(it, ast.Call) and isinstance(it.func, ast.Name) and it.func.id in ITER_WRAPPERS | PRESERVING_CALLS:
        out = set()
        for a in it.args:
            out |= _iter_base(a)
        return out
    return set()


def _target_names(t):
    return {n.id for n in ast.walk(t) if isinstance(n, ast.Name)}


def _inline_locals(fn, expr, params_map):
    """Text of `expr` with the locals of `fn` that are bound exactly once (anywhere in the function) replaced by
    their defining expression and parameters renamed through `params_map` (so that two siblings can be compared
    independently of the names of their locals)."""
    env = {k: ast.Name(id=v, ctx=ast.Load()) for k, v in params_map.items()}
    return unparse(inline_locals(fn, expr, env))


def _all_name_stores(fn):
    """(name, value or None, statement) for every binding of a local name in `fn`, nested scopes excluded."""
    from ..astutil import name_stores
    return name_stores(fn)


def _is_empty_set_helper(ctx, cls, name) -> bool:
    """A method of the compiler (not itself an expander) all of whose returns hand over to
    self.visit_empty_set_op_expr(...): `self.<name>(...)` at a call site stands for the empty-set rendering."""
    if cls is None or name.startswith(EXPANDERS_PREFIX) or name == "visit_empty_set_op_expr":
        return False
    tgt = ctx.index.resolve_method(cls, name)
    if tgt is None or tgt.type_only:
        return False
    vals = returned_values(ctx.index, cls, tgt.node, depth=0)
    ok = bool(vals) and all(isinstance(v, ast.Call) and dotted(v.func) == "self.visit_empty_set_op_expr" for v in vals)
    if ok:
        ctx.functions_analysed.add(tgt.key)
    return ok


def _empty_set_sites(ctx, f):
    """Calls in expander `f` that produce the empty-set rendering: self.visit_empty_set_op_expr(...) itself, or a
    helper method that returns it."""
    out = list(calls_named(f.node, "visit_empty_set_op_expr"))
    for c in calls_in(f.node):
        if isinstance(c.func, ast.Attribute) and isinstance(c.func.value, ast.Name) and c.func.value.id == "self" \
                and c not in out and _is_empty_set_helper(ctx, f.cls, c.func.attr):
            out.append(c)
    return out


def _empty_arm_renderings(ctx, f, v):
    """{'empty:tuple': expr, 'empty:scalar': expr}: what the expression `v` (the empty-set text of an arm that is
    selected by emptiness only) evaluates to when the type is / is not a tuple type: a conditional expression
    for the element types, or a helper method that makes the distinction, is evaluated (PyLite) under each outcome of
    the `_is_tuple_type` test and must end in self.visit_empty_set_op_expr(<types>, <expand_op>); the result is
    returned as an expression in the caller's terms."""
    e = inline_locals(f.node, v)
    out = {}
    for arm, is_tuple in (("empty:tuple", True), ("empty:scalar", False)):
        def truth(label, is_tuple=is_tuple):
            return is_tuple if label.endswith("._is_tuple_type") else None
        it = PyLite(ctx, f.module, truth=truth, cls=f.cls, no_follow=("visit_empty_set_op_expr",))
        env = {n.id: Opaque(n.id) for n in ast.walk(e) if isinstance(n, ast.Name)}
        try:
            val = it.ev(e, env, 0)
        except Unsupported as ex:
            ctx.error(f"{f.key}: empty-set text `{unparse(v)[:60]}` cannot be evaluated: {ex} (unknown idiom)")
        parts = val.parts if isinstance(val, SStr) else [val]
        ctx.require(all(isinstance(x, (str, Opaque)) for x in parts) and any(
            isinstance(x, Opaque) and x.call is not None and x.call[0] == "self.visit_empty_set_op_expr" for x in parts),
            f"{f.key}: empty-set text `{unparse(v)[:60]}` does not end in self.visit_empty_set_op_expr(...)")
        # back to an expression in the caller's terms (text around the call is kept: the sibling comparison sees it)
        expr = None
        for x in parts:
            node = ast.Constant(value=x) if isinstance(x, str) else ast.parse(x.label, mode="eval").body
            expr = node if expr is None else ast.BinOp(left=expr, op=ast.Add(), right=node)
        out[arm] = expr
    return out


def _values_param(ctx, f):
    """The parameter of an expander whose emptiness selects the empty-set rendering."""
    pm = f.module.parents()
    cands = None
    sites = _empty_set_sites(ctx, f)
    ctx.require(sites, f"{f.key}: no empty-set rendering (visit_empty_set_op_expr) in an IN-list expander")
    origin = _param_origins(f)
    for c in sites:
        here = set()
        for t, pol in lexical_guards(pm, c, stop=f.node):
            if "_is_tuple_type" in unparse(t):
                continue
            here |= {origin[x.id] for x in ast.walk(t) if isinstance(x, ast.Name) and x.id in origin}
        cands = here if cands is None else cands & here
    ctx.require(cands and len(cands) == 1,
                f"{f.key}: the empty-set arm is not selected by a test on one parameter (candidates {sorted(cands or [])})")
    return next(iter(cands)), sites


def _param_origins(f):
    """{local name: parameter} for parameters and their element preserving copies."""
    origin = {q: q for q in f.params if q != "self"}
    changed = True
    while changed:
        changed = False
        for n, v, st in _all_name_stores(f.node):
            if v is None or n in origin:
                continue
            for q in set(origin.values()):
                al = {k for k, o in origin.items() if o == q}
                if _preserving(v, al) == "same":
                    origin[n] = q
                    changed = True
                    break
    return origin


def _helper_follow(ctx, f, depth=0):
    """follow(call, aliases) for `_preserving`: a method of the same class / a function of the same module that is handed
    the IN list is read like the expander itself: what it returns holds the elements of its parameter ('same'), can hold
    fewer ('drops'), or is not understood (None)."""
    def follow(call, al):
        if depth >= 2:
            return None
        fn = call.func
        tgt = None
        if isinstance(fn, ast.Attribute) and isinstance(fn.value, ast.Name) and fn.value.id in ("self", "cls") and f.cls is not None:
            tgt = ctx.index.resolve_method(f.cls, fn.attr)
        elif isinstance(fn, ast.Name):
            tgt = f.module.functions.get(fn.id)
        if tgt is None or tgt.type_only or not isinstance(tgt.node, ast.FunctionDef) or tgt.name.startswith(EXPANDERS_PREFIX):
            return None
        b = bind_call_args(call, [q for q in tgt.params if q not in ("self", "cls")])
        if b is None:
            return None
        got = [q for q, a in b.items() if isinstance(a, ast.Name) and a.id in al]
        if len(got) != 1 or any(_mentions(a, al) for q, a in b.items() if q != got[0]):
            return None
        ctx.functions_analysed.add(tgt.key)
        al_h, problems_h = _aliases(ctx, tgt, got[0], depth + 1)
        follow_h = _helper_follow(ctx, tgt, depth + 1)
        dropped_h = set()
        for _ in range(3):
            for n, v, st in _all_name_stores(tgt.node):
                if v is not None and n not in al_h and _preserving(v, al_h, follow_h, dropped_h) == "drops":
                    dropped_h.add(n)
        kinds = [_preserving(r.value, al_h, follow_h, dropped_h) if r.value is not None else None
                 for r in returns_of(tgt.node)]
        if problems_h or "drops" in kinds:
            return "drops"
        if kinds and all(k == "same" for k in kinds):
            return "same"
        return None
    return follow


def _aliases(ctx, f, p, depth=0):
    """Names that hold the list passed as `p` (element preserving re-bindings), and the problems found
    while computing them (re-bindings that drop elements)."""
    al = {p}
    problems = []
    follow = _helper_follow(ctx, f, depth)
    changed = True
    stores = list(_all_name_stores(f.node))
    for nf in ast.walk(f.node):
        if nf is not f.node and isinstance(nf, (ast.FunctionDef, ast.Lambda)):
            if isinstance(nf, ast.FunctionDef):
                stores.extend(_all_name_stores(nf))
    seen_bad = set()
    while changed:
        changed = False
        for n, v, st in stores:
            if v is None:
                if n in al and id(st) not in seen_bad and isinstance(st, (ast.AugAssign, ast.For, ast.With)):
                    ctx.error(f"{f.key}: `{n}` (the IN list) is re-bound by `{unparse(st)[:60]}` (unknown idiom)")
                continue
            reads = {x.id for x in ast.walk(v) if isinstance(x, ast.Name)}
            if not (reads & al):
                if n in al and n != p:
                    continue
                if n == p and id(st) not in seen_bad:
                    seen_bad.add(id(st))
                    problems.append(f"`{unparse(st)[:90]}` replaces the IN list by something not derived from it")
                continue
            kind = _preserving(v, al, follow)
            if kind == "same":
                if n not in al:
                    al.add(n)
                    changed = True
            elif kind == "drops" and (n in al or _rebinding_feeds(n, f.node, al)):
                if id(st) not in seen_bad:
                    seen_bad.add(id(st))
                    problems.append(f"`{unparse(st)[:120]}` can drop elements of the IN list before it is rendered")
            elif n in al and kind is None and id(st) not in seen_bad:
                ctx.error(f"{f.key}: `{unparse(st)[:80]}` re-binds the IN list in a way this rule does not understand")
    return al, problems


def _rebinding_feeds(name, fn, al):
    """A fresh local assigned from a filtered copy of the list counts as the list when it is iterated."""
    for n in ast.walk(fn):
        if isinstance(n, COMPS):
            for g in n.generators:
                if name in _iter_base(g.iter):
                    return True
        if isinstance(n, ast.Call) and call_name(n) and call_name(n).endswith(".join") and n.args \
                and isinstance(n.args[0], ast.Name) and n.args[0].id == name:
            return True
    return False


def _is_empty_display(v):
    return isinstance(v, (ast.List, ast.Tuple)) and not v.elts


DEDUP_CALLS = {"dict.fromkeys", "OrderedDict.fromkeys", "collections.OrderedDict.fromkeys", "util.unique_list", "unique_list",
               "util.OrderedSet", "OrderedSet"}


def _preserving(v, al, follow=None, dropped=()):
    """'same' if expression `v` holds exactly the elements of an alias, 'drops' if it can hold fewer,
    None if not understood.  `follow(call)` -> 'same' / 'drops' / None for a call of a helper that is handed the list;
    `dropped`: names already known to hold a copy that can have fewer elements."""
    if isinstance(v, ast.Name) and v.id in al:
        return "same"
    if isinstance(v, ast.Name) and v.id in dropped:
        return "drops"
    if isinstance(v, ast.Call) and (call_name(v) or "") in DEDUP_CALLS and any(_mentions(a, al) for a in v.args):
        return "drops"
    if isinstance(v, ast.BoolOp):
        # `<filtered copy> or values`, `values or []`, `a and b`: whichever operand is delivered, it has to hold the
        # elements of the list; one that can hold fewer makes the whole expression one that can hold fewer
        kinds = [_preserving(x, al, follow, dropped) for x in v.values
                 if not (isinstance(v.op, ast.Or) and _is_empty_display(x))]
        if "drops" in kinds:
            return "drops"
        if kinds and all(k == "same" for k in kinds):
            return "same"
        return None
    if isinstance(v, ast.Call) and follow is not None and any(_mentions(a, al) for a in list(v.args) + [k.value for k in v.keywords]):
        r = follow(v, al)
        if r is not None:
            return r
    if isinstance(v, ast.Call) and isinstance(v.func, ast.Name):
        if v.func.id in PRESERVING_CALLS and len(v.args) == 1:
            return _preserving(v.args[0], al, follow, dropped)
        if v.func.id in DROPPING_CALLS and any(_mentions(a, al) for a in v.args):
            return "drops"
    if isinstance(v, ast.Subscript) and isinstance(v.value, ast.Name) and v.value.id in al and isinstance(v.slice, ast.Slice):
        return "drops"
    if isinstance(v, (ast.ListComp, ast.GeneratorExp)) and len(v.generators) == 1:
        g = v.generators[0]
        if _iter_base(g.iter) & al:
            if g.ifs:
                return "drops"
            if isinstance(v.elt, ast.Name) and isinstance(g.target, ast.Name) and v.elt.id == g.target.id:
                return "same"
    if isinstance(v, ast.IfExp):
        a, b = _preserving(v.body, al, follow, dropped), _preserving(v.orelse, al, follow, dropped)
        if "drops" in (a, b):
            return "drops"
        if a == b == "same":
            return "same"
    return None


def _mentions(node, names):
    return any(isinstance(x, ast.Name) and x.id in names for x in ast.walk(node))


def _element_generators(fn, al):
    """[(comprehension generator, what it iterates)] for every generator that walks the IN list or one
    of its elements (tuple members), anywhere in `fn` (nested helpers included)."""
    out = []
    elem_vars = set()
    gens = [(n, g) for n in ast.walk(fn) if isinstance(n, COMPS) for g in n.generators]
    derived = set()
    for n, v, st in _all_name_stores(fn):
        if isinstance(v, COMPS) and v.generators and _iter_base(v.generators[0].iter) & al:
            derived.add(n)
    for _, g in gens:
        if _iter_base(g.iter) & (al | derived):
            out.append((g, "the list"))
            elem_vars |= _target_names(g.target)
    for _, g in gens:
        if not (_iter_base(g.iter) & (al | derived)) and _iter_base(g.iter) & elem_vars:
            out.append((g, "the members of a tuple element"))
    return out, derived, elem_vars


def _covers(expr, al, derived, elem_vars, tuple_arm):
    bases = set()
    for n in ast.walk(expr):
        if isinstance(n, COMPS):
            for g in n.generators:
                bases |= _iter_base(g.iter)
    if not (bases & (al | derived)):
        return False
    if tuple_arm and not (bases & elem_vars):
        return False
    return True


def _arm_of(guards, p, al):
    """('empty:tuple'|'empty:scalar'|'tuple'|'scalar'|None, extra atoms) from the lexical guards
    [(test, polarity)] of a statement in an expander.  The test that mentions `_is_tuple_type` is the
    row test as a whole (its `or (untyped list of sequences)` part belongs to it)."""
    empty = None
    tup = None
    extra = []
    for t, pol in guards:
        if "_is_tuple_type" in unparse(t):
            tup = pol if tup is None else (tup and pol)
            continue
        for a, apol in guard_atoms([(t, pol)]):
            if a in al:
                empty = not apol
            else:
                extra.append((a, apol))
                if empty is None and _mentions(ast.parse(a, mode="eval"), al):
                    # e.g. `not values or values == [None]`: an emptiness test with something added; the
                    # atom stays in `extra`, so the arm is reported wherever exact emptiness matters
                    empty = apol
    if empty is None:
        return None, extra
    if empty:
        return ("empty" if tup is None else ("empty:tuple" if tup else "empty:scalar")), extra
    if tup is None:
        return None, extra
    return ("tuple" if tup else "scalar"), extra


@R.rule("C07-R4", floor=17, template="T-FLOW + T-SIBLING",
        desc="the literal and the bound expansion of an IN list render one item per element: the list is "
             "never filtered/sliced/mutated between the parameter and the rendered items, every non-empty "
             "arm iterates the whole list (and every member of a tuple element), the empty-set rendering "
             "is selected by emptiness of the list alone, and both siblings agree on the tuple test, the "
             "empty arms and the list syntax")
def r4(ctx):
    ix = ctx.index
    base = ix.cls(BASE)
    family = []
    for cls in [base] + sorted(ix.subclasses(base), key=lambda c: c.key):
        for name, f in sorted(cls.methods.items()):
            if name.startswith(EXPANDERS_PREFIX) and not f.type_only:
                family.append(f)
    ctx.require(len(family) >= 2, "the IN-list expanders (_literal_execute_expanding_parameter*) vanished")
    summary = {}
    for f in family:
        ctx.functions_analysed.add(f.key)
        pm = f.module.parents()
        p, empty_sites = _values_param(ctx, f)
        al, problems = _aliases(ctx, f, p)
        # (i) nothing drops elements
        gens, derived, elem_vars = _element_generators(f.node, al)
        flagged = " ".join(problems)
        # a filtered walk over the list matters when what it builds can reach the result (the returned pair, through any
        # chain of locals, or a nested helper); one that only counts / logs does not render anything
        feeding = {x.id for r in returns_of(f.node) if r.value is not None for x in ast.walk(r.value) if isinstance(x, ast.Name)}
        grew = True
        while grew:
            grew = False
            for n, v, st in _all_name_stores(f.node):
                if v is not None and n in feeding:
                    more = {x.id for x in ast.walk(v) if isinstance(x, ast.Name)} - feeding
                    if more:
                        feeding |= more
                        grew = True
        aside = set()
        for st in walk_local(f.node):
            if isinstance(st, (ast.Assign, ast.AnnAssign)) and getattr(st, "value", None) is not None:
                tg = st.targets if isinstance(st, ast.Assign) else [st.target]
                names = [x for t in tg for x in ast.walk(t) if isinstance(x, ast.Name)]
                if names and all(isinstance(t, (ast.Name, ast.Tuple, ast.List)) for t in tg) and not ({x.id for x in names} & feeding):
                    aside |= {id(g) for c in ast.walk(st.value) if isinstance(c, COMPS) for g in c.generators}
        for g, what in gens:
            if id(g) in aside:
                continue
            if g.ifs and f"for {unparse(g.target)} in {unparse(g.iter)} if" not in flagged:
                problems.append(f"a comprehension over {what} skips elements: `for {unparse(g.target)} in "
                                f"{unparse(g.iter)} if {' if '.join(unparse(i) for i in g.ifs)}`")
        from ..astutil import mutating_calls
        for recv, meth, call in mutating_calls(f.node, into_nested=True):
            if recv in al and meth in DROPPING_METHODS:
                problems.append(f"`{unparse(call)[:60]}` removes elements from the IN list")
        for n in ast.walk(f.node):
            if isinstance(n, ast.For) and _iter_base(n.iter) & al:
                body_kinds = {type(x).__name__ for st in n.body for x in ast.walk(st)}
                ctx.require(not ({"Continue", "Break", "If"} & body_kinds),
                            f"{f.key}: a `for` loop over the IN list with conditional flow (unknown idiom)")
        ctx.check(not problems, f"{f.key}:every-element-rendered",
                  "; ".join(problems) + " -- `x NOT IN (1, NULL)`, `NOT (x IN (1, NULL) AND ..)`, duplicates and re-bound lists "
                                        "then differ from the OR-of-equalities over the whole list (and the literal and the "
                                        "bound expansion from each other)",
                  f"`{p}` reaches {len(gens)} element loops unfiltered (aliases {sorted(al)})", f.loc)
        # (ii) the empty arm is selected by emptiness alone
        for i, c in enumerate(empty_sites):
            arm, extra = _arm_of(lexical_guards(pm, c, stop=f.node), p, al)
            if arm == "empty":
                # the tuple / scalar distinction is made inside the call (helper, conditional element types)
                _empty_arm_renderings(ctx, f, c)
            ctx.require(arm in ("empty:tuple", "empty:scalar", "empty"),
                        f"{f.key}: empty-set call `{unparse(c)[:60]}` is not under `not {p}` and a tuple-type test")
            for arm2 in (("empty:tuple", "empty:scalar") if arm == "empty" else (arm,)):
                ctx.check(not extra, f"{f.key}:{arm2}:selected-by-emptiness-only",
                          f"the empty-set rendering is additionally conditioned on {extra}: an empty list can reach the "
                          f"item-joining arm (`IN ()`) or a non-empty list the empty-set arm",
                          f"guard: not {p}", f"{f.module.path}:{c.lineno}")
        # non-empty lists must not reach the empty-set arm: the test is the plain truth value of the list
        # (iii) every non-empty arm iterates the list
        rets = returns_of(f.node)
        ctx.require(rets, f"{f.key}: no return")
        rv = None
        for r in rets:
            v = r.value
            if isinstance(v, ast.Tuple) and len(v.elts) == 2 and isinstance(v.elts[1], ast.Name):
                ctx.require(rv in (None, v.elts[1].id), f"{f.key}: two different result variables")
                rv = v.elts[1].id
            elif isinstance(v, ast.Call) and (call_name(v) or "").split(".")[-1].startswith(EXPANDERS_PREFIX):
                passed = [a for a in v.args if isinstance(a, ast.Name) and a.id in al] + \
                         [k.value for k in v.keywords if isinstance(k.value, ast.Name) and k.value.id in al]
                ctx.check(len(passed) == 1, f"{f.key}:delegates-whole-list",
                          f"`{unparse(v)[:80]}` does not hand the IN list `{p}` itself to the sibling expander",
                          f"{call_name(v)}(.., {p})", f"{f.module.path}:{r.lineno}")
            else:
                ctx.error(f"{f.key}: return `{unparse(v)[:60]}` is neither (to_update, text) nor a delegation")
        ctx.require(rv is not None, f"{f.key}: result text variable not found")
        arms = {}
        for n, v, st in _all_name_stores(f.node):
            if n != rv or v is None:
                continue
            arm, extra = _arm_of(lexical_guards(pm, st, stop=f.node), p, al)
            ctx.require(arm is not None, f"{f.key}: `{rv}` is assigned outside the empty/tuple/scalar arms")
            suffix = "".join(f":if {'' if pol else 'not '}{a}" for a, pol in extra)
            if arm == "empty":
                for a2, v2 in _empty_arm_renderings(ctx, f, v).items():
                    arms[a2 + suffix] = v2
                continue
            label = arm + suffix
            arms[label] = v
            if arm.startswith("empty"):
                continue
            tuple_arm = arm == "tuple"
            ctx.check(_covers(v, al, derived, elem_vars, tuple_arm), f"{f.key}:{label}:one-item-per-element",
                      f"`{rv}` in the {arm} arm is not built by iterating the whole list"
                      + (" and every member of each tuple" if tuple_arm else ""),
                      "joins one rendered item per element", f"{f.module.path}:{st.lineno}")
        ctx.require({"tuple", "scalar"} <= {a.split(":if")[0] for a in arms},
                    f"{f.key}: tuple / scalar arms not found ({sorted(arms)})")
        # the tuple-arm test (which lists are rows)
        tests = [t for n in ast.walk(f.node) if isinstance(n, ast.If) for t in [n.test] if "_is_tuple_type" in unparse(t)
                 and _mentions(t, al)]
        ctx.require(len(tests) == 1, f"{f.key}: {len(tests)} tuple-arm tests mentioning the list")
        summary[f.key] = dict(f=f, p=p, arms=arms, tuple_test=_inline_locals(f.node, tests[0], {p: "VALUES"}))
    # (iv) sibling agreement, relative to the bound path (the one that does not delegate)
    bound = [k for k, s in summary.items() if any(
        (call_name(c) or "").split(".")[-1].startswith(EXPANDERS_PREFIX) for c in calls_in(s["f"].node))]
    ctx.require(len(bound) == 1, f"expected one bound-path expander delegating to the literal one, found {bound}")
    ref = summary[bound[0]]
    for k, s in summary.items():
        if k == bound[0]:
            continue
        f = s["f"]
        ctx.check(s["tuple_test"] == ref["tuple_test"], f"{k}:tuple-test-agrees-with-bound-path",
                  f"rows are recognised by `{s['tuple_test']}` here but by `{ref['tuple_test']}` in {ref['f'].qualname}",
                  "same tuple/row test", f.loc)
        for arm in ("empty:tuple", "empty:scalar"):
            mine = sorted({_inline_locals(f.node, v, {s["p"]: "VALUES"}) for lab, v in s["arms"].items()
                           if lab.split(":if")[0] == arm})
            theirs = sorted({_inline_locals(ref["f"].node, v, {ref["p"]: "VALUES"}) for lab, v in ref["arms"].items()
                             if lab.split(":if")[0] == arm})
            ctx.require(mine and theirs, f"{k}: no {arm} arm in one of the siblings")
            ctx.check(mine == theirs, f"{k}:{arm}:agrees-with-bound-path",
                      f"an empty list has nothing to render literally, yet the literal path emits `{' / '.join(mine)}` "
                      f"where the bound path emits `{' / '.join(theirs)}`", "identical empty-set text", f.loc)
        for arm in ("tuple", "scalar"):
            mine = [v for lab, v in s["arms"].items() if lab.split(":if")[0] == arm]
            theirs = [v for lab, v in ref["arms"].items() if lab.split(":if")[0] == arm]
            want = set().union(*[set(str_constants(v)) for v in theirs])
            plain = [v for v in mine if set(str_constants(v)) == want]
            ctx.check(bool(plain), f"{k}:{arm}:same-list-syntax",
                      f"no {arm} arm here uses the separators/wrappers of the bound path {sorted(want)} "
                      f"(found {[sorted(set(str_constants(v))) for v in mine]})",
                      f"{sorted(want)}", f.loc)


# ------------------------------------------------------------------------------------------ R5
# `x IN (a, b)` must compare the same DBAPI values as `x = a OR x = b`: each expanded element
# `<name>_<i>` has to be sent through the bind processor the scalar parameter `<name>` would get.
# Inside _process_parameters_for_postcompile two key spaces coexist (raw bind names: self.binds,
# self.bind_names values, self._bind_processors; escaped names: the POSTCOMPILE tokens, the expanded
# keys put into `parameters`).  The processor mapping has to be read with the raw name, and the
# processors have to be registered under exactly the keys that are put into `parameters`.
POSTCOMPILE = f"{BASE}._process_parameters_for_postcompile"


def _name_aliases(fn, is_source):
    """Local names bound (possibly through typing.cast / plain copies) to an expression accepted by
    `is_source`."""
    al = set()
    changed = True
    stores = [(n, v) for n, v, st in _all_name_stores(fn) if v is not None]
    while changed:
        changed = False
        for n, v in stores:
            if n in al:
                continue
            x = v
            if isinstance(x, ast.Call) and (call_name(x) or "").split(".")[-1] == "cast" and len(x.args) == 2:
                x = x.args[1]
            if is_source(x) or (isinstance(x, ast.Name) and x.id in al):
                al.add(n)
                changed = True
    return al


@R.rule("C07-R5", floor=6, template="T-FLOW (key-space consistency)",
        desc="_process_parameters_for_postcompile: the bind-processor mapping (keyed like self.binds by the raw "
             "bind name) is read and membership-tested only with the raw loop name, in the tuple and the "
             "scalar arm, and element processors are registered under the keys that are put into `parameters` "
             "(taken from to_update, or formatted from the escaped name that was given to the expander)")
def r5(ctx):
    f = ctx.func(POSTCOMPILE)
    fn = f.node
    pm = f.module.parents()
    # ground the key space of the processor mapping: built from self.bind_names[...] values
    bp = ctx.index.cls(BASE).methods.get("_bind_processors")
    ctx.require(bp is not None, "SQLCompiler._bind_processors vanished")
    ctx.functions_analysed.add(bp.key)
    ctx.require(any(isinstance(n, ast.Subscript) and dotted(n.value) == "self.bind_names" for n in ast.walk(bp.node)),
                "_bind_processors is no longer keyed by self.bind_names[...] (raw names): re-derive C07-R5")
    # raw / escaped pair
    ebn = _name_aliases(fn, lambda x: dotted(x) == "self.escaped_bind_names")
    pairs = []
    for n, v, st in _all_name_stores(fn):
        if v is None:
            continue
        for c in calls_in(v):
            if isinstance(c.func, ast.Attribute) and c.func.attr == "get" and c.args and isinstance(c.args[0], ast.Name) \
                    and ((isinstance(c.func.value, ast.Name) and c.func.value.id in ebn)
                         or dotted(c.func.value) == "self.escaped_bind_names"):
                pairs.append((c.args[0].id, n))
    ctx.require(len(set(pairs)) == 1, f"{f.key}: expected one `escaped = escaped_bind_names.get(raw, raw)` binding, found {pairs}")
    raw, esc = pairs[0]
    loops = [n for n in ast.walk(fn) if isinstance(n, ast.For) and isinstance(n.target, ast.Name) and n.target.id == raw]
    ctx.require(len(loops) == 1, f"{f.key}: `{raw}` is not the variable of one loop over the bind names")
    names_src = {unparse(v) for n, v, st in _all_name_stores(fn) if v is not None and isinstance(loops[0].iter, ast.Name)
                 and n == loops[0].iter.id}
    ctx.require(any("self.bind_names.values()" in t for t in names_src),
                f"{f.key}: the loop over `{unparse(loops[0].iter)}` is not fed from self.bind_names.values() ({sorted(names_src)})")
    ctx.require(any(isinstance(n, ast.Subscript) and dotted(n.value) == "self.binds" and isinstance(n.slice, ast.Name)
                    and n.slice.id == raw for n in ast.walk(loops[0])),
                f"{f.key}: self.binds is not indexed by `{raw}`")
    procs = _name_aliases(fn, lambda x: dotted(x) == "self._bind_processors")
    ctx.require(procs, f"{f.key}: self._bind_processors is not read")

    def arm(node):
        st = node
        tup = None
        for t, pol in lexical_guards(pm, st, stop=fn):
            if "_is_tuple_type" in unparse(t):
                tup = pol
        return "tuple" if tup else ("scalar" if tup is not None else "any")

    def is_proc(x):
        return (isinstance(x, ast.Name) and x.id in procs) or dotted(x) == "self._bind_processors"

    proc_locals = {n for n, v, st in _all_name_stores(fn) if v is not None and n not in procs
                   and any(is_proc(x) for x in ast.walk(v))}

    def holds_proc(x):
        # a processor taken from the mapping, directly or through a local it was hoisted into
        return any(is_proc(y) or (isinstance(y, ast.Name) and y.id in proc_locals) for y in ast.walk(x))

    sites = {}   # (kind, arm) -> [(key expr, node)]
    for n in ast.walk(loops[0]):
        if isinstance(n, ast.Subscript) and is_proc(n.value):
            sites.setdefault(("lookup", arm(n)), []).append((n.slice, n))
        elif isinstance(n, ast.Compare) and len(n.ops) == 1 and isinstance(n.ops[0], (ast.In, ast.NotIn)) \
                and is_proc(n.comparators[0]):
            sites.setdefault(("membership", arm(n)), []).append((n.left, n))
        elif isinstance(n, ast.Call) and isinstance(n.func, ast.Attribute) and n.func.attr in ("get", "pop", "setdefault") \
                and is_proc(n.func.value) and n.args:
            sites.setdefault(("lookup", arm(n)), []).append((n.args[0], n))
    for a in ("tuple", "scalar"):
        ctx.require(("lookup", a) in sites or ("lookup", "any") in sites,
                    f"{f.key}: no bind-processor lookup for expanded elements in the {a} arm")
    for (kind, a), lst in sorted(sites.items()):
        bad = []
        for k, n in lst:
            if isinstance(k, ast.Name) and k.id == raw:
                continue
            if _mentions(k, {esc}):
                bad.append(f"`{unparse(n)}` uses the escaped name `{esc}`")
            else:
                ctx.error(f"{f.key}: processor {kind} `{unparse(n)}` uses a key this rule cannot classify")
        ctx.check(not bad, f"{f.key}:processor-{kind}:{a}",
                  "; ".join(bad) + f" although the mapping is keyed by the raw bind name (as self.binds[{raw}]): for a "
                  f"parameter name that needs escaping the elements of the IN list are sent to the DBAPI unprocessed "
                  f"while `col = :param` is processed",
                  f"{len(lst)} site(s) keyed by `{raw}`", f"{f.module.path}:{lst[0][1].lineno}")
    # registration keys
    params = f.params[1]
    delivered = {c.args[0].id for c in calls_in(loops[0]) if isinstance(c.func, ast.Attribute) and c.func.attr == "update"
                 and isinstance(c.func.value, ast.Name) and c.func.value.id == params and c.args and isinstance(c.args[0], ast.Name)}
    ctx.require(len(delivered) == 1, f"{f.key}: expected one `{params}.update(<expanded items>)`, found {sorted(delivered)}")
    tu = next(iter(delivered))
    exp_calls = [c for c in calls_in(loops[0]) if (call_name(c) or "").split(".")[-1] == EXPANDERS_PREFIX]
    ctx.require(len(exp_calls) == 1 and exp_calls[0].args and isinstance(exp_calls[0].args[0], ast.Name),
                f"{f.key}: call of {EXPANDERS_PREFIX} not found")
    given = exp_calls[0].args[0].id   # the name the expanded keys are formatted from
    regs = {}
    for c in calls_in(loops[0]):
        if not (isinstance(c.func, ast.Attribute) and c.func.attr == "update" and c.args and isinstance(c.args[0], COMPS)):
            continue
        comp = c.args[0]
        elt = comp.elt if not isinstance(comp, ast.DictComp) else ast.Tuple(elts=[comp.key, comp.value], ctx=ast.Load())
        if not (isinstance(elt, ast.Tuple) and len(elt.elts) == 2 and holds_proc(elt.elts[1])):
            continue
        regs.setdefault(arm(c), []).append((elt.elts[0], comp, c))
    ctx.require({"tuple", "scalar"} <= set(regs) or "any" in regs,
                f"{f.key}: registration of element processors not found for both arms ({sorted(regs)})")
    for a, lst in sorted(regs.items()):
        bad = []
        for k, comp, c in lst:
            from_tu = {t for g in comp.generators if _iter_base(g.iter) & {tu}
                       for t in ([g.target.elts[0].id] if isinstance(g.target, ast.Tuple) and g.target.elts
                                 and isinstance(g.target.elts[0], ast.Name) else [])}
            if isinstance(k, ast.Name) and k.id in from_tu:
                continue
            if isinstance(k, ast.BinOp) and isinstance(k.op, ast.Mod) and isinstance(k.right, ast.Tuple) and k.right.elts \
                    and isinstance(k.right.elts[0], ast.Name):
                base_name = k.right.elts[0].id
                if base_name == given:
                    continue
                bad.append(f"key `{unparse(k)}` is formatted from `{base_name}`, but the items put into `{params}` "
                           f"(`{tu}`) are named after `{given}`")
                continue
            ctx.error(f"{f.key}: processor registration key `{unparse(k)}` is not understood")
        ctx.check(not bad, f"{f.key}:processor-registration-key:{a}",
                  "; ".join(bad) + ": when the two differ (a bind name that needs escaping) no processor is found for "
                  "the expanded elements at execution time",
                  f"keys of `{tu}` / formatted from `{given}`", f"{f.module.path}:{lst[0][2].lineno}")


# ------------------------------------------------------------------------------------------ R6
# Expanded elements get generated names `<name>_<i>`.  Anonymous bind names have the same shape
# (`<column>_<counter>`), so the generated names can be those of another parameter of the statement; a name
# may enter the statement's parameter namespace only after it was compared with the names already there
# (visit_bindparam does that for every compiled parameter).
NAMESPACES = ("self.binds", "self.bind_names", "self.positiontup")


def _namespace_tests(fn, key_names, extra_namespaces=()):
    """Membership / disjointness tests in `fn` that relate one of `key_names` to the existing bind names."""
    out = []
    spaces = set(NAMESPACES) | set(extra_namespaces)

    def is_space(x):
        d = dotted(x) or ""
        return d in spaces or any(d.startswith(sp + ".") for sp in spaces) or \
            (isinstance(x, ast.Call) and isinstance(x.func, ast.Attribute) and is_space(x.func.value))

    for n in ast.walk(fn):
        if isinstance(n, ast.Compare) and len(n.ops) == 1 and isinstance(n.ops[0], (ast.In, ast.NotIn)):
            if _mentions(n.left, key_names) and is_space(n.comparators[0]):
                out.append(n)
        elif isinstance(n, ast.Call) and isinstance(n.func, ast.Attribute) and \
                n.func.attr in ("isdisjoint", "intersection", "difference", "issubset"):
            sides = [n.func.value] + list(n.args)
            if any(_mentions(x, key_names) for x in sides) and any(is_space(x) for x in sides):
                out.append(n)
        elif isinstance(n, ast.BinOp) and isinstance(n.op, (ast.BitAnd, ast.Sub)):
            if any(_mentions(x, key_names) for x in (n.left, n.right)) and any(is_space(x) for x in (n.left, n.right)):
                out.append(n)
    return out


@R.rule("C07-R6", floor=2, template="T-GUARD",
        desc="a bind name enters the statement's parameter namespace only after a comparison with the names "
             "already in it: visit_bindparam tests `name in self.binds` before registering; the generated "
             "names of expanded IN elements are tested against the existing names before they are put into "
             "the parameter dictionary")
def r6(ctx):
    # site A: compiled parameters
    f = ctx.func(f"{BASE}.visit_bindparam")
    g = ctx.cfg(f)
    stores = [(n, st) for st in ast.walk(f.node) if isinstance(st, ast.Assign) for t in st.targets
              for n in [t] if isinstance(t, ast.Subscript) and dotted(t.value) == "self.binds" and isinstance(t.slice, ast.Name)]
    ctx.require(stores, f"{f.key}: registration `self.binds[name] = ...` not found")
    w, bad_st, tests = None, None, []
    for t, st in stores:
        key = t.slice.id
        tests = _namespace_tests(f.node, {key})
        tn = [i for c in tests for i in g.nodes_containing(c)]
        for nid in g.nodes_for(st):
            w1 = g.always_preceded(nid, tn) if tn else ["no test of the name against self.binds"]
            if w1 is not None and w is None:
                w, bad_st = w1, st
    ctx.check(w is None, f"{f.key}:name-checked-before-registration",
              f"`{unparse(bad_st)[:60] if bad_st is not None else ''}` can be reached without comparing the name with the "
              f"names already registered", f"{len(stores)} store(s) dominated by `{unparse(tests[0]) if tests else ''}`", f.loc, w)
    # site B: generated names of expanded elements
    f = ctx.func(POSTCOMPILE)
    params = f.params[1]
    ups = [c for c in calls_in(f.node) if isinstance(c.func, ast.Attribute) and c.func.attr == "update"
           and isinstance(c.func.value, ast.Name) and c.func.value.id == params and c.args and isinstance(c.args[0], ast.Name)]
    ctx.require(len(ups) == 1, f"{f.key}: expected one `{params}.update(<expanded items>)`")
    tu = ups[0].args[0].id
    key_names = {tu}
    for n in ast.walk(f.node):
        if isinstance(n, COMPS):
            for gen in n.generators:
                if _iter_base(gen.iter) & {tu}:
                    key_names |= _target_names(gen.target)
        elif isinstance(n, ast.For) and _iter_base(n.iter) & {tu}:
            key_names |= _target_names(n.target)
    tests = _namespace_tests(f.node, key_names, extra_namespaces=(params,))
    fam = [m for n, m in ctx.index.cls(BASE).methods.items() if n.startswith(EXPANDERS_PREFIX)]
    for m in fam:
        ctx.functions_analysed.add(m.key)
        made = set()
        for nm, v, st in _all_name_stores(m.node):
            if v is not None and isinstance(v, COMPS):
                made.add(nm)
                for gen in v.generators:
                    made |= _target_names(gen.target)
        for n in ast.walk(m.node):
            if isinstance(n, ast.For) and _iter_base(n.iter) & made:
                made |= _target_names(n.target)
        tests += _namespace_tests(m.node, made | {"name"}, extra_namespaces=(params,))
    ctx.check(bool(tests), f"{f.key}:expanded-names-checked-against-existing",
              f"`{unparse(ups[0])}` adds the generated names `<name>_<i>` of the IN elements to the parameter dictionary "
              f"without any comparison with the existing names ({', '.join(NAMESPACES)}): an anonymous parameter of another "
              f"column can have the same name (`x IN (..)` expands `x_1` to `x_1_1`, which is also the name of the "
              f"parameter in `x_1 = :x_1_1`), and one value silently replaces the other",
              f"{len(tests)} test(s)", f"{f.module.path}:{ups[0].lineno}")


# ------------------------------------------------------------------------------------------ R7
# A coercion receives the *caller's* element (`col.in_(my_bindparam)`): whatever it has to stamp on it (expanding,
# expand_op) goes on a copy.  The object the caller holds can be part of another, already compiled and cached, statement;
# expand_op is not in the cache key, so a stamp on the shared object re-writes the other statement's empty-set form.
# T-FRESH over all of sql/coercions.py: attribute stores / in-place mutation only on objects that are fresh on EVERY path
# that reaches the store (forward typestate on the CFG; a clone made on one branch only is not fresh after the join).
COERC = "sql/coercions.py"
COERCION_HOOKS = ("_post_coercion", "_literal_coercion", "_implicit_coercions")
R7_EXCEPTIONS = {
    f"{COERC}::expect:apply_propagate_attrs._propagate_attrs":
        "documented out-parameter: the statement under construction passes ITSELF as apply_propagate_attrs so that the "
        "coerced element's plugin attributes are copied onto it; it is not the element being coerced",
}


def _r7_callees(ix, mod, f, call):
    """Functions of sql/coercions.py a call in `f` may run: `self.m()` / `cls.m()` / `super().m()` -> every method of the
    module named m (mixins are composed freely, so the static class of `self` says little), `name()` -> module function."""
    fn = call.func
    if isinstance(fn, ast.Name):
        t = mod.functions.get(fn.id)
        return [t] if t is not None else []
    if isinstance(fn, ast.Attribute):
        recv = fn.value
        is_self = (isinstance(recv, ast.Name) and recv.id in ("self", "cls")) or \
                  (isinstance(recv, ast.Call) and isinstance(recv.func, ast.Name) and recv.func.id == "super")
        if is_self and f.cls is not None:
            return [c.methods[fn.attr] for c in mod.classes.values() if fn.attr in c.methods]
    return []


@R.rule("C07-R7", floor=41, template="T-FRESH",
        desc="no function of sql/coercions.py stores an attribute on / mutates in place an object that is not fresh on every "
             "path reaching the store: the caller's element (a bindparam given to in_() / not_in(), a column, a statement) "
             "is stamped only after `x = x._clone(...)`; helpers are judged with the states their in-module callers pass")
def r7(ctx):
    from ..fresh import F, S, U, FreshAnalysis, join
    ix = ctx.index
    mod = ix.module(COERC)
    funcs = [f for f in ix.all_functions(mod) if getattr(f, "parent_func", None) is None and not f.type_only
             and isinstance(f.node, ast.FunctionDef)]
    ctx.require(any(f.name in COERCION_HOOKS for f in funcs), "no coercion hooks (_post_coercion ...) in sql/coercions.py")
    # who may be called from outside the module: hooks (through expect()), public names, names other modules mention
    mentioned = set()   # names of sql/coercions.py other modules refer to: coercions.<name>, from .coercions import <name>
    for m in ix.all_modules():
        if m is mod or "coercions" not in m.source:
            continue
        mentioned.update(re.findall(r"\bcoercions\.(\w+)", m.source))
        for local, imp in m.imports.items():
            if imp[0] == "symbol" and imp[1].endswith("coercions"):
                mentioned.add(imp[2])
    sites = {}   # callee key -> [(caller, call)]
    for f in funcs:
        for c in calls_in(f.node):
            for t in _r7_callees(ix, mod, f, c):
                if t is not None and t.node is not f.node:
                    sites.setdefault(t.key, []).append((f, c))

    def external(f):
        if f.name in COERCION_HOOKS or not f.name.startswith("_") or f.name.startswith("__"):
            return True
        if f.key not in sites:
            return True
        return f.name in mentioned

    analyses = {}

    def fresh_call_for(f):
        def fresh_call(call, state_of):
            nm = call_name(call) or ""
            if isinstance(call.func, (ast.Name, ast.Attribute)) and "()" not in nm and nm:
                r = ix.resolve(mod, nm)
                if isinstance(r, ClassInfo):
                    return F
            return None
        return fresh_call

    def analyse(f, env):
        an = FreshAnalysis(ctx.cfg(f), env, fresh_call=fresh_call_for(f))
        analyses[f.key] = an
        return an

    entry_env = {}
    for f in funcs:
        entry_env[f.key] = {q: S for q in f.params}
    # two rounds: entry points first, then helpers with what their callers hand them (helpers of helpers in round 2)
    for rnd in range(3):
        for f in funcs:
            if external(f):
                if rnd == 0:
                    analyse(f, entry_env[f.key])
                continue
            env = {}
            params = [q for q in f.params if q not in ("self", "cls")]
            for caller, c in sites[f.key]:
                an = analyses.get(caller.key)
                b = bind_call_args(c, params)
                nodes = ctx.cfg(caller).nodes_containing(c)
                for q in params:
                    st = S
                    if an is not None and b is not None and q in b and nodes:
                        st = F
                        for nid in nodes:
                            st = join(st, an.state(b[q], an.pre.get(nid, {})))
                    env[q] = join(env[q], st) if q in env else st
            for q in f.params:
                env.setdefault(q, S)
            analyse(f, env)
    n_hooks = 0
    seen_exc = set()
    for f in funcs:
        an = analyses[f.key]
        ctx.functions_analysed.add(f.key)
        bad, unknown, okd = [], [], []
        for nid, kind, root, d, node in an.mutation_sinks():
            if root in ("self", "cls"):
                continue
            ek = f"{f.key}:{d}"
            if ek in R7_EXCEPTIONS:
                seen_exc.add(ek)
                ctx.note(f"{ek}: exempt ({R7_EXCEPTIONS[ek]})")
                continue
            st = an.state_at(nid, root)
            txt = unparse(node)[:70]
            if st == F:
                okd.append(d)
            elif st == S:
                rebound = any(n == root for n, v, st_ in _all_name_stores(f.node))
                how = ("the caller's object on at least one path: it is re-bound to a copy on some paths only" if rebound
                       else "a parameter / shared object, never copied")
                bad.append(f"`{txt}` ({'store on' if kind == 'attr-store' else 'in-place mutation of'} `{root}`, {how}"
                           f"{'' if external(f) else '; as passed by ' + ', '.join(sorted({c_.qualname for c_, _ in sites[f.key]}))})")
            else:
                unknown.append(f"`{txt}`: origin of `{root}` not understood")
        ctx.require(not unknown, f"{f.key}: {unknown[:2]} (unknown idiom)")
        if f.name in COERCION_HOOKS:
            n_hooks += 1
        if not (f.name in COERCION_HOOKS or bad or okd):
            continue
        ctx.check(not bad, f"{f.key}:caller-element-not-mutated",
                  "; ".join(sorted(set(bad))) + " -- the coercion changes the object the caller passed in (and may have used in "
                  "another statement that is already compiled / cached): e.g. one bindparam(expanding=True) used with in_() and "
                  "with not_in() ends up with the expand_op of whichever came last, and `x IN ()` renders the NOT IN empty set "
                  "(`IN (NULL) OR (1 = 1)`: all rows); stamp only `x = x._clone(...)`",
                  f"{len(okd)} store(s), all on fresh copies" if okd else "no store on a non-local object", f.loc)
    for k in R7_EXCEPTIONS:
        ctx.require(k in seen_exc, f"R7 exception entry {k} no longer matches a store")
    ctx.require(n_hooks >= 30, f"only {n_hooks} coercion hooks found in {COERC}")


# ------------------------------------------------------------------------------------------ R8
# The text an expander returns for a list is final: `'a, b', 'c'` / `?, ?` / `(?, ?), (?, ?)`.  Taking it apart again at a
# separator (to wrap each item in a bind_expression) is only right while no item contains the separator -- a string
# literal `'a, b'`, a CAST target `NUMERIC(10, 2)`, a tuple row do.  Whoever needs the items has to get them from the
# renderer (the compile-time path hands the template to the literal expander: bind_expression_template).
REPARSE_METHODS = {"split", "rsplit", "partition", "rpartition", "splitlines"}
REPARSE_FUNCS = {"re.split", "re.findall", "re.finditer", "shlex.split"}


def _rendered_text_names(fn, is_source_call):
    """Names / containers (in `fn`, nested functions included) that hold the text returned by an IN-list renderer:
    `x = <call>` / `a, b = <call>` (the text is the last member of the pair) / `t = <name holding the pair>`,
    `D[k] = <text>` makes D a container of texts, `y = D[k]` / `D.get(k)` / `D.pop(k)` reads one back."""
    texts, pairs, boxes = set(), set(), set()
    stores = []
    subs = []
    for n in ast.walk(fn):
        if isinstance(n, ast.Assign):
            for t in n.targets:
                if isinstance(t, ast.Subscript) and isinstance(t.value, ast.Name):
                    subs.append((t.value.id, n.value))
                else:
                    stores.append((t, n.value))
        elif isinstance(n, ast.AnnAssign) and n.value is not None:
            stores.append((n.target, n.value))
        elif isinstance(n, ast.NamedExpr):
            stores.append((n.target, n.value))

    def is_text(e):
        if isinstance(e, ast.Name):
            return e.id in texts
        if isinstance(e, ast.Subscript):
            if isinstance(e.value, ast.Name) and e.value.id in boxes:
                return True
            if isinstance(e.value, ast.Name) and e.value.id in pairs:
                return True
            return isinstance(e.value, ast.Call) and is_source_call(e.value)
        if isinstance(e, ast.Call) and isinstance(e.func, ast.Attribute) and e.func.attr in ("get", "pop", "setdefault") \
                and isinstance(e.func.value, ast.Name) and e.func.value.id in boxes:
            return True
        if isinstance(e, ast.IfExp):
            return is_text(e.body) or is_text(e.orelse)
        return False

    def is_pair(e):
        return (isinstance(e, ast.Call) and is_source_call(e)) or (isinstance(e, ast.Name) and e.id in pairs)

    changed = True
    while changed:
        changed = False
        for t, v in stores:
            if isinstance(t, ast.Name):
                if is_pair(v) and t.id not in pairs:
                    pairs.add(t.id)
                    changed = True
                if is_text(v) and t.id not in texts:
                    texts.add(t.id)
                    changed = True
            elif isinstance(t, (ast.Tuple, ast.List)) and t.elts and is_pair(v):
                last = t.elts[-1]
                if isinstance(last, ast.Name) and last.id not in texts:
                    texts.add(last.id)
                    changed = True
        for box, v in subs:
            if is_text(v) and box not in boxes:
                boxes.add(box)
                changed = True
    return texts, boxes, is_text


@R.rule("C07-R8", floor=2, template="T-FLOW",
        desc="the text an IN-list expander returned is spliced into the statement whole: no consumer takes it apart again with "
             "split / partition / re.split (a rendered literal, a CAST target or a tuple row can contain the separator); a "
             "bind_expression is wrapped around the items by the renderer, which knows them")
def r8(ctx):
    ix = ctx.index
    base = ix.cls(BASE)

    def is_expander_ref(e):
        return isinstance(e, ast.Attribute) and e.attr.startswith(EXPANDERS_PREFIX)

    consumers = []
    for cls in [base] + sorted(ix.subclasses(base), key=lambda c: c.key):
        for name, f in sorted(cls.methods.items()):
            if f.type_only or name.startswith(EXPANDERS_PREFIX):
                continue
            if any(is_expander_ref(n) for n in ast.walk(f.node)):
                consumers.append(f)
    ctx.require(consumers, "no caller of the IN-list expanders found")
    for f in consumers:
        ctx.functions_analysed.add(f.key)
        # the bound method may be taken into a local first (`leep = self._literal_execute_expanding_parameter_literal_binds`)
        bound = {n for n, v, st in _all_name_stores(f.node) if v is not None and is_expander_ref(v)}

        def is_source_call(c, bound=bound):
            return is_expander_ref(c.func) or (isinstance(c.func, ast.Name) and c.func.id in bound)

        texts, boxes, is_text = _rendered_text_names(f.node, is_source_call)
        ctx.require(texts or boxes, f"{f.key}: the text returned by the expander is not bound to a name (unknown idiom)")
        bad = []
        for c in calls_in(f.node, into_nested=True):
            if isinstance(c.func, ast.Attribute) and c.func.attr in REPARSE_METHODS and is_text(c.func.value):
                bad.append((c, f"`{unparse(c)[:60]}`"))
            elif (call_name(c) or "") in REPARSE_FUNCS and any(is_text(a) for a in c.args):
                bad.append((c, f"`{unparse(c)[:60]}`"))
        ctx.check(not bad, f"{f.key}:rendered-list-not-reparsed",
                  f"{', '.join(t for _, t in bad)} takes the rendered IN list apart at a separator that can occur inside an item: "
                  f"with a type that has a bind_expression, `x IN ('a, b', 'c')` rendered by literal_execute becomes "
                  f"`IN (lower('a), lower(b'), lower('c'))` (still valid SQL, other rows), and a bound item rendered with a cast "
                  f"like `$1::NUMERIC(10, 2)` is cut in two (`round($1::NUMERIC(10), round(2))`), and for an EMPTY list the empty-set "
                  f"text `NULL) AND (1 != 1` is treated as one item: `x IN (lower(NULL) AND (1 != 1))` (SQLite: "
                  f"`IN (lower(SELECT 1 ...))`, a syntax error); the literal and the bound form no longer agree with the "
                  f"OR-of-equalities.  The items must come from the renderer (cf. bind_expression_template on the compile-time path)",
                  f"text names {sorted(texts)} / containers {sorted(boxes)} are only spliced whole",
                  f"{f.module.path}:{bad[0][0].lineno}" if bad else f.loc)


# ------------------------------------------------------------------------------------------ self test
R.mutant("r1-str-dialect-uses-base-compiler", "engine/default.py",
         sub("    statement_compiler = compiler.StrSQLCompiler\n", "    statement_compiler = compiler.SQLCompiler\n"), "C07-R1")
R.mutant("r1-mssql-dialect-uses-base-compiler", "dialects/mssql/base.py",
         sub("    statement_compiler = MSSQLCompiler\n", "    statement_compiler = compiler.SQLCompiler\n"), "C07-R1")
R.mutant("r1-oracle-raises-for-tuples", "dialects/oracle/base.py",
         sub('        return "SELECT 1 FROM DUAL WHERE 1!=1"\n',
             '        raise NotImplementedError()\n        return "SELECT 1 FROM DUAL WHERE 1!=1"\n'), "C07-R1")
R.mutant("r2-not-in-const-false", COMP, sub('return "NULL) OR (1 = 1"', 'return "NULL) OR (1 != 1"'), "C07-R2")
R.mutant("r2-in-joined-with-or", COMP, sub('return "NULL) AND (1 != 1"', 'return "NULL) OR (1 != 1"'), "C07-R2")
R.mutant("r2-swap-branches", COMP,
         sub("        if expand_op is operators.not_in_op:\n            if len(type_) > 1:\n                return \"(%s)) OR (1 = 1\"",
             "        if expand_op is operators.in_op:\n            if len(type_) > 1:\n                return \"(%s)) OR (1 = 1\""), "C07-R2")
R.mutant("r2-sqlite-where-true", "dialects/sqlite/base.py",
         sub('        return "SELECT %s FROM (SELECT %s) WHERE 1!=1" % (', '        return "SELECT %s FROM (SELECT %s) WHERE 1=1" % ('), "C07-R2")
R.mutant("r2-not-in-unbracketed", COMP,
         sub('        return "(%s)" % self._generate_generic_binary(\n            binary, OPERATORS[operator], **kw\n        )\n\n    def visit_empty_set_op_expr',
             '        return "%s" % self._generate_generic_binary(\n            binary, OPERATORS[operator], **kw\n        )\n\n    def visit_empty_set_op_expr'), "C07-R2")
R.mutant("r3-negate-keeps-right", ELEM,
         sub("                self.right._negate_in_binary(self.negate, self.operator),\n", "                self.right,\n"), "C07-R3")
R.mutant("r3-flip-on-self", ELEM,
         sub("            bind = self._clone()\n            bind.expand_op = negated_op\n            return bind\n",
             "            self.expand_op = negated_op\n            return self\n"), "C07-R3")
R.mutant("r3-flip-to-original", ELEM, sub("            bind.expand_op = negated_op\n", "            bind.expand_op = original_op\n"), "C07-R3")
R.mutant("r3-callsite-drops-expand-op", COMP,
         sub("                replacement_expression = self.visit_empty_set_op_expr(\n                    [parameter.type], parameter.expand_op\n",
             "                replacement_expression = self.visit_empty_set_op_expr(\n                    [parameter.type], None\n", count=2), "C07-R3")
# benign
R.mutant("benign-rename-clone", ELEM,
         sub("            bind = self._clone()\n            bind.expand_op = negated_op\n            return bind\n",
             "            flipped = self._clone()\n            flipped.expand_op = negated_op\n            return flipped\n"), None)
R.mutant("benign-equivalent-constants", COMP, sub('return "NULL) AND (1 != 1"', 'return "NULL) AND (0 = 1"'), None)
R.mutant("benign-added-dialect-comment-and-log", "dialects/sqlite/base.py",
         sub("        return self.visit_empty_set_expr(type_)\n", "        _n = len(type_)\n        return self.visit_empty_set_expr(type_)\n"), None)

# ---- R4 (seed C07/1 and its class)
_LIT_HEAD = "        typ_dialect_impl = parameter.type._unwrapped_dialect_impl(self.dialect)\n\n        if not values:\n"
R.mutant("r4-seed1-literal-path-drops-none", COMP,
         sub(_LIT_HEAD, "        typ_dialect_impl = parameter.type._unwrapped_dialect_impl(self.dialect)\n\n"
                        "        if not typ_dialect_impl._is_tuple_type:\n"
                        "            values = [value for value in values if value is not None]\n\n        if not values:\n"), "C07-R4")
R.mutant("r4-literal-scalar-comprehension-filter", COMP,
         sub("                    for value in values\n                )\n\n        return (), replacement_expression",
             "                    for value in values\n                    if value is not None\n                )\n\n        return (), replacement_expression"), "C07-R4")
R.mutant("r4-bound-path-skips-none", COMP,
         sub("                for i, value in enumerate(values, 1)\n            ]\n            replacement_expression = \", \".join(\n                _render_bindtemplate(key)",
             "                for i, value in enumerate(values, 1)\n                if value is not None\n            ]\n            replacement_expression = \", \".join(\n                _render_bindtemplate(key)"), "C07-R4")
R.mutant("r4-literal-path-truncates-list", COMP,
         sub(_LIT_HEAD, "        typ_dialect_impl = parameter.type._unwrapped_dialect_impl(self.dialect)\n"
                        "        values = values[:1000]\n\n        if not values:\n"), "C07-R4")
R.mutant("r4-literal-path-dedups-with-filter", COMP,
         sub(_LIT_HEAD, "        typ_dialect_impl = parameter.type._unwrapped_dialect_impl(self.dialect)\n"
                        "        values = list(filter(None, values))\n\n        if not values:\n"), "C07-R4")
R.mutant("r4-empty-guard-widened", COMP,
         sub("        if not values:\n            to_update = []\n", "        if not values or values == [None]:\n            to_update = []\n"), "C07-R4")
R.mutant("r4-empty-arm-narrowed", COMP,
         sub("            else:\n                replacement_expression = self.visit_empty_set_op_expr(\n                    [parameter.type], parameter.expand_op\n                )\n\n        elif typ_dialect_impl._is_tuple_type or (\n            typ_dialect_impl._isnull\n            and isinstance(values[0], collections_abc.Sequence)\n            and not isinstance(values[0], (str, bytes))\n        ):\n            if typ_dialect_impl._has_bind_expression:",
             "            elif parameter.expand_op is not None:\n                replacement_expression = self.visit_empty_set_op_expr(\n                    [parameter.type], parameter.expand_op\n                )\n            else:\n                replacement_expression = \"NULL\"\n\n        elif typ_dialect_impl._is_tuple_type or (\n            typ_dialect_impl._isnull\n            and isinstance(values[0], collections_abc.Sequence)\n            and not isinstance(values[0], (str, bytes))\n        ):\n            if typ_dialect_impl._has_bind_expression:"), "C07-R4")
R.mutant("r4-literal-tuple-arm-loses-values-keyword", COMP,
         sub("            replacement_expression = (\n                \"VALUES \" if self.dialect.tuple_in_values else \"\"\n            ) + \", \".join(",
             "            replacement_expression = \", \".join("), "C07-R4")
R.mutant("r4-literal-row-test-differs", COMP,
         sub("        elif typ_dialect_impl._is_tuple_type or (\n            typ_dialect_impl._isnull\n            and isinstance(values[0], collections_abc.Sequence)\n            and not isinstance(values[0], (str, bytes))\n        ):\n            if typ_dialect_impl._has_bind_expression:",
             "        elif typ_dialect_impl._is_tuple_type or (\n            typ_dialect_impl._isnull\n            and isinstance(values[0], (list, tuple))\n        ):\n            if typ_dialect_impl._has_bind_expression:"), "C07-R4")
R.mutant("r4-delegation-drops-first-element", COMP,
         sub("            return self._literal_execute_expanding_parameter_literal_binds(\n                parameter, values\n            )",
             "            return self._literal_execute_expanding_parameter_literal_binds(\n                parameter, values[1:]\n            )"), "C07-R4")
R.mutant("r4-tuple-arm-renders-first-member-only", COMP,
         sub("                        self.render_literal_value(value, param_type)\n                        for value, param_type in zip(\n                            tuple_element, parameter.type.types\n                        )",
             "                        self.render_literal_value(value, param_type)\n                        for value, param_type in zip(\n                            tuple_element[:1], parameter.type.types\n                        )"), "C07-R4")
R.mutant("benign-r4-list-copy-and-alias", COMP,
         sub(_LIT_HEAD, "        typ_dialect_impl = parameter.type._unwrapped_dialect_impl(self.dialect)\n"
                        "        values = list(values)\n        vals = values\n\n        if not vals:\n"), None)
R.mutant("benign-r4-unrelated-filtered-comprehension", COMP,
         sub("        if self._numeric_binds:\n            bind_template = self.compilation_bindtemplate\n",
             "        _known = [k for k in self.binds if k]\n        if self._numeric_binds:\n            bind_template = self.compilation_bindtemplate\n"), None)
# (the former preview of fix 1351bd4 is now the tree; its inverse is the defect)
R.mutant("r4-literal-empty-tuple-arm-prefixed-with-values", COMP,
         sub("            # expressions to render.\n\n            if typ_dialect_impl._is_tuple_type:\n"
             "                replacement_expression = self.visit_empty_set_op_expr(\n                    parameter.type.types, parameter.expand_op\n                )",
             "            # expressions to render.\n\n            if typ_dialect_impl._is_tuple_type:\n"
             "                replacement_expression = (\n                    \"VALUES \" if self.dialect.tuple_in_values else \"\"\n"
             "                ) + self.visit_empty_set_op_expr(\n                    parameter.type.types, parameter.expand_op\n                )"), "C07-R4")
# ---- R5 (seed C07/2 and its class)
_SCALAR_REG = "                    else:\n                        new_processors.update(\n                            (key, single_processors[name])\n                            for key, _ in to_update\n                            if name in single_processors\n                        )\n"
R.mutant("r5-seed2-hoisted-lookup-uses-escaped-name", COMP,
         sub(_SCALAR_REG, "                    elif escaped_name in single_processors:\n                        processor = single_processors[escaped_name]\n"
                          "                        new_processors.update(\n                            (key, processor) for key, _ in to_update\n                        )\n"), "C07-R5")
R.mutant("r5-membership-by-escaped-name", COMP,
         sub("                            if name in single_processors\n", "                            if escaped_name in single_processors\n"), "C07-R5")
R.mutant("r5-tuple-lookup-by-escaped-name", COMP,
         sub("                                tuple_processors[name][j - 1],\n", "                                tuple_processors[escaped_name][j - 1],\n"), "C07-R5")
R.mutant("r5-scalar-registration-under-raw-key", COMP,
         sub(_SCALAR_REG, "                    else:\n                        new_processors.update(\n                            (\"%s_%s\" % (name, i), single_processors[name])\n"
                          "                            for i, _ in enumerate(to_update, 1)\n                            if name in single_processors\n                        )\n"), "C07-R5")
R.mutant("benign-r5-hoisted-lookup-by-raw-name", COMP,
         sub(_SCALAR_REG, "                    elif name in single_processors:\n                        processor = single_processors[name]\n"
                          "                        new_processors.update(\n                            (key, processor) for key, _ in to_update\n                        )\n"), None)
# (the former preview of fix b4dfd66 is now the tree; its inverse is the defect)
R.mutant("r5-tuple-registration-under-raw-key", COMP,
         sub("                                \"%s_%s_%s\" % (escaped_name, i, j),\n                                tuple_processors[name][j - 1],",
             "                                \"%s_%s_%s\" % (name, i, j),\n                                tuple_processors[name][j - 1],"), "C07-R5")
# ---- R6
R.mutant("r6-conflict-check-disabled", COMP,
         sub("        if name in self.binds:\n            existing = self.binds[name]\n            if existing is not bindparam:",
             "        if kwargs.get(\"check_conflicts\", False):\n            existing = self.binds[name]\n            if existing is not bindparam:"), "C07-R6")
R.mutant("r6-registered-before-conflict-check", COMP,
         sub("        name = self._truncate_bindparam(bindparam)\n\n        if name in self.binds:\n            existing = self.binds[name]",
             "        name = self._truncate_bindparam(bindparam)\n        if bindparam.unique:\n            self.binds[name] = bindparam\n\n        if name in self.binds:\n            existing = self.binds[name]"), "C07-R6")
R.mutant("benign-r6-expanded-names-checked", COMP,
         sub("                if not parameter.literal_execute:\n                    parameters.update(to_update)\n",
             "                if not parameter.literal_execute:\n                    for _k, _ in to_update:\n                        if _k in self.binds and _k != name:\n"
             "                            raise exc.CompileError(\"expanded name %r conflicts\" % (_k,))\n                    parameters.update(to_update)\n"), None)

# ---- robustify round (rob-C1): R3 reads _negate / _negate_in_binary independently of their shape
_NEG = """        if self.negate is not None:
            return BinaryExpression(
                self.left,
                self.right._negate_in_binary(self.negate, self.operator),
                self.negate,
                negate=self.operator,
                type_=self.type,
                modifiers=self.modifiers,
            )
        else:
            return self.self_group()._negate()
"""
_NEG_ALIAS = """        negated_op = self.negate
        if negated_op is None:
            return self.self_group()._negate()

        original_op = self.operator
        return BinaryExpression(
            self.left,
            self.right._negate_in_binary(%s),
            negated_op,
            negate=original_op,
            type_=self.type,
            modifiers=self.modifiers,
        )
"""
R.mutant("benign-r3-negate-aliases-inverted-if", ELEM, sub(_NEG, _NEG_ALIAS % "negated_op, original_op"), None)
R.mutant("r3-negate-aliases-hook-arguments-swapped", ELEM, sub(_NEG, _NEG_ALIAS % "original_op, negated_op"), "C07-R3")
R.mutant("benign-r3-negate-right-operand-local-keywords", ELEM, sub(_NEG, """        if self.negate is None:
            return self.self_group()._negate()
        flipped_right = self.right._negate_in_binary(
            negated_op=self.negate, original_op=self.operator
        )
        return BinaryExpression(
            left=self.left,
            right=flipped_right,
            operator=self.negate,
            negate=self.operator,
            type_=self.type,
            modifiers=self.modifiers,
        )
"""), None)
R.mutant("benign-r3-negate-extracted-helper", ELEM, sub(_NEG, """        if self.negate is not None:
            return self._negated_with(self.negate, self.operator)
        else:
            return self.self_group()._negate()

    def _negated_with(self, new_op, old_op):
        return BinaryExpression(
            self.left,
            self.right._negate_in_binary(new_op, old_op),
            new_op,
            negate=old_op,
            type_=self.type,
            modifiers=self.modifiers,
        )
"""), None)
R.mutant("r3-negate-extracted-helper-keeps-right", ELEM, sub(_NEG, """        if self.negate is not None:
            return self._negated_with(self.negate, self.operator)
        else:
            return self.self_group()._negate()

    def _negated_with(self, new_op, old_op):
        return BinaryExpression(
            self.left,
            self.right,
            new_op,
            negate=old_op,
            type_=self.type,
            modifiers=self.modifiers,
        )
"""), "C07-R3")
_NIB = ("        if self.expand_op is original_op:\n            bind = self._clone()\n            bind.expand_op = negated_op\n"
        "            return bind\n        else:\n            return self\n")
R.mutant("benign-r3-flip-early-return-alias", ELEM, sub(_NIB, """        current = self.expand_op
        if current is not original_op:
            return self
        bind = self._clone()
        bind.expand_op = negated_op
        return bind
"""), None)
R.mutant("r3-flip-early-return-test-inverted", ELEM, sub(_NIB, """        current = self.expand_op
        if current is original_op:
            return self
        bind = self._clone()
        bind.expand_op = negated_op
        return bind
"""), "C07-R3")
R.mutant("r3-flip-after-return-path", ELEM, sub(_NIB, """        if self.expand_op is not original_op:
            return self
        bind = self._clone()
        if bind.literal_execute:
            return bind
        bind.expand_op = negated_op
        return bind
"""), "C07-R3")
R.mutant("benign-r3-callsite-expand-op-local", COMP,
         sub("        if not values:\n            to_update = []\n            if typ_dialect_impl._is_tuple_type:\n"
             "                replacement_expression = self.visit_empty_set_op_expr(\n                    parameter.type.types, parameter.expand_op\n                )",
             "        if not values:\n            to_update = []\n            in_or_not_in = parameter.expand_op\n            if typ_dialect_impl._is_tuple_type:\n"
             "                replacement_expression = self.visit_empty_set_op_expr(\n                    parameter.type.types, in_or_not_in\n                )"), None)

# ---- robustify round (rob-C1): R2 reads the *rendered* fragments (the methods are evaluated on opaque inputs), R3 / R4
# follow a helper that renders the empty set
_ESOE = '''        if expand_op is operators.not_in_op:
            if len(type_) > 1:
                return "(%s)) OR (1 = 1" % (
                    ", ".join("NULL" for element in type_)
                )
            else:
                return "NULL) OR (1 = 1"
        elif expand_op is operators.in_op:
            if len(type_) > 1:
                return "(%s)) AND (1 != 1" % (
                    ", ".join("NULL" for element in type_)
                )
            else:
                return "NULL) AND (1 != 1"
        else:
            return self.visit_empty_set_expr(type_)
'''
_ESOE_DEDUP = '''        if expand_op is operators.not_in_op:
            always_true_or_false = "%s"
        elif expand_op is operators.in_op:
            always_true_or_false = "%s"
        else:
            return self.visit_empty_set_expr(type_)

        if len(type_) > 1:
            null_tuple = %s
            return f"({null_tuple})) {always_true_or_false}"
        else:
            return f"NULL) {always_true_or_false}"
'''
_PER_ELEMENT = '", ".join("NULL" for _ in type_)'
R.mutant("benign-r2-fragments-deduplicated-fstrings", COMP, sub(_ESOE, _ESOE_DEDUP % ("OR (1 = 1", "AND (1 != 1", _PER_ELEMENT)), None)
R.mutant("benign-r2-null-row-by-list-multiplication", COMP,
         sub(_ESOE, _ESOE_DEDUP % ("OR (1 = 1", "AND (1 != 1", '", ".join(["NULL"] * len(type_))')), None)
R.mutant("r2-deduplicated-suffixes-swapped", COMP, sub(_ESOE, _ESOE_DEDUP % ("AND (1 != 1", "OR (1 = 1", _PER_ELEMENT)), "C07-R2")
R.mutant("r2-deduplicated-null-row-fixed-width", COMP, sub(_ESOE, _ESOE_DEDUP % ("OR (1 = 1", "AND (1 != 1", '"NULL, NULL"')), "C07-R2")
R.mutant("r2-deduplicated-other-op-falls-through", COMP, sub(_ESOE, '''        always_true_or_false = "OR (1 = 1"
        if expand_op is operators.in_op:
            always_true_or_false = "AND (1 != 1"

        if len(type_) > 1:
            null_tuple = ", ".join("NULL" for _ in type_)
            return f"({null_tuple})) {always_true_or_false}"
        else:
            return f"NULL) {always_true_or_false}"
'''), "C07-R2")
_SQLITE_ES = '''        return "SELECT %s FROM (SELECT %s) WHERE 1!=1" % (
            ", ".join("1" for type_ in element_types or [INTEGER()]),
            ", ".join("1" for type_ in element_types or [INTEGER()]),
        )
'''
R.mutant("benign-r2-sqlite-empty-set-columns-by-loop", "dialects/sqlite/base.py", sub(_SQLITE_ES, '''        cols = []
        for type_ in element_types or [INTEGER()]:
            cols.append("1")
        placeholder_cols = ", ".join(cols)
        return f"SELECT {placeholder_cols} FROM (SELECT {placeholder_cols}) WHERE 1!=1"
'''), None)
R.mutant("r2-sqlite-empty-set-loop-single-column", "dialects/sqlite/base.py", sub(_SQLITE_ES, '''        cols = []
        for type_ in element_types or [INTEGER()]:
            cols = ["1"]
        placeholder_cols = ", ".join(cols)
        return f"SELECT {placeholder_cols} FROM (SELECT {placeholder_cols}) WHERE 1!=1"
'''), "C07-R2")
# the two arms of the empty case merged into a helper (rfD_5) / a conditional expression
_EMPTY_BOUND = ("        if not values:\n            to_update = []\n            if typ_dialect_impl._is_tuple_type:\n"
                "                replacement_expression = self.visit_empty_set_op_expr(\n                    parameter.type.types, parameter.expand_op\n                )\n"
                "            else:\n                replacement_expression = self.visit_empty_set_op_expr(\n                    [parameter.type], parameter.expand_op\n                )\n")
_EMPTY_LIT = ("            if typ_dialect_impl._is_tuple_type:\n"
              "                replacement_expression = self.visit_empty_set_op_expr(\n                    parameter.type.types, parameter.expand_op\n                )\n\n"
              "            else:\n                replacement_expression = self.visit_empty_set_op_expr(\n                    [parameter.type], parameter.expand_op\n                )\n")
_LIT_DEF = "    def _literal_execute_expanding_parameter_literal_binds(\n"
_ES_HELPER = ("    def _empty_set_for(self, parameter, impl):\n        if impl._is_tuple_type:\n            element_types = parameter.type.types\n"
              "        else:\n            element_types = [parameter.type]\n        return self.visit_empty_set_op_expr(element_types, %s)\n\n")
R.mutant("benign-r4-empty-set-helper-in-both-expanders", COMP,
         chain(sub(_LIT_DEF, _ES_HELPER % "parameter.expand_op" + _LIT_DEF),
               sub(_EMPTY_BOUND, "        if not values:\n            to_update = []\n            replacement_expression = self._empty_set_for(parameter, typ_dialect_impl)\n"),
               sub(_EMPTY_LIT, "            replacement_expression = self._empty_set_for(parameter, typ_dialect_impl)\n")), None)
R.mutant("benign-r4-empty-set-helper-in-literal-expander-only", COMP,
         chain(sub(_LIT_DEF, _ES_HELPER % "parameter.expand_op" + _LIT_DEF),
               sub(_EMPTY_LIT, "            replacement_expression = self._empty_set_for(parameter, typ_dialect_impl)\n")), None)
R.mutant("r3-empty-set-helper-drops-expand-op", COMP,
         chain(sub(_LIT_DEF, _ES_HELPER % "operators.in_op" + _LIT_DEF),
               sub(_EMPTY_BOUND, "        if not values:\n            to_update = []\n            replacement_expression = self._empty_set_for(parameter, typ_dialect_impl)\n"),
               sub(_EMPTY_LIT, "            replacement_expression = self._empty_set_for(parameter, typ_dialect_impl)\n")), "C07-R3")
R.mutant("benign-r4-empty-arm-conditional-element-types", COMP,
         sub(_EMPTY_BOUND, "        if not values:\n            to_update = []\n            replacement_expression = self.visit_empty_set_op_expr(\n"
                           "                parameter.type.types if typ_dialect_impl._is_tuple_type else [parameter.type],\n"
                           "                parameter.expand_op,\n            )\n"), None)
R.mutant("r4-literal-empty-set-helper-prefixed-with-values", COMP,
         chain(sub(_LIT_DEF, _ES_HELPER % "parameter.expand_op" + _LIT_DEF),
               sub(_EMPTY_LIT, "            replacement_expression = \"VALUES \" + self._empty_set_for(parameter, typ_dialect_impl)\n")), "C07-R4")
R.mutant("r4-empty-set-helper-under-extra-condition", COMP,
         chain(sub(_LIT_DEF, _ES_HELPER % "parameter.expand_op" + _LIT_DEF),
               sub("        if not values:\n            to_update = []\n            if typ_dialect_impl._is_tuple_type:\n",
                   "        if not values or values == [None]:\n            to_update = []\n            if typ_dialect_impl._is_tuple_type:\n")), "C07-R4")

# ---- round 2 (str2-d): R7 (seed C07_3 and its class), R4 additions (seed C07_4), R8
_PC = ("        elif isinstance(element, elements.BindParameter):\n            element = element._clone(maintain_key=True)\n"
       "            element.expanding = True\n            element.expand_op = operator\n\n            return element\n")
R.mutant("r7-seed3-clone-only-when-not-yet-expanding", COERC,
         sub(_PC, "        elif isinstance(element, elements.BindParameter):\n            if not element.expanding:\n"
                  "                element = element._clone(maintain_key=True)\n                element.expanding = True\n"
                  "            element.expand_op = operator\n\n            return element\n"), "C07-R7")
R.mutant("r7-no-clone-at-all", COERC,
         sub(_PC, "        elif isinstance(element, elements.BindParameter):\n            element.expanding = True\n"
                  "            element.expand_op = operator\n\n            return element\n"), "C07-R7")
R.mutant("r7-stamp-through-alias-before-clone", COERC,
         sub(_PC, "        elif isinstance(element, elements.BindParameter):\n            given = element\n"
                  "            element = element._clone(maintain_key=True)\n            given.expanding = True\n"
                  "            element.expanding = True\n            element.expand_op = operator\n\n            return element\n"), "C07-R7")
R.mutant("r7-helper-stamps-callers-element", COERC,
         sub(_PC, "        elif isinstance(element, elements.BindParameter):\n            self._mark_expanding(element, operator)\n"
                  "            return element._clone(maintain_key=True)\n"
                  "        elif isinstance(element, selectable.Values):\n            return element.scalar_values()\n        else:\n            return element\n\n"
                  "    def _mark_expanding(self, param, in_operator):\n        param.expanding = True\n        param.expand_op = in_operator\n\n"
                  "    def _unused_tail(self, element):\n        if False:\n            return element\n"), "C07-R7")
R.mutant("r7-literal-coercion-of-another-role-sets-flag-on-argument", COERC,
         sub("    def _post_coercion(self, resolved, *, original_element=None, **kw):\n",
             "    def _post_coercion(self, resolved, *, original_element=None, **kw):\n        resolved._is_on_clause = True\n"), "C07-R7")
R.mutant("benign-r7-clone-under-inverted-early-return", COERC,
         sub(_PC, "        elif not isinstance(element, elements.BindParameter):\n            if isinstance(element, selectable.Values):\n"
                  "                return element.scalar_values()\n            return element\n"
                  "        expanding_copy = element._clone(maintain_key=True)\n        expanding_copy.expand_op = operator\n"
                  "        expanding_copy.expanding = True\n        return expanding_copy\n"
                  "        if False:\n            return element\n"), None)
R.mutant("benign-r7-helper-returns-stamped-clone", COERC,
         sub(_PC, "        elif isinstance(element, elements.BindParameter):\n            return self._as_expanding(element, operator)\n"
                  "        elif isinstance(element, selectable.Values):\n            return element.scalar_values()\n        else:\n            return element\n\n"
                  "    def _as_expanding(self, param, in_operator):\n        param = param._clone(maintain_key=True)\n"
                  "        param.expanding = True\n        param.expand_op = in_operator\n        return param\n\n"
                  "    def _unused_tail(self, element):\n        if False:\n            return element\n"), None)
R.mutant("benign-r7-helper-stamps-the-callers-fresh-clone", COERC,
         sub(_PC, "        elif isinstance(element, elements.BindParameter):\n            copied = element._clone(maintain_key=True)\n"
                  "            self._mark_expanding(copied, operator)\n            return copied\n"
                  "        elif isinstance(element, selectable.Values):\n            return element.scalar_values()\n        else:\n            return element\n\n"
                  "    def _mark_expanding(self, param, in_operator):\n        param.expanding = True\n        param.expand_op = in_operator\n\n"
                  "    def _unused_tail(self, element):\n        if False:\n            return element\n"), None)
R.mutant("r3-helper-stamps-wrong-operator", COERC,
         sub(_PC, "        elif isinstance(element, elements.BindParameter):\n            copied = element._clone(maintain_key=True)\n"
                  "            self._mark_expanding(copied, operator)\n            return copied\n"
                  "        elif isinstance(element, selectable.Values):\n            return element.scalar_values()\n        else:\n            return element\n\n"
                  "    def _mark_expanding(self, param, in_operator):\n        param.expanding = True\n        param.expand_op = operators.in_op\n\n"
                  "    def _unused_tail(self, element):\n        if False:\n            return element\n"), "C07-R3")
# R4: the bound path (seed C07_4) and the helper / boolean spellings of a filter
_BOUND_SCALAR = ("        else:\n            to_update = [\n                (\"%s_%s\" % (name, i), value)\n"
                 "                for i, value in enumerate(values, 1)\n            ]\n")
R.mutant("r4-seed4-bound-path-filters-none-for-in-or-keeps", COMP,
         sub(_BOUND_SCALAR, "        else:\n            if parameter.expand_op is operators.in_op:\n"
                            "                values = [\n                    value for value in values if value is not None\n                ] or values\n"
                            "            to_update = [\n                (\"%s_%s\" % (name, i), value)\n"
                            "                for i, value in enumerate(values, 1)\n            ]\n"), "C07-R4")
_NN_HELPER = ("    def _without_nulls(self, items):\n        kept = [item for item in items if item is not None]\n        return kept or items\n\n")
R.mutant("r4-bound-path-filters-through-helper", COMP,
         chain(sub(_LIT_DEF, _NN_HELPER + _LIT_DEF),
               sub(_BOUND_SCALAR, "        else:\n            values = self._without_nulls(values)\n            to_update = [\n"
                                  "                (\"%s_%s\" % (name, i), value)\n                for i, value in enumerate(values, 1)\n            ]\n")), "C07-R4")
R.mutant("r4-bound-path-dedups-in-helper", COMP,
         chain(sub(_LIT_DEF, "    def _distinct(self, items):\n        return list(dict.fromkeys(items))\n\n" + _LIT_DEF),
               sub(_BOUND_SCALAR, "        else:\n            values = self._distinct(values)\n            to_update = [\n"
                                  "                (\"%s_%s\" % (name, i), value)\n                for i, value in enumerate(values, 1)\n            ]\n")), "C07-R4")
R.mutant("benign-r4-list-normalised-by-helper-and-or-empty", COMP,
         chain(sub(_LIT_DEF, "    def _as_list(self, items):\n        items = list(items)\n        return items\n\n" + _LIT_DEF),
               sub(_BOUND_SCALAR, "        else:\n            values = self._as_list(values) or []\n            to_update = [\n"
                                  "                (\"%s_%s\" % (name, i), value)\n                for i, value in enumerate(values, 1)\n            ]\n")), None)
R.mutant("benign-r4-bound-scalar-arm-loop-variable-renamed-and-guard-on-expand-op-logging", COMP,
         sub(_BOUND_SCALAR, "        else:\n            if parameter.expand_op is operators.in_op:\n                _n_null = sum(1 for v_ in values if v_ is None)\n"
                            "            to_update = [\n                (\"%s_%s\" % (name, pos), item)\n"
                            "                for pos, item in enumerate(values, 1)\n            ]\n"), None)
# R8: the consumer of the rendered list
_PE = ("            if m.group(2):\n                tok = m.group(2).split(\"~~\")\n                be_left, be_right = tok[1], tok[3]\n"
       "                expr = \", \".join(\n                    \"%s%s%s\" % (be_left, exp, be_right)\n"
       "                    for exp in expr.split(\", \")\n                )\n            return expr\n")
R.mutant("benign-r8-preview-fix-items-come-from-the-renderer", COMP,
         chain(sub("                    to_update_sets[escaped_name] = to_update\n",
                   "                    to_update_sets[escaped_name] = to_update\n                    expanded_values[escaped_name] = (parameter, values)\n"),
               sub("        replacement_expressions: Dict[str, Any] = {}\n",
                   "        replacement_expressions: Dict[str, Any] = {}\n        expanded_values: Dict[str, Any] = {}\n"),
               sub(_PE, "            if m.group(2):\n                parameter, values = expanded_values[key]\n"
                        "                expr = self._render_expanded_with_bind_expression(\n                    key, parameter, values, m.group(0)\n                )\n"
                        "            return expr\n")), None)
R.mutant("r8-compile-time-path-also-splits", COMP,
         sub("                bind_expression_template=bind_expression_template,\n            )\n            return replacement_expr\n",
             "            )\n            if bind_expression_template:\n                return \", \".join(\n"
             "                    bind_expression_template.replace(\"REPL\", item)\n                    for item in replacement_expr.split(\", \")\n                )\n"
             "            return replacement_expr\n"), "C07-R8")
R.mutant("r8-compile-time-path-partitions-an-alias-of-the-text", COMP,
         sub("                bind_expression_template=bind_expression_template,\n            )\n            return replacement_expr\n",
             "                bind_expression_template=bind_expression_template,\n            )\n            rendered = replacement_expr\n"
             "            if self.dialect.max_identifier_length < 0:\n                return rendered.partition(\", \")[0]\n"
             "            return rendered\n"), "C07-R8")
R.mutant("benign-r8-template-token-split-and-renamed-locals", COMP,
         sub("            key = m.group(1)\n            expr = replacement_expressions[key]\n",
             "            key = m.group(1)\n            rendered_list = replacement_expressions[key]\n            expr = rendered_list\n"
             "            _marker = m.group(0).split(\"~~\")[0]\n"), None)
